#!/bin/bash
# maintenance helper: run every quick check on /repo as it is (must be clean of test mutants) and fail if any alarm.
# Run before committing evidence: a check run against a temporarily modified /repo leaves that run's evidence behind.
cd "$(dirname "$0")"
[ -n "$(git -C /repo status --short)" ] && { echo "/repo has uncommitted changes"; exit 2; }
rc=0
for p in $(python3 -c "import json;print(' '.join(c['property_id'] for c in json.load(open('MANIFEST.json'))['checks']))"); do
  out=$(./check $p --tier quick 2>&1); r=$?
  echo "$p rc=$r $(echo "$out" | tail -1 | cut -c1-100)"
  [ $r -ne 0 ] && rc=1
done
exit $rc
