"""C08.R2 / C12.R3: contract between a built-in's lint() and its run().

run() of a built-in reads its arguments from the callee context by position.  Where it reads
argument k with the *unchecked* string accessor (VariantCasts::to_str_unchecked panics on any
other type), lint() of the same built-in must require a string at position k on every path on
which it accepts the call.  Both sides are read from the code: the constant index of
`context()[k]` whose value flows into to_str_unchecked, and the ArgValidation calls of
rusty_linter::built_ins::<name>::lint with their constant index."""
import re

from .. import mir
from ..core import CheckError

STRING_REQS = ("require_string_argument", "require_string_variable", "require_string_ref")
STRING_REQS_ONE = ("require_one_string_argument",)


def _const_int(op):
    k = op.get("k") or {}
    return k.get("int") if "int" in k else None


def run_side(prog):
    """{module: {k: line}} for context()[k].to_str_unchecked() with constant k; and the number of
    unchecked reads whose index is not a constant."""
    out = {}
    dynamic = []
    for fn in prog.fns.values():
        if fn.body is None or fn.crate != "rusty_basic" or "interpreter::built_ins::" not in fn.path:
            continue
        m = re.search(r"interpreter::built_ins::(\w+)::", fn.path)
        if not m:
            continue
        mod = m.group(1)
        body = fn.body
        pv = mir.Prov(body)
        for b, t in body.calls():
            if mir.callee_path(t).split("::")[-1] != "to_str_unchecked" or not t["args"]:
                continue
            o = mir.strip_all(pv.of_operand(t["args"][0]))
            idx = None
            found = False
            # the receiver's origin is ('call', '<Context as Index<usize>>::index', (context, k), ..)
            if o[0] == "call" and o[1].endswith("::index") and "Context" in o[1]:
                args = o[2] if len(o) > 2 else ()
                found = True
                if len(args) >= 2 and args[1][0] == "const":
                    mm = re.match(r"^(\d+)_usize$", args[1][1])
                    idx = int(mm.group(1)) if mm else None
            if found and idx is not None:
                out.setdefault(mod, {})[idx] = "%s:%s" % (fn.file, t.get("ln"))
            else:
                dynamic.append("%s:%s" % (fn.file, t.get("ln")))
    return out, dynamic


def lint_side(prog, mod):
    fs = [f for f in prog.fns.values() if f.name == "lint" and f.kind == "fn" and f.crate == "rusty_linter"
          and ("built_ins::%s::" % mod) in f.path]
    return fs[0] if len(fs) == 1 else None


def string_required(prog, lint, k):
    """every accepting path of lint passes a string requirement for argument k"""
    body = lint.body
    through = set()
    n_req = 0
    for b, t in body.calls():
        name = mir.callee_path(t).split("::")[-1]
        if name in STRING_REQS and len(t["args"]) >= 2 and _const_int(t["args"][1]) == k:
            through.add(b)
            n_req += 1
        elif name in STRING_REQS_ONE and k == 0:
            through.add(b)
            n_req += 1
    if not n_req:
        return False, "no string requirement for argument %d" % k
    # rejecting paths: blocks that build Err(..)
    for b, blk in enumerate(body.blocks):
        if body.is_cleanup(b):
            continue
        for st in blk["s"]:
            r = st.get("r", {})
            if r.get("k") == "agg" and r.get("a") == "adt" and r.get("variant") == "Err":
                through.add(b)
    # ... and the error side of every `?`
    for b, t in body.calls():
        if (t.get("cpath") or "").endswith("Try::branch") and t.get("t") is not None:
            tt = body.term(t["t"])
            if tt["k"] == "switch":
                through |= {tgt for val, tgt in tt["ts"] if val == 1}
    ok = body.every_path_passes(0, set(body.exits()), through)
    if not ok and _arity_switches(body) >= 2:
        # the argument layout depends on the number of arguments (INSTR([start,] hay, needle)):
        # which accepting branch pairs with which read is not decided; a requirement for k exists
        return True, "%d requirement(s) on the branches of an arity-dependent layout (pairing with the " \
                     "reads not decided)" % n_req
    return ok, "%d requirement(s)%s" % (n_req, "" if ok else ", but some accepting path avoids them")


def _arity_switches(body):
    """number of comparisons of args.len() with a constant"""
    n = 0
    lens = set()
    for b, t in body.calls():
        if mir.callee_path(t).split("::")[-1] == "len" and t.get("d"):
            lens.add(t["d"][0])
    for blk in body.blocks:
        for st in blk["s"]:
            r = st.get("r", {})
            if r.get("k") == "bin" and r.get("op") in ("Eq", "Ne"):
                pa = mir.op_place(r["a"])
                if pa is not None and pa[0] in lens and (r["b"].get("k") or {}).get("int") is not None:
                    n += 1
    return n


def r_contract(ctx, rule):
    prog = ctx.prog
    reads, dynamic = run_side(prog)
    if len(reads) < 10:
        raise CheckError("%s: only %d built-ins with an unchecked string read recognised" % (rule, len(reads)))
    n = 0
    for mod in sorted(reads):
        lint = lint_side(prog, mod)
        for k, loc in sorted(reads[mod].items()):
            n += 1
            key = "%s:%s:arg%d:string-required" % (rule, mod, k)
            if lint is None:
                ctx.violation(rule, key, loc, "built-in `%s` reads argument %d with to_str_unchecked but has no "
                              "lint function in rusty_linter::built_ins::%s" % (mod, k, mod), {})
                continue
            ok, why = string_required(prog, lint, k)
            ctx.decide(ok, rule, key, loc, why,
                       "run() of `%s` reads argument %d with to_str_unchecked (panics unless it is a string) but "
                       "its lint() does not demand a string there: %s - an accepted program can abort the VM"
                       % (mod, k, why))
    ctx.analysed_units(rule, builtins=len(reads), reads=n, reads_with_computed_index=dynamic)
    ctx.require(rule, 12)
