#!/usr/bin/env python3
"""maintenance helper (not used by checks): merge the reviewed audit of unaudited panic sites.
usage: tools_audit_merge.py result.json...   Each 'fires' verdict is re-run here against
/repo/target/debug/rusty_basic before it is recorded as a known finding; each 'safe' verdict moves
the site from the unaudited baseline to the audited table with its invariant."""
import json, os, subprocess, sys, tempfile
sys.path.insert(0, '/verif')
BASE = '/verif/tables/panic_baseline.json'
KF = '/verif/known_findings.json'
t = json.load(open(BASE))
kf = json.load(open(KF))
scopes = {}
for scope in ('frontend', 'backend'):
    for k in t[scope]['unaudited']:
        scopes.setdefault(k, []).append(scope)
n_safe = n_fire = n_unknown = n_unconfirmed = 0
for path in sys.argv[1:]:
    for r in json.load(open(path)):
        key = r['key']
        if key not in scopes:
            continue
        if r['verdict'] == 'safe':
            n_safe += 1
            for scope in scopes[key]:
                t[scope]['unaudited'] = [k for k in t[scope]['unaudited'] if k != key]
                t[scope]['audited'][key] = r['reason']
        elif r['verdict'] == 'fires':
            d = tempfile.mkdtemp()
            src = os.path.join(d, 'p.bas')
            open(src, 'w').write(r['input'] if r['input'].endswith('\n') else r['input'] + '\n')
            stdin = (r.get('stdin') or '').encode('latin1', 'replace')
            pr = subprocess.run(['/repo/target/debug/rusty_basic', src], input=stdin, stdout=subprocess.PIPE,
                                stderr=subprocess.STDOUT, cwd=d, timeout=60)
            out = pr.stdout.decode('utf8', 'replace')
            if 'panicked at' not in out:
                n_unconfirmed += 1
                print('NOT CONFIRMED', key, '|', r['input'][:80].replace('\n', ' / '), '|', out[:120].replace('\n', ' '))
                continue
            n_fire += 1
            line = [l for l in out.splitlines() if 'panicked at' in l][0]
            msg = out.splitlines()[out.splitlines().index(line) + 1] if out.splitlines().index(line) + 1 < len(out.splitlines()) else ''
            for scope in scopes[key]:
                rule = 'C07.R1' if scope == 'frontend' else 'C08.R6'
                prop = rule[:3]
                t[scope]['unaudited'] = [k for k in t[scope]['unaudited'] if k != key]
                fk = '%s:%s' % (rule, key)
                kf['findings'] = [f for f in kf['findings'] if not (f['property'] == prop and f['key'] == fk)]
                kf['findings'].append({'property': prop, 'key': fk,
                                       'what_fails': 'reachable panic: ' + r['reason'][:300],
                                       'input': r['input'], 'stdin': r.get('stdin'),
                                       'observed': (line.split('panicked at ')[1] + ' ' + msg)[:300]})
        else:
            n_unknown += 1
json.dump(t, open(BASE, 'w'), indent=1)
json.dump(kf, open(KF, 'w'), indent=1)
print('safe', n_safe, 'fires', n_fire, 'unknown', n_unknown, 'not confirmed', n_unconfirmed)
