"""Operator tables extracted from the code, shared by C01/C06/C12/C14:

* dispatch: Operator -> Instruction (generator) -> handler fn (interpret_one) -> Variant method
* vm(op, ltag, rtag): abstract outcome of the VM handler for operand tags (TagFlow with the VM
  registers as intrinsics): set of result tags and set of error variants
* static(op, lq, rq): the checker's result type (cast_binary_op_q)
* folder(op, ltag, rtag): abstract outcome of the constant folder
"""
import re

from . import emit, mir, tagflow as tf
from .core import CheckError

VARIANT = "rusty_variant::variant::Variant"
TQ = "rusty_parser::core::type_qualifier::TypeQualifier"
OP = "rusty_parser::core::operator::Operator"
UOP = "rusty_parser::core::unary_operator::UnaryOperator"
EXPR = "rusty_parser::expr::types::Expression"
POS = "rusty_common::positioned::Positioned"
ORDERING = "core::cmp::Ordering"

NUMERIC_TAGS = ["VSingle", "VDouble", "VInteger", "VLong"]
BUILTIN_TAGS = ["VSingle", "VDouble", "VString", "VInteger", "VLong"]


def snake(name):
    return re.sub(r"(?<!^)(?=[A-Z])", "_", name).lower()


class OpTables:
    def __init__(self, prog):
        self.prog = prog
        self.A = [tf.TOP, tf.TOP]
        self.recorded = []
        self.eng = tf.Engine(prog, intrinsics=self._intrinsics)
        for need in (VARIANT, TQ, OP, EXPR):
            if need not in prog.adts:
                raise CheckError("ADT %s not found" % need)
        self._q2tag = None

    # ------------------------------------------------------------ VM register model
    def _intrinsics(self, eng, t, args):
        cp = t.get("cpath") or ""
        if cp.endswith("InterpreterTrait::registers") or cp.endswith("InterpreterTrait::registers_mut"):
            return [tf.Tag("REGS", "Registers", [])]
        if cp.endswith("registers::Registers::get_a"):
            return [self.A[0]]
        if cp.endswith("registers::Registers::get_b"):
            return [self.A[1]]
        if cp.endswith("registers::Registers::set_a"):
            self.recorded.append(args[1])
            return [tf.Tup(())]
        if cp.endswith("ConstEvaluator::eval_const") and self._fold_fn is not None:
            # recursive evaluation of a sub-expression: redirect to the ExpressionPos evaluator
            inner = tf.deref(args[1])
            if inner[0] == "tag" and inner[1] == POS:
                return eng.summary(self._fold_fn, (args[0], tf.Ref(inner)))
            return None
        return None

    _fold_fn = None

    # ------------------------------------------------------------ qualifier <-> tag
    def qualifier_tags(self):
        """TypeQualifier variant -> Variant tag, read from allocate_built_in."""
        if self._q2tag is None:
            fs = [f for f in self.prog.fns.values() if f.name == "allocate_built_in" and f.crate == "rusty_basic"]
            if len(fs) != 1:
                raise CheckError("anchor allocate_built_in")
            out = {}
            for q in self.prog.variants(TQ):
                rs = self.eng.summary(fs[0], (tf.Tag(TQ, q),))
                tags = {tf.deref(x)[2] for x in rs if tf.deref(x)[0] == "tag"}
                if len(tags) != 1:
                    raise CheckError("allocate_built_in(%s) -> %s" % (q, tags))
                out[q] = tags.pop()
            self._q2tag = out
        return self._q2tag

    # ------------------------------------------------------------ dispatch tables
    def generator_operator_table(self):
        """(fn, {Operator variant: Instruction variant pushed in that arm})."""
        prog = self.prog
        fn = prog.method("InstructionGenerator", "generate_expression_instructions_optionally_by_ref")
        return fn, self._op_arms(fn, OP)

    def generator_unary_table(self):
        fn = self.prog.method("InstructionGenerator", "generate_expression_instructions_optionally_by_ref")
        return fn, self._op_arms(fn, UOP)

    def case_is_table(self):
        fn = self.prog.method("InstructionGenerator", "generate_case_expr_is")
        return fn, self._op_arms(fn, OP)

    def _op_arms(self, fn, adt):
        sws = [s for s in mir.enum_switches(self.prog, fn.body) if s.adt == adt]
        if not sws:
            raise CheckError("%s: no match over %s" % (fn.name, adt))
        sw = max(sws, key=lambda s: len(s.arms))
        evs = emit.events(self.prog, fn)
        out = {}
        for v, tgt in sw.arms.items():
            region = mir.arm_region(fn.body, sw.bb, tgt)
            pushed = [evs[b].instr for b in sorted(region) if b in evs and evs[b].kind == "push"]
            out[v] = pushed
        return out

    def handler_table(self):
        """Instruction variant -> list of handler fn (callees in rusty_basic::interpreter::handlers)."""
        prog = self.prog
        one = prog.method("Interpreter", "interpret_one")
        sws = [s for s in mir.enum_switches(prog, one.body) if s.adt.endswith("::Instruction")]
        sw = max(sws, key=lambda s: len(s.arms))
        out = {}
        for v, tgt in sw.arms.items():
            region = mir.arm_region(one.body, sw.bb, tgt)
            hs = []
            for _b, t in mir.region_calls(one.body, region):
                c = prog.fns.get(mir.callee_of(t))
                if c is not None and "::interpreter::handlers::" in c.id:
                    hs.append(c)
            out[v] = hs
        return one, out

    def variant_method_of_handler(self, handler):
        """Names of rusty_variant Variant methods the handler (or its closures) applies."""
        prog = self.prog
        out = []
        for f in [handler] + prog.closures_of(handler):
            for _b, t in f.body.calls():
                c = mir.callee_of(t) or ""
                if c.startswith("rusty_variant::variant::") and "::{impl#" in c:
                    out.append(c.split("::")[-1])
        return out

    def ordering_set(self, fn):
        """For a comparison handler / folder closure: set of Ordering values its predicate accepts."""
        prog = self.prog
        res = {}
        for c in prog.closures_of(fn):
            # closure taking an Ordering
            if not any("std::cmp::Ordering" in l["ty"] for l in c.body.locals[1:c.argc + 1]):
                continue
            acc = set()
            for o in ("Less", "Equal", "Greater"):
                rs = self.eng.call_value(("closure", c.id, ()), [tf.Tag(ORDERING, o)])
                vals = {tf.shape(x) for x in rs}
                if vals == {"1"}:
                    acc.add(o)
                elif vals != {"0"}:
                    acc.add("?" + o)
            res[c.id] = acc
        return res

    # ------------------------------------------------------------ abstract outcomes
    def vm(self, handler, ltag, rtag):
        """(sorted result tags, sorted error variants) of the VM handler for operand tags."""
        self.A[0] = tf.Tag(VARIANT, ltag, [tf.TOP])
        self.A[1] = tf.Tag(VARIANT, rtag, [tf.TOP]) if rtag else tf.TOP
        del self.recorded[:]
        self.eng.memo = {k: v for k, v in self.eng.memo.items() if not k[0].startswith("rusty_basic::")}
        rs = self.eng.summary(handler, (tf.TOP,))
        errs = set()
        for x in rs:
            x = tf.deref(x)
            if x[0] == "tag" and x[2] == "Err":
                e = tf.deref(x[3][0]) if x[3] else tf.TOP
                errs.add(tf.shape(e, 1) if e[0] == "tag" else "?")
            elif not (x[0] == "tag" and x[2] == "Ok"):
                errs.add("?")
        tags = set()
        for v in self.recorded:
            v = tf.deref(v)
            tags.add(v[2] if v[0] == "tag" else "?")
        return sorted(tags), sorted(errs)

    def static_type(self, op, lq, rq):
        # the checker's operator typing, found by what it is: the function of the checker that takes two type qualifiers
        # and an operator and answers with an optional qualifier (cast_binary_op_q today)
        fs = getattr(self, "_static_fn", None)
        if fs is None:
            fs = [f for f in self.prog.fns.values() if f.crate == "rusty_linter" and f.kind == "fn" and f.argc == 3
                  and "Option<" in f.body.locals[0]["ty"] and "TypeQualifier" in f.body.locals[0]["ty"]
                  and sorted(l["ty"].split("::")[-1] for l in f.body.locals[1:4]) == ["Operator", "TypeQualifier", "TypeQualifier"]]
            self._static_fn = fs
        if len(fs) != 1:
            raise CheckError("anchor: the checker's typing of a binary operator on two qualifiers (%d candidates)" % len(fs))
        rs = self.eng.summary(fs[0], (tf.Tag(TQ, lq), tf.Tag(TQ, rq), tf.Tag(OP, op)))
        out = set()
        for x in rs:
            x = tf.deref(x)
            if x[0] == "tag" and x[2] == "Some":
                inner = tf.deref(x[3][0])
                out.add(inner[2] if inner[0] == "tag" else "?")
            elif x[0] == "tag" and x[2] == "None":
                out.add(None)
            else:
                out.add("?")
        return fs[0], out

    def folder_fn(self):
        fs = [f for f in self.prog.fns.values()
              if f.name == "eval_const" and f.impl
              and "ConstEvaluator<rusty_common::Positioned<rusty_parser::Expression>>" in (f.impl.get("trait_ref") or "")]
        if len(fs) != 1:
            raise CheckError("anchor ConstEvaluator<ExpressionPos>::eval_const: %d" % len(fs))
        return fs[0]

    LIT = {"VSingle": "SingleLiteral", "VDouble": "DoubleLiteral", "VString": "StringLiteral",
           "VInteger": "IntegerLiteral", "VLong": "LongLiteral"}

    def folder(self, op, ltag, rtag, unary=False):
        """(result tags, error variants) of the constant folder."""
        fn = self.folder_fn()
        self._fold_fn = fn
        try:
            eng = self.eng
            lit = lambda tag: eng.make(POS, "Positioned", {0: eng.make(EXPR, self.LIT[tag])})
            if unary:
                e = eng.make(EXPR, "UnaryExpression", {0: tf.Tag(UOP, op), 1: lit(ltag)})
            else:
                e = eng.make(EXPR, "BinaryExpression", {0: tf.Tag(OP, op), 1: lit(ltag), 2: lit(rtag)})
            item = eng.make(POS, "Positioned", {0: e})
            rs = eng.summary(fn, (tf.TOP, tf.Ref(item)))
        finally:
            self._fold_fn = None
        tags, errs = set(), set()
        for x in rs:
            x = tf.deref(x)
            if x[0] == "tag" and x[2] == "Ok":
                v = tf.deref(x[3][0]) if x[3] else tf.TOP
                tags.add(v[2] if v[0] == "tag" else "?")
            elif x[0] == "tag" and x[2] == "Err":
                e = tf.deref(x[3][0]) if x[3] else tf.TOP
                # LintErrorPos = Positioned<LintError>
                if e[0] == "tag" and e[3]:
                    inner = tf.deref(e[3][0])
                    errs.add(inner[2] if inner[0] == "tag" else "?")
                else:
                    errs.add("?")
            else:
                tags.add("?")
        return sorted(tags), sorted(errs)
