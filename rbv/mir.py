"""Program model over mirfacts JSON + analysis primitives P1-P5 (DESIGN.md section 3)."""
import re
from collections import defaultdict


def place_local(p):
    return p[0]


def place_proj(p):
    return p[1]


def op_place(op):
    """Place read by a copy/move operand, else None."""
    if "c" in op:
        return op["c"]
    if "m" in op:
        return op["m"]
    return None


def op_const(op):
    return op.get("k")


def proj_str(proj):
    out = []
    for e in proj:
        if e == "*":
            out.append("*")
        elif isinstance(e, str):
            out.append(e)
        elif "f" in e:
            out.append("." + str(e.get("n", e["f"])))
        elif "d" in e:
            out.append(" as " + e["d"])
        elif "i" in e:
            out.append("[_%d]" % e["i"])
        elif "ci" in e:
            out.append("[%d]" % e["ci"])
    return "".join(out)


class Body:
    """One MIR body (function, closure, const, or a promoted)."""

    def __init__(self, fn, raw):
        self.fn = fn
        self.locals = raw["locals"]
        self.blocks = raw["blocks"]
        self.vars = raw.get("vars", [])
        self._defs = None
        self._dom = None
        self._pdom = None
        self._preds = None
        self.nblocks = len(self.blocks)

    # ---------------------------------------------------------------- CFG (P1)
    def is_cleanup(self, b):
        return bool(self.blocks[b].get("c"))

    def term(self, b):
        return self.blocks[b]["t"]

    def succ(self, b):
        """Normal (non-unwind) successors."""
        t = self.blocks[b]["t"]
        k = t["k"]
        if k == "goto":
            return [t["t"]]
        if k == "switch":
            out = [x[1] for x in t["ts"]]
            eb = self.blocks[t["else"]]
            if not (eb["t"]["k"] == "unreachable" and not eb["s"]):
                out.append(t["else"])
            seen = []
            for x in out:
                if x not in seen:
                    seen.append(x)
            return seen
        if k in ("call", "drop", "assert"):
            return [t["t"]] if t.get("t") is not None else []
        return []

    def preds(self):
        if self._preds is None:
            p = defaultdict(list)
            for b in range(self.nblocks):
                if self.is_cleanup(b):
                    continue
                for s in self.succ(b):
                    p[s].append(b)
            self._preds = p
        return self._preds

    def reachable(self, start=0, avoid=()):
        seen = set()
        st = [start]
        avoid = set(avoid)
        while st:
            b = st.pop()
            if b in seen or b in avoid:
                continue
            seen.add(b)
            st.extend(self.succ(b))
        return seen

    def rpo(self):
        seen = set()
        order = []

        def dfs(b):
            stack = [(b, iter(self.succ(b)))]
            seen.add(b)
            while stack:
                n, it = stack[-1]
                adv = False
                for s in it:
                    if s not in seen:
                        seen.add(s)
                        stack.append((s, iter(self.succ(s))))
                        adv = True
                        break
                if not adv:
                    order.append(n)
                    stack.pop()
        dfs(0)
        order.reverse()
        return order

    def dominators(self):
        """idom map (Cooper-Harvey-Kennedy)."""
        if self._dom is not None:
            return self._dom
        order = self.rpo()
        idx = {b: i for i, b in enumerate(order)}
        preds = self.preds()
        idom = {0: 0}
        changed = True
        while changed:
            changed = False
            for b in order[1:]:
                ps = [p for p in preds[b] if p in idom]
                if not ps:
                    continue
                new = ps[0]
                for p in ps[1:]:
                    a, c = p, new
                    while a != c:
                        while idx[a] > idx[c]:
                            a = idom[a]
                        while idx[c] > idx[a]:
                            c = idom[c]
                    new = a
                if idom.get(b) != new:
                    idom[b] = new
                    changed = True
        self._dom = idom
        return idom

    def dominates(self, a, b):
        idom = self.dominators()
        if b not in idom or a not in idom:
            return False
        while True:
            if a == b:
                return True
            if b == 0:
                return False
            b = idom[b]

    def exits(self):
        return [b for b in self.reachable() if self.term(b)["k"] == "return"]

    def every_path_passes(self, src, dst_set, through):
        """True iff every CFG path from block `src` to any block in dst_set visits a block in
        `through` (src itself counts; dst counts too)."""
        through = set(through)
        if src in through:
            return True
        seen = set()
        st = [src]
        dst_set = set(dst_set)
        while st:
            b = st.pop()
            if b in seen:
                continue
            seen.add(b)
            if b in through:
                continue
            if b in dst_set:
                return False
            st.extend(self.succ(b))
        return True

    # ---------------------------------------------------------- definitions
    def defs(self):
        """local -> list of (bb, stmt_index | 'T', rvalue-or-call)"""
        if self._defs is None:
            d = defaultdict(list)
            for b, blk in enumerate(self.blocks):
                for i, s in enumerate(blk["s"]):
                    if s["k"] == "assign":
                        d[s["p"][0]].append((b, i, s))
                t = blk["t"]
                if t["k"] == "call":
                    d[t["d"][0]].append((b, "T", t))
            self._defs = d
        return self._defs

    def single_def(self, local, whole=True):
        """The unique definition of `local` as a whole (no projection), else None."""
        ds = self.defs().get(local, [])
        ds = [x for x in ds if not self.is_cleanup(x[0])]
        if len(ds) != 1:
            return None
        b, i, s = ds[0]
        place = s["p"] if i != "T" else s["d"]
        if whole and place[1]:
            return None
        return ds[0]

    def calls(self, include_cleanup=False):
        for b, blk in enumerate(self.blocks):
            if blk.get("c") and not include_cleanup:
                continue
            t = blk["t"]
            if t["k"] == "call":
                yield b, t

    def var_name(self, local):
        for v in self.vars:
            if v["place"][0] == local and not v["place"][1]:
                return v["name"]
        return None

    def local_of_var(self, name):
        for v in self.vars:
            if v["name"] == name and not v["place"][1]:
                return v["place"][0]
        return None


def callee_of(t):
    """Effective callee id of a call terminator: the resolved instance when rustc resolved it."""
    return t.get("res") or t.get("callee")


def callee_path(t):
    return t.get("rpath") or t.get("cpath") or ""


class Fn:
    def __init__(self, raw, crate):
        self.raw = raw
        self.crate = crate
        self.id = raw["id"]
        self.path = raw["path"]
        self.kind = raw["kind"]
        self.parent = raw.get("parent")
        self.file = raw.get("file")
        self.line = raw.get("line")
        self.end_line = raw.get("end_line")
        self.argc = raw.get("argc", 0)
        self.trait_item = raw.get("trait_item")
        self.body = Body(self, raw["body"])
        self.promoted = [Body(self, p) for p in raw.get("promoted", [])]
        self.name = self.id.split("::")[-1]
        self.impl = None          # impl record when this is an associated fn in an impl
        self.self_ty = None

    @property
    def loc(self):
        return "%s:%s" % (self.file, self.line)

    def __repr__(self):
        return "<Fn %s>" % self.path


class Program:
    def __init__(self, crates):
        self.crates = crates
        self.fns = {}
        self.by_path = defaultdict(list)
        self.adts = {}
        self.traits = {}
        self.impls = {}
        self.children = defaultdict(list)   # parent id -> closures
        for cname, c in crates.items():
            for f in c["functions"]:
                fn = Fn(f, cname)
                self.fns[fn.id] = fn
                self.by_path[fn.path].append(fn)
            for a in c["adts"]:
                if a is None:
                    continue
                if a["id"] not in self.adts or a.get("local"):
                    self.adts[a["id"]] = a
            for t in c["traits"]:
                self.traits[t["id"]] = t
            for i in c["impls"]:
                self.impls[i["id"]] = i
        for fn in self.fns.values():
            if fn.kind == "closure":
                self.children[fn.parent].append(fn)
            imp = self.impls.get(fn.parent)
            if imp is not None:
                fn.impl = imp
                fn.self_ty = imp["self_ty"]
        self._callers = None

    def method(self, type_name, name, trait=None):
        """Unique associated fn `name` in an impl whose self type's last path segment (generics
        stripped) is type_name; `trait` optionally restricts to impls of a trait (path suffix)."""
        out = []
        for fn in self.fns.values():
            if fn.name != name or fn.impl is None:
                continue
            st = re.sub(r"<.*", "", fn.self_ty).split("::")[-1]
            if st != type_name:
                continue
            if trait is not None:
                tr = fn.impl.get("trait_ref") or ""
                if trait not in tr:
                    continue
            out.append(fn)
        if len(out) != 1:
            raise KeyError("anchor %s::%s: %d matches" % (type_name, name, len(out)))
        return out[0]

    def methods_of(self, type_name):
        out = []
        for fn in self.fns.values():
            if fn.impl is None:
                continue
            st = re.sub(r"<.*", "", fn.self_ty).split("::")[-1]
            if st == type_name:
                out.append(fn)
        return out

    def enclosing_fn(self, fn):
        while fn is not None and fn.kind == "closure":
            fn = self.fns.get(fn.parent)
        return fn

    # ------------------------------------------------------------ lookups
    def fn(self, path):
        """Unique function with this pretty path (fail closed)."""
        fs = self.by_path.get(path, [])
        if len(fs) != 1:
            raise KeyError("anchor %s: %d matches" % (path, len(fs)))
        return fs[0]

    def fn_opt(self, path):
        fs = self.by_path.get(path, [])
        return fs[0] if len(fs) == 1 else None

    def fns_matching(self, regex, crate=None):
        r = re.compile(regex)
        return [f for f in self.fns.values()
                if r.search(f.path) and (crate is None or f.crate == crate)]

    def closures_of(self, fn, deep=True):
        out = []
        st = [fn.id]
        while st:
            p = st.pop()
            for c in self.children.get(p, []):
                out.append(c)
                if deep:
                    st.append(c.id)
        return out

    def adt(self, id_or_path):
        if id_or_path in self.adts:
            return self.adts[id_or_path]
        for a in self.adts.values():
            if a["path"] == id_or_path:
                return a
        raise KeyError("adt " + id_or_path)

    def variants(self, adt_id):
        return [v["name"] for v in self.adt(adt_id)["variants"]]

    def impls_of_trait(self, trait_id):
        return [i for i in self.impls.values() if i.get("trait") == trait_id]

    def trait_by_path(self, path):
        for t in self.traits.values():
            if t["path"] == path:
                return t
        raise KeyError("trait " + path)

    def effective_method(self, impl, trait, name):
        """Function id that runs for trait method `name` on implementor `impl`."""
        for it in impl["items"]:
            if it["name"] == name:
                return it["id"]
        for it in trait["items"]:
            if it["name"] == name and it["has_default"]:
                return it["id"]
        return None

    # ------------------------------------------------------------ call graph (P5)
    def call_edges(self, fn):
        """Callee ids of fn: direct calls, resolved trait calls, over-approximated unresolved
        trait calls (all workspace impls), fn items / closures passed as arguments."""
        out = set()
        body = fn.body
        for bodies in [body] + fn.promoted:
            for b, t in bodies.calls():
                c = callee_of(t)
                if c:
                    out.add(c)
                    if c in self._trait_items() and not t.get("res"):
                        for impl_fn in self._trait_items()[c]:
                            out.add(impl_fn)
                for a in t["args"]:
                    k = a.get("k")
                    if k and k.get("fn"):
                        out.add(k["fn"])
            for blk in bodies.blocks:
                for s in blk["s"]:
                    if s["k"] != "assign":
                        continue
                    r = s["r"]
                    if r["k"] == "agg" and r.get("a") == "closure":
                        out.add(r["def"])
                    if r["k"] in ("use", "cast"):
                        k = r["o"].get("k")
                        if k and k.get("fn"):
                            out.add(k["fn"])
        return out

    def _trait_items(self):
        if not hasattr(self, "_ti"):
            ti = defaultdict(set)
            for fn in self.fns.values():
                if fn.trait_item:
                    ti[fn.trait_item].add(fn.id)
            self._ti = ti
        return self._ti

    def reachable_from(self, roots):
        seen = set()
        st = [r.id if isinstance(r, Fn) else r for r in roots]
        while st:
            f = st.pop()
            if f in seen:
                continue
            seen.add(f)
            fn = self.fns.get(f)
            if fn is None:
                continue
            st.extend(self.call_edges(fn))
        return seen

    def callers(self):
        if self._callers is None:
            c = defaultdict(set)
            for fn in self.fns.values():
                for e in self.call_edges(fn):
                    c[e].add(fn.id)
            self._callers = c
        return self._callers


# ------------------------------------------------------------------ provenance (P2)

PASS_THROUGH = (
    "core::ops::deref::Deref::deref", "core::ops::deref::DerefMut::deref_mut",
    "core::convert::AsRef::as_ref", "core::convert::AsMut::as_mut",
    "core::borrow::Borrow::borrow", "core::borrow::BorrowMut::borrow_mut",
    "core::convert::Into::into", "core::convert::From::from",
)


def _is_pass_through(t):
    p = t.get("cpath", "")
    if p in ("std::ops::Deref::deref", "std::ops::DerefMut::deref_mut",
             "std::convert::AsRef::as_ref", "std::convert::AsMut::as_mut",
             "std::borrow::Borrow::borrow", "std::borrow::BorrowMut::borrow_mut"):
        return True
    if re.match(r"std::boxed::Box::<T(, A)?>::(as_ref|as_mut)$", p):
        return True
    if re.match(r"std::option::Option::<T>::(as_ref|as_mut|as_deref)$", p):
        return True
    if re.match(r"std::(string::String|vec::Vec::<T(, A)?>)::(as_str|as_slice|as_mut_slice)$", p):
        return True
    return False


def _is_clone(t):
    p = t.get("cpath", "")
    return p in ("std::clone::Clone::clone", "std::borrow::ToOwned::to_owned")


class Origin(tuple):
    """('param', i) | ('field', base, name) | ('downcast', base, variant) | ('deref', base)
    | ('ref', base) | ('call', callee_path, (args...), bb) | ('const', text) | ('fn', id)
    | ('agg', kind, name, (ops...)) | ('clone', base) | ('index', base) | ('local', n)
    | ('cast', base) | ('bin', op, a, b) | ('un', op, a) | ('discr', base) | ('unknown', why)"""

    def kind(self):
        return self[0]

    def __str__(self):
        return show_origin(self)


def show_origin(o):
    k = o[0]
    if k == "param":
        return "arg%d" % o[1]
    if k == "field":
        return "%s.%s" % (show_origin(o[1]), o[2])
    if k == "downcast":
        return "(%s as %s)" % (show_origin(o[1]), o[2])
    if k == "deref":
        return "*" + show_origin(o[1])
    if k == "ref":
        return "&" + show_origin(o[1])
    if k == "call":
        return "%s(%s)" % (o[1].split("::")[-1] if o[1] else "?", ", ".join(show_origin(a) for a in o[2]))
    if k == "const":
        return o[1]
    if k == "fn":
        return "fn:" + o[1]
    if k == "agg":
        return "%s{%s}" % (o[2] or o[1], ", ".join(show_origin(a) for a in o[3]))
    if k == "clone":
        return "clone(%s)" % show_origin(o[1])
    if k == "index":
        return show_origin(o[1]) + "[..]"
    if k == "cast":
        return "cast(%s)" % show_origin(o[1])
    if k == "bin":
        return "(%s %s %s)" % (show_origin(o[2]), o[1], show_origin(o[3]))
    if k == "un":
        return "%s(%s)" % (o[1], show_origin(o[2]))
    if k == "discr":
        return "discr(%s)" % show_origin(o[1])
    if k == "local":
        return "_%d" % o[1]
    return "?" + str(o[1] if len(o) > 1 else "")


def strip_refs(o):
    """Remove ref/deref/clone-less wrappers: the underlying storage origin."""
    while o[0] in ("ref", "deref"):
        o = o[1]
    return o


def strip_all(o):
    while o[0] in ("ref", "deref", "clone", "cast"):
        o = o[1]
    return o


class Prov:
    """Backward value provenance inside one body."""

    def __init__(self, body, max_depth=40):
        self.body = body
        self.max_depth = max_depth
        self.memo = {}

    def of_operand(self, op, depth=0):
        p = op_place(op)
        if p is not None:
            return self.of_place(p, depth)
        k = op.get("k")
        if k is not None:
            if k.get("fn"):
                return Origin(("fn", k["fn"]))
            if "promoted" in k:
                return Origin(("promoted", k["promoted"]))
            return Origin(("const", k.get("s", "?")))
        return Origin(("unknown", "operand"))

    def of_place(self, place, depth=0):
        local, proj = place
        base = self.of_local(local, depth)
        for e in proj:
            if e == "*":
                if base[0] == "ref":
                    base = base[1]
                else:
                    base = Origin(("deref", base))
            elif isinstance(e, str):
                base = Origin(("index", base))
            elif "f" in e:
                name = e.get("n", str(e["f"]))
                # field of a locally built aggregate: take the operand
                if base[0] == "agg" and base[1] in ("tuple", "adt", "closure") and e["f"] < len(base[3]) \
                        and base[1] != "closure":
                    base = base[3][e["f"]]
                elif "a" in e:
                    base = Origin(("field", base, name, e["a"], e.get("v")))
                else:
                    base = Origin(("field", base, name))
            elif "d" in e:
                base = Origin(("downcast", base, e["d"]))
            elif "i" in e or "ci" in e:
                base = Origin(("index", base))
        return base

    def of_local(self, local, depth=0):
        if local in self.memo:
            return self.memo[local]
        if depth > self.max_depth:
            return Origin(("unknown", "depth"))
        body = self.body
        argc = body.fn.argc if body in [body.fn.body] else 0
        if 1 <= local <= argc:
            ds = [x for x in body.defs().get(local, []) if not body.is_cleanup(x[0])
                  and not (x[2]["p"] if x[1] != "T" else x[2]["d"])[1]]
            if not ds:
                r = Origin(("param", local - 1))
                self.memo[local] = r
                return r
        self.memo[local] = Origin(("local", local))  # cycle guard
        d = body.single_def(local)
        if d is None:
            r = Origin(("local", local))
            self.memo[local] = r
            return r
        b, i, s = d
        if i == "T":
            r = self._of_call(s, b, depth)
        else:
            r = self._of_rvalue(s["r"], depth)
        self.memo[local] = r
        return r

    def _of_call(self, t, b, depth):
        if _is_pass_through(t) and t["args"]:
            inner = self.of_operand(t["args"][0], depth + 1)
            return inner
        if _is_clone(t) and t["args"]:
            inner = self.of_operand(t["args"][0], depth + 1)
            if inner[0] == "ref":
                inner = inner[1]
            return Origin(("clone", inner))
        args = tuple(self.of_operand(a, depth + 1) for a in t["args"])
        return Origin(("call", callee_path(t), args, b))

    def _of_rvalue(self, r, depth):
        k = r["k"]
        if k == "use":
            return self.of_operand(r["o"], depth + 1)
        if k in ("ref", "rawptr"):
            return Origin(("ref", self.of_place(r["p"], depth + 1)))
        if k == "copyderef":
            return self.of_place(r["p"], depth + 1)
        if k == "cast":
            inner = self.of_operand(r["o"], depth + 1)
            if r["ck"].startswith("PointerCoercion") or r["ck"] in ("Transmute", "PtrToPtr"):
                return inner
            return Origin(("cast", inner))
        if k == "discr":
            return Origin(("discr", self.of_place(r["p"], depth + 1)))
        if k == "bin":
            return Origin(("bin", r["op"], self.of_operand(r["a"], depth + 1),
                           self.of_operand(r["b"], depth + 1)))
        if k == "un":
            return Origin(("un", r["op"], self.of_operand(r["o"], depth + 1)))
        if k == "agg":
            ops = tuple(self.of_operand(o, depth + 1) for o in r["ops"])
            if r["a"] == "adt":
                return Origin(("agg", "adt", r["adt"].split("::")[-1] + "::" + r["variant"], ops))
            if r["a"] == "closure":
                return Origin(("agg", "closure", r["def"], ops))
            return Origin(("agg", r["a"], None, ops))
        return Origin(("unknown", k))


def origin_mentions(o, pred):
    """Does any sub-origin satisfy pred?"""
    if pred(o):
        return True
    for x in o[1:]:
        if isinstance(x, Origin):
            if origin_mentions(x, pred):
                return True
        elif isinstance(x, tuple):
            for y in x:
                if isinstance(y, Origin) and origin_mentions(y, pred):
                    return True
    return False


# ------------------------------------------------------------------ arm tables (P3)

class Switch:
    def __init__(self, bb, adt, place, arms, otherwise, discr_local):
        self.bb = bb
        self.adt = adt
        self.place = place            # discriminated place
        self.arms = arms              # variant name -> target bb
        self.otherwise = otherwise    # bb or None when unreachable
        self.discr_local = discr_local

    def wildcard_variants(self, prog):
        names = prog.variants(self.adt)
        return [n for n in names if n not in self.arms]


def block_is_unreachable(body, b):
    blk = body.blocks[b]
    return blk["t"]["k"] == "unreachable" and not blk["s"]


def enum_switches(prog, body, adt_id=None):
    """All SwitchInt terminators in body that branch on the discriminant of an enum."""
    out = []
    for b, blk in enumerate(body.blocks):
        if blk.get("c"):
            continue
        t = blk["t"]
        if t["k"] != "switch":
            continue
        p = op_place(t["o"])
        if p is None or p[1]:
            continue
        # find discr def in this block (or single def)
        rv = None
        for s in reversed(blk["s"]):
            if s["k"] == "assign" and s["p"][0] == p[0] and not s["p"][1]:
                rv = s["r"]
                break
        if rv is None:
            d = body.single_def(p[0])
            if d and d[1] != "T":
                rv = d[2]["r"]
        if rv is None or rv["k"] != "discr":
            continue
        adt = rv.get("adt")
        if adt is None or (adt_id is not None and adt != adt_id):
            continue
        try:
            a = prog.adt(adt)
        except KeyError:
            continue
        by_discr = {}
        for v in a["variants"]:
            by_discr[v.get("discr", v["idx"])] = v["name"]
        arms = {}
        for val, tgt in t["ts"]:
            # discriminants are stored as i128 of the raw bits; normalise negatives
            name = by_discr.get(val)
            if name is None:
                for dv, n in by_discr.items():
                    if (dv - val) % (1 << 64) == 0 or (dv - val) % (1 << 128) == 0:
                        name = n
            if name is not None:
                arms[name] = tgt
        other = t["else"]
        if block_is_unreachable(body, other):
            other = None
        out.append(Switch(b, adt, rv["p"], arms, other, p[0]))
    return out


def postdominators(body):
    """ipdom over non-cleanup blocks with a virtual exit (-1)."""
    if body._pdom is not None:
        return body._pdom
    nodes = sorted(body.reachable())
    succ = {}
    for b in nodes:
        s = body.succ(b)
        succ[b] = s if s else [-1]
    pred = defaultdict(list)
    for b, ss in succ.items():
        for s in ss:
            pred[s].append(b)
    # reverse post-order on reversed graph from -1
    seen = set()
    order = []
    stack = [(-1, iter(pred[-1]))]
    seen.add(-1)
    while stack:
        n, it = stack[-1]
        adv = False
        for s in it:
            if s not in seen:
                seen.add(s)
                stack.append((s, iter(pred[s])))
                adv = True
                break
        if not adv:
            order.append(n)
            stack.pop()
    order.reverse()
    idx = {b: i for i, b in enumerate(order)}
    ipdom = {-1: -1}
    changed = True
    while changed:
        changed = False
        for b in order[1:]:
            ps = [p for p in succ.get(b, []) if p in ipdom]
            if not ps:
                continue
            new = ps[0]
            for p in ps[1:]:
                a, c = p, new
                while a != c:
                    while idx[a] > idx[c]:
                        a = ipdom[a]
                    while idx[c] > idx[a]:
                        c = ipdom[c]
                new = a
            if ipdom.get(b) != new:
                ipdom[b] = new
                changed = True
    body._pdom = ipdom
    return ipdom


def arm_region(body, sw_bb, target):
    """Blocks executed in the arm starting at `target` of the switch at sw_bb: reachable from
    target without passing the switch's immediate post-dominator."""
    ipdom = postdominators(body)
    join = ipdom.get(sw_bb, -1)
    # all post-dominators of the switch are outside the arm
    stop = set()
    j = join
    while j != -1 and j not in stop:
        stop.add(j)
        j = ipdom.get(j, -1)
    r = body.reachable(target, avoid=stop)
    return {b for b in r if body.dominates(target, b)}


def short_origin(o):
    """A compact, line-independent name for an origin: parameter/field chain with calls looked
    through (first argument) and element access shown as []."""
    k = o[0]
    if k == "param":
        return "arg%d" % o[1]
    if k == "field":
        return "%s.%s" % (short_origin(o[1]), o[2])
    if k in ("downcast", "deref", "ref", "clone", "cast", "discr"):
        return short_origin(o[1])
    if k == "index":
        return short_origin(o[1]) + "[]"
    if k == "call":
        name = o[1].split("::")[-1] if o[1] else "?"
        if not o[2]:
            return name + "()"
        inner = short_origin(o[2][0])
        if name in ("next", "index", "index_mut", "get", "get_mut", "first", "last", "unwrap",
                    "expect"):
            return inner + ("[]" if name in ("next", "index", "index_mut", "get", "get_mut") else "")
        if name in ("into_iter", "iter", "iter_mut", "enumerate", "into", "from", "rev", "zip",
                    "as_ref", "as_mut", "deref", "to_owned", "clone", "element", "at", "at_pos"):
            return inner
        return "%s(%s)" % (name, inner)
    if k == "const":
        return o[1]
    if k == "agg":
        return (o[2] or o[1]) + "{..}"
    if k == "local":
        return "_%d" % o[1]
    if k == "fn":
        return o[1].split("::")[-1]
    if k == "bin":
        return "(%s %s %s)" % (short_origin(o[2]), o[1], short_origin(o[3]))
    if k == "un":
        return "%s %s" % (o[1], short_origin(o[2]))
    return "?"


def region_calls(body, region):
    out = []
    for b in sorted(region):
        t = body.blocks[b]["t"]
        if t["k"] == "call":
            out.append((b, t))
    return out


def region_aggregates(body, region):
    out = []
    for b in sorted(region):
        for s in body.blocks[b]["s"]:
            if s["k"] == "assign" and s["r"]["k"] == "agg":
                out.append((b, s))
    return out


# ------------------------------------------------------------------ panics

PANIC_CALLEES = re.compile(
    r"^(core::panicking::|std::rt::(begin_panic|panic_fmt)|core::option::unwrap_failed|"
    r"core::option::expect_failed|core::result::unwrap_failed)")


def is_panic_call(t):
    c = t.get("callee") or ""
    return bool(PANIC_CALLEES.match(c)) or t.get("t") is None and "panic" in c


def panic_message(body, t):
    """Best-effort literal message of a panic call."""
    for a in t["args"]:
        k = a.get("k")
        if k and k.get("ty", "").startswith("&") and k.get("s", "").startswith('"'):
            return k["s"]
    return None


def macro_tags(x):
    return x.get("mx", [])
