"""Check harness: obligations, floors, known findings, evidence, exit codes."""
import importlib
import json
import os
import sys
import time
import traceback

from . import facts, mir

VERIF = facts.VERIF
EVIDENCE_DIR = os.environ.get("RBV_EVIDENCE_DIR") or os.path.join(VERIF, "evidence")
VIOL_DIR = os.path.join(EVIDENCE_DIR, "violations")
KNOWN = os.path.join(VERIF, "known_findings.json")


class CheckError(Exception):
    """Fail closed: the analysis could not be carried out (missing anchor, floor not met)."""


class Ob:
    __slots__ = ("rule", "key", "loc", "verdict", "detail", "construct")

    def __init__(self, rule, key, loc, verdict, detail="", construct=None):
        self.rule = rule
        self.key = key
        self.loc = loc
        self.verdict = verdict
        self.detail = detail
        self.construct = construct or {}

    def to_json(self):
        return {"rule": self.rule, "key": self.key, "loc": self.loc, "verdict": self.verdict,
                "detail": self.detail, "construct": self.construct}


class Ctx:
    def __init__(self, prop, prog, tier="quick", fixtures=None):
        self.prop = prop
        self.prog = prog
        self.tier = tier
        self.fixtures = fixtures
        self.obs = []
        self.analysed = {}       # rule -> description of what was analysed
        self.not_decided = []    # clauses stated as not decided
        self.notes = []
        self.selftests = []      # (rule, name, fired: bool)
        self.floor_errors = []   # floors not met (fail closed at the end unless a violation was decided)

    # -- recording
    def ok(self, rule, key, loc, detail=""):
        self.obs.append(Ob(rule, key, loc, "ok", detail))

    def violation(self, rule, key, loc, detail="", construct=None):
        self.obs.append(Ob(rule, key, loc, "violation", detail, construct))

    def unknown(self, rule, key, loc, detail=""):
        self.obs.append(Ob(rule, key, loc, "unknown", detail))

    def decide(self, cond, rule, key, loc, detail_ok="", detail_bad="", construct=None):
        if cond:
            self.ok(rule, key, loc, detail_ok)
        else:
            self.violation(rule, key, loc, detail_bad or detail_ok, construct)
        return cond

    def analysed_units(self, rule, **kw):
        self.analysed.setdefault(rule, {}).update(kw)

    def count(self, rule, verdicts=("ok", "violation")):
        return sum(1 for o in self.obs if o.rule == rule and o.verdict in verdicts)

    def require(self, rule, min_decided, max_unknown=0):
        """Floor on instances decided; bound on unknowns (fail closed otherwise)."""
        n = self.count(rule)
        u = self.count(rule, ("unknown",))
        # min_decided is the number of instances counted on the pinned tree.  Merging three call
        # sites into one helper, or inlining one, changes that number without changing behaviour, so
        # the floor that is enforced leaves room for it (60 % for counts above 3); its purpose is to
        # notice a rule that has gone blind, not to freeze the number of sites.
        if min_decided > 3:
            min_decided = max(3, int(min_decided * 0.6))
        # a floor that is not met does not stop the other rules: a change that breaks a property often
        # also removes instances (the guard that is gone was one).  The check fails closed at the end
        # (exit 2) unless a rule has decided a violation, which is then what is reported (exit 1)
        if n < min_decided:
            self.floor_errors.append("rule %s decided only %d instances (floor %d): anchors moved or "
                                     "an idiom is no longer recognised" % (rule, n, min_decided))
        if u > max_unknown:
            us = [o.key for o in self.obs if o.rule == rule and o.verdict == "unknown"]
            self.floor_errors.append("rule %s: %d unknown instances (max %d): %s" %
                                     (rule, u, max_unknown, ", ".join(us[:8])))

    def anchor(self, path):
        try:
            return self.prog.fn(path)
        except KeyError as e:
            raise CheckError("missing anchor function %s" % e)

    def selftest(self, rule, name, fired):
        self.selftests.append((rule, name, bool(fired)))
        if not fired:
            raise CheckError("self-test: rule %s did not fire on its violating fixture %s"
                             % (rule, name))


def load_known():
    if not os.path.exists(KNOWN):
        return {"findings": [], "fixed": []}
    with open(KNOWN) as fh:
        return json.load(fh)


def run_check(prop, tier="quick", replay=None):
    t0 = time.time()
    seed = int(os.environ.get("VERIF_SEED", "0") or 0)
    os.makedirs(EVIDENCE_DIR, exist_ok=True)
    evidence_path = os.path.join(EVIDENCE_DIR, prop + ".json")
    mod = importlib.import_module("rbv.rules." + prop.lower())
    try:
        crates = facts.load_workspace(fresh=(tier == "thorough" and not os.environ.get("RBV_THOROUGH_USE_CACHE")))
        prog = mir.Program(crates)
        fixtures = None
        if getattr(mod, "NEEDS_FIXTURES", False):
            from . import fixtures as fx
            fixtures = fx.load()
        ctx = Ctx(prop, prog, tier, fixtures)
        mod.run(ctx)
    except (CheckError, facts.FactError) as e:
        print("CHECK-ERROR property=%s %s" % (prop, e))
        return 2
    except Exception:
        traceback.print_exc()
        print("CHECK-ERROR property=%s internal error in the analysis" % prop)
        return 2

    if os.environ.get("RBV_LIST"):
        for o in ctx.obs:
            print("  [%s] %s | %s | %s | %s" % (o.verdict, o.key, o.loc, o.rule, o.detail[:200]))
    known = load_known()
    known_keys = {}
    for k in known.get("findings", []):
        if k["property"] == prop:
            known_keys[k["key"]] = k
    viols = [o for o in ctx.obs if o.verdict == "violation"]
    if replay:
        want = json.load(open(replay))
        viols = [o for o in viols if o.key == want.get("key")]
        if not viols:
            print("replay: obligation %s now holds" % want.get("key"))
    new = []
    kf = []
    for o in viols:
        if o.key in known_keys:
            kf.append(o)
            print("KNOWN-FINDING: property=%s %s %s" % (prop, o.key, known_keys[o.key]["what_fails"]))
        else:
            new.append(o)
    if ctx.floor_errors and not new:
        for fe in ctx.floor_errors:
            print("CHECK-ERROR property=%s %s" % (prop, fe))
        return 2
    for fe in ctx.floor_errors:
        print("  note: %s (reported together with the violation below)" % fe)
    os.makedirs(VIOL_DIR, exist_ok=True)
    if not replay:
        for fn_ in os.listdir(VIOL_DIR):
            if fn_.startswith(prop + "__"):
                os.unlink(os.path.join(VIOL_DIR, fn_))
    for o in new:
        safe = "".join(c if c.isalnum() or c in "._-" else "_" for c in o.key)[:150]
        path = os.path.join(VIOL_DIR, "%s__%s.json" % (prop, safe))
        with open(path, "w") as fh:
            json.dump(dict(o.to_json(), property=prop), fh, indent=1)
        print("  %s [%s] %s: %s" % (o.loc, o.rule, o.key, o.detail))
        print("VIOLATION property=%s replay=%s" % (prop, path))

    decided = [o for o in ctx.obs if o.verdict in ("ok", "violation")]
    oks = [o for o in ctx.obs if o.verdict == "ok"]
    unknowns = [o for o in ctx.obs if o.verdict == "unknown"]
    rules = sorted({o.rule for o in ctx.obs})
    per_rule = {}
    for r in rules:
        per_rule[r] = {
            "ok": sum(1 for o in ctx.obs if o.rule == r and o.verdict == "ok"),
            "violation": sum(1 for o in ctx.obs if o.rule == r and o.verdict == "violation"),
            "unknown": sum(1 for o in ctx.obs if o.rule == r and o.verdict == "unknown"),
            "analysed": ctx.analysed.get(r, {}),
        }
    samples = []
    seen_rules = set()
    for o in ctx.obs:
        if o.rule not in seen_rules or o.verdict == "violation":
            seen_rules.add(o.rule)
            samples.append({"rule": o.rule, "key": o.key, "loc": o.loc, "verdict": o.verdict,
                            "detail": o.detail[:300]})
    samples = samples[:40]
    distinct = len({(o.rule, o.key) for o in decided})
    level = getattr(mod, "LEVEL", "other")
    ev = {
        "property_id": prop,
        "tier": tier,
        "seed": seed,
        "level": level,
        "coverage": {
            "explanation": getattr(mod, "EXPLANATION", "") or ("static rules " + ", ".join(rules)),
            "evaluations": len(ctx.obs),
            "distinct_nontrivial": distinct,
            "rule": "one evaluation per obligation (rule instance resolved on the current tree); "
                    "distinct = distinct (rule, resolved-entity key) pairs decided ok or violation",
            "samples": samples,
            "obligations": len(ctx.obs),
            "discharged": len(oks),
            "unknown": len(unknowns),
            "known_findings": [o.key for o in kf],
            "new_violations": [o.key for o in new],
            "per_rule": per_rule,
            "clauses_not_decided": ctx.not_decided + list(getattr(mod, "NOT_DECIDED", [])),
            "self_tests": [{"rule": r, "fixture": n, "fired": f} for r, n, f in ctx.selftests],
            "checker_cmd": "./check %s --tier %s" % (prop, tier),
            "trusted_base": ["rustc nightly front end + MIR construction", "mirfacts serializer",
                             "rbv rule implementation"],
            "crates_analysed": {c: len(d["functions"]) for c, d in prog.crates.items()},
            "exhaustive": False,
            "notes": ctx.notes,
        },
        "assumptions": list(getattr(mod, "ASSUMPTIONS", [])) + [
            "facts are the MIR (opt-level 0) of `cargo +nightly check --workspace` on /repo's "
            "working tree, non-test configuration"],
        "wall_s": round(time.time() - t0, 2),
        "violations": len(new),
    }
    if tier == "thorough" and not replay and not os.environ.get("RBV_NO_SELFVALIDATION"):
        ev["coverage"]["self_validation"] = self_validation(prop)
    with open(evidence_path, "w") as fh:
        json.dump(ev, fh, indent=1)
    summary = "property=%s tier=%s obligations=%d ok=%d known=%d new=%d unknown=%d (%.1fs)" % (
        prop, tier, len(ctx.obs), len(oks), len(kf), len(new), len(unknowns), time.time() - t0)
    print(("FAIL " if new else "PASS ") + summary)
    return 1 if new else 0


def self_validation(prop):
    """thorough tier: the kept breaking changes of this property (seeded/<id>/patch.diff, each confirmed to build, to
    pass the whole test suite and to change behaviour) are applied one by one to scratch copies of the tree and the
    quick check is run on each copy.  Reported in the evidence; it never changes the verdict on the tree itself."""
    import glob
    import shutil
    import subprocess
    import tempfile
    from concurrent.futures import ThreadPoolExecutor
    ids = sorted(os.path.basename(os.path.dirname(m)) for m in glob.glob(os.path.join(VERIF, "seeded", prop + "-*", "meta.json")))

    def one(sid):
        d = os.path.join(VERIF, "seeded", sid)
        try:
            meta = json.load(open(os.path.join(d, "meta.json")))
        except Exception:
            return sid, "unreadable"
        if meta.get("obsolete"):
            return sid, "obsolete"
        tmp = tempfile.mkdtemp(prefix="rbv-selfval-")
        try:
            subprocess.run(["rsync", "-a", "--exclude", "target", "--exclude", ".git", facts.REPO.rstrip("/") + "/", tmp + "/"],
                           check=True)
            r = subprocess.run(["patch", "-p1", "-s", "-d", tmp, "-i", os.path.join(d, "patch.diff")],
                               stdout=subprocess.PIPE, stderr=subprocess.STDOUT)
            if r.returncode != 0:
                return sid, "patch-failed"
            rcs = []
            for p_ in (meta.get("checks") or [prop]):
                env = dict(os.environ, RBV_REPO=tmp, RBV_EVIDENCE_DIR=os.path.join(tmp, "_evidence"), VERIF_TIER="quick",
                           RBV_NO_SELFVALIDATION="1")
                r = subprocess.run([os.path.join(VERIF, "check"), p_, "--tier", "quick"], env=env,
                                   stdout=subprocess.PIPE, stderr=subprocess.STDOUT)
                rcs.append(r.returncode)
            return sid, "reported" if 1 in rcs else ("check-error" if 2 in rcs else "not-reported")
        except Exception as e:       # noqa
            return sid, "error: %s" % e
        finally:
            shutil.rmtree(tmp, ignore_errors=True)
    with ThreadPoolExecutor(max_workers=int(os.environ.get("RBV_SELFVAL_JOBS", "6"))) as ex:
        res = dict(ex.map(one, ids))
    return {
        "what": "each kept breaking change of this property applied to a scratch copy, quick check run on the copy",
        "changes": len(ids),
        "reported": sorted(k for k, v in res.items() if v == "reported"),
        "not_reported": sorted(k for k, v in res.items() if v == "not-reported"),
        "other": {k: v for k, v in sorted(res.items()) if v not in ("reported", "not-reported")},
    }


def main(argv):
    import argparse
    ap = argparse.ArgumentParser()
    ap.add_argument("prop")
    ap.add_argument("--tier", default=os.environ.get("VERIF_TIER", "quick"))
    ap.add_argument("--replay")
    ap.add_argument("--list", action="store_true", help="print every obligation")
    a = ap.parse_args(argv)
    if a.tier not in ("quick", "thorough"):
        a.tier = "quick"
    if a.list:
        os.environ["RBV_LIST"] = "1"
    rc = run_check(a.prop.upper(), a.tier, a.replay)
    sys.exit(rc)
