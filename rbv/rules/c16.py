"""C16 - PRINT layout: the clauses whose truth is in the shape of the code (C16.R1-R8).

Decided: which device a PRINT goes to, that separators and values reach the printer operations the
property names, the statement's newline flag as a two-state machine, what every Printer does to its
column counter (reset on a line end, advance by characters on output, no output that bypasses it),
that the counter belongs to the device, and the frame a number is written in.  Not decided: the text a
number is rendered as, PRINT USING fields, the arithmetic of the zone beyond its two constants."""
import re

from .. import mir, charpred
from ..core import CheckError
from . import common

LEVEL = "other"
EXPLANATION = (
    "Structural clauses of the PRINT layout rules: (R1) the VM picks the device by the statement's printer "
    "type - PRINT the screen object, LPRINT the printer object, PRINT # the output side of the file whose "
    "handle the statement set; (R2) the lowering maps an expression item, a comma and a semicolon to their own "
    "instructions, PRINT # to the File printer type with the statement's handle, LPRINT / PRINT by the lpt1 "
    "flag, and ends every statement with PrintEnd; (R3) in the VM a comma reaches move_to_next_print_zone and "
    "nothing that ends the line, a semicolon reaches no printer operation at all, a value reaches print and "
    "nothing that ends the line or pads, PrintEnd ends the line only on the edge the statement's flag allows; "
    "(R4) that flag as a machine: a separator sets it, a value clears it, PrintEnd returns its negation and "
    "(unless the start of a statement does, C16.R11) clears it (constant propagation over every path of the four PrintState methods, from both states); "
    "(R5) for every implementation of Printer: println zeroes the column counter on every path and writes "
    "CR LF; print splits its text on a predicate that is true for CR and LF and for nothing else (truth table "
    "over ASCII), ends the line between the parts and sends each part through the routine that advances the "
    "counter - by the number of characters, not of UTF-8 bytes; the zone routine takes the counter modulo the "
    "constant it subtracts from, that constant is 14, and its padding goes out through print; no write to the "
    "underlying writer lies outside println and the advancing routine; (R6) the counter is an integer field of "
    "the printer object, every construction starts it at 0, nobody else writes it, and the three devices hold "
    "their printers by value; (R7) PRINT writes a string as it is, and a number of each of the four types "
    "through the framing routine with the flag `payload >= 0` (evaluated on a negative, zero and positive "
    "payload); the frame with the flag starts with one blank, both frames end with one blank and format the "
    "number with plain Display; (R8) where the lowering evaluates a user expression between the device selection "
    "and PrintEnd, the VM keeps the statement's print state per activation (a FUNCTION called by an item may "
    "itself PRINT); (R9 = C01.R5) every PrintState field a per-item operation modifies is written again by reset() or "
    "print_end(): the format cursor of PRINT USING starts at the beginning of the format in every statement; (R10) when a "
    "value is formatted the cursor is first taken modulo the length of the format, on every path to the scanning routines: "
    "the format is reused cyclically; (R11) every PrintState field a per-item operation modifies is written when a PRINT "
    "statement starts (the reset that selecting the printer performs), not only when it ends: an error can end a "
    "statement before PrintEnd runs; (R12) the print modules read text by characters: no function of them asks a string for "
    "its UTF-8 bytes or casts a byte to a character, except the routine that hands the text to the writer.")
NOT_DECIDED = [
    "the digits a number is rendered as (Display of f32 / f64 versus QBasic's rendering)",
    "PRINT USING: field scanning, cyclic reuse of the format, rounding (value-level string arithmetic)",
    "that 14 - col MOD 14 is the right distance for every col (arithmetic; only the two constants and the "
    "operand roles are decided)",
    "columns on the interactive screen after cursor movement (LOCATE)"]
ASSUMPTIONS = ["a character of a BASIC string occupies one column (CHR$(128..255) are one character each)"]

PRINTER_TRAIT = "rusty_basic::interpreter::io::Printer"
WRITE_CALLS = ("std::io::Write::write", "std::io::Write::write_all", "std::io::Write::write_fmt")


# ------------------------------------------------------------------ small helpers

def _self_field(place):
    """name of the field of *self that a place denotes ((*_1).f), else None"""
    if place is None or place[0] != 1:
        return None
    pr = place[1]
    if len(pr) == 2 and pr[0] == "*" and isinstance(pr[1], dict) and "f" in pr[1]:
        return pr[1].get("n")
    return None


def _const_int(op):
    k = op.get("k") if isinstance(op, dict) else None
    if k and "int" in k:
        return k["int"]
    return None


def _printer_impls(prog):
    try:
        tr = prog.trait_by_path(PRINTER_TRAIT)
    except KeyError:
        raise CheckError("trait %s not found" % PRINTER_TRAIT)
    out = []
    for imp in prog.impls_of_trait(tr["id"]):
        ms = {}
        for it in imp["items"]:
            f = prog.fns.get(it["id"])
            if f is not None:
                ms[it["name"]] = f
        if ms:
            out.append((imp, ms))
    if not out:
        raise CheckError("no implementation of %s in the analysed (non-test) configuration" % PRINTER_TRAIT)
    return tr, out


def _is_printer_call(t, name=None):
    cp = mir.callee_path(t)
    c = t.get("callee") or ""
    for p in (cp, c):
        if "interpreter::io::Printer" in p or "io::Printer>" in p:
            last = p.split("::")[-1]
            if name is None or last == name:
                return last
    return None


def _resolve(prog, t):
    """the workspace function a call runs: the resolved instance, the callee, or - for a method of a workspace
    trait that has one implementation - that implementation"""
    for c in (t.get("res"), mir.callee_of(t)):
        g = prog.fns.get(c)
        if g is not None:
            return g
    impls = prog._trait_items().get(mir.callee_of(t)) or []
    impls = list(impls)
    if len(impls) == 1:
        return prog.fns.get(impls[0])
    return None


_WRITES = {}


def _may_write_field(prog, fn, field, depth=4):
    """may fn (or a rusty_basic function it calls) assign to a field of this name?"""
    k = (fn.id, field)
    if k in _WRITES:
        return _WRITES[k]
    _WRITES[k] = False
    out = False
    for blk in fn.body.blocks:
        for s in blk["s"]:
            if s["k"] == "assign" and any(isinstance(e, dict) and e.get("n") == field for e in s["p"][1]):
                out = True
    if not out and depth > 0:
        for _b, t in fn.body.calls():
            g = _resolve(prog, t)
            if g is not None and g.crate == "rusty_basic" and g.kind != "const" and _may_write_field(prog, g, field, depth - 1):
                out = True
                break
    _WRITES[k] = out
    return out


def _deep_calls(prog, fn, depth=3, seen=None):
    """call terminators of fn and of the rusty_basic functions it calls (bounded)"""
    seen = seen if seen is not None else set()
    if fn.id in seen:
        return []
    seen.add(fn.id)
    out = []
    for _b, t in fn.body.calls():
        out.append((fn, t))
        g = None if _is_printer_call(t) else _resolve(prog, t)
        if g is not None and depth > 0 and g.crate == "rusty_basic" and g.kind != "const":
            out += _deep_calls(prog, g, depth - 1, seen)
    return out


def _region_deep_calls(prog, fn, region, depth=3):
    out = []
    seen = {fn.id}
    for _b, t in mir.region_calls(fn.body, region):
        out.append((fn, t))
        g = None if _is_printer_call(t) else _resolve(prog, t)
        if g is not None and g.crate == "rusty_basic" and g.kind != "const":
            out += _deep_calls(prog, g, depth - 1, seen)
    return out


# ------------------------------------------------------------------ constant walker (R4)

class _Walk:
    """Every acyclic path of a body (loops entered at most twice) with constants propagated through
    locals and through fields of *self.  Values: int | ('tup', [..]) | ('adt', variant, [..]) | None."""

    def __init__(self, body, init_fields, prog=None):
        self.prog = prog
        self.body = body
        self.results = []      # (return value, fields at exit)
        self.init = dict(init_fields)
        self.steps = 0
        self.depth = 0

    def key(self, place):
        f = _self_field(place)
        if f is not None:
            return ("F", f)
        if not place[1]:
            return ("L", place[0])
        return None

    def read(self, env, place):
        k = self.key(place)
        if k is not None:
            return env.get(k)
        # field of a local tuple / payload of a local adt
        base = env.get(("L", place[0]))
        for e in place[1]:
            if base is None:
                return None
            if isinstance(e, dict) and "f" in e:
                if isinstance(base, tuple) and base[0] in ("tup",):
                    base = base[1][e["f"]] if e["f"] < len(base[1]) else None
                elif isinstance(base, tuple) and base[0] == "adt":
                    base = base[2][e["f"]] if e["f"] < len(base[2]) else None
                else:
                    return None
            elif isinstance(e, dict) and "d" in e:
                if not (isinstance(base, tuple) and base[0] == "adt" and base[1] == e["d"]):
                    return None
            else:
                return None
        return base

    def operand(self, env, op):
        c = _const_int(op)
        if c is not None:
            return c
        p = mir.op_place(op)
        if p is not None:
            return self.read(env, p)
        return None

    def rvalue(self, env, r):
        k = r["k"]
        if k == "use":
            return self.operand(env, r["o"])
        if k == "agg":
            ops = [self.operand(env, o) for o in r.get("ops", [])]
            if r.get("a") == "tuple":
                return ("tup", ops)
            if r.get("a") == "adt":
                return ("adt", r.get("variant"), ops)
            return None
        if k == "un" and r.get("op") == "Not":
            v = self.operand(env, r["o"])
            return None if v is None else int(not v)
        return None

    def run(self):
        self._go(0, dict(self.init), {})
        return self.results

    def _go(self, b, env, visits):
        self.steps += 1
        if self.steps > 20000:
            raise CheckError("constant walk of %s does not terminate within its budget" % self.body.fn.path)
        if visits.get(b, 0) >= 2:
            return
        visits = dict(visits)
        visits[b] = visits.get(b, 0) + 1
        blk = self.body.blocks[b]
        if blk.get("c"):
            return
        env = dict(env)
        for s in blk["s"]:
            if s["k"] != "assign":
                continue
            k = self.key(s["p"])
            if k is None:
                continue
            env[k] = self.rvalue(env, s["r"])
        t = blk["t"]
        kind = t["k"]
        if kind == "return":
            self.results.append((env.get(("L", 0)), {k[1]: v for k, v in env.items() if k[0] == "F"}))
        elif kind == "goto":
            self._go(t["t"], env, visits)
        elif kind == "switch":
            v = self.operand(env, t["o"])
            if isinstance(v, int):
                tgt = t["else"]
                for val, tg in t["ts"]:
                    if val == v:
                        tgt = tg
                self._go(tgt, env, visits)
            else:
                for tg in sorted({tg for _v, tg in t["ts"]} | {t["else"]}):
                    if not mir.block_is_unreachable(self.body, tg):
                        self._go(tg, env, visits)
        elif kind == "call":
            d = t.get("d")
            if d:
                k = self.key(d)
                if k is not None:
                    # `?`: Try::branch(x) and from_residual keep what is known of x
                    cp = mir.callee_path(t)
                    if cp.endswith("Try>::branch") and t["args"]:
                        x = self.operand(env, t["args"][0])
                        if isinstance(x, tuple) and x[0] == "adt" and x[1] == "Ok":
                            env[k] = ("adt", "Continue", x[2])
                        elif isinstance(x, tuple) and x[0] == "adt" and x[1] == "Err":
                            env[k] = ("adt", "Break", [("adt", "Err", x[2])])
                        else:
                            env[k] = None
                    elif "from_residual" in cp:
                        env[k] = ("adt", "Err", [None])
                    else:
                        env[k] = None
            # a method of the same object that is handed self: walked itself, with the fields as they are
            g0 = _resolve(self.prog, t) if self.prog is not None else None
            if g0 is not None and g0.impl is not None and self.body.fn.impl is not None and self.depth < 3 \
                    and g0.impl.get("self_adt") == self.body.fn.impl.get("self_adt") and g0.kind != "closure" \
                    and t["args"] and mir.op_place(t["args"][0]) is not None \
                    and self._aliases_self(mir.op_place(t["args"][0])[0]) and t.get("t") is not None:
                sub = _Walk(g0.body, {kk: v for kk, v in env.items() if kk[0] == "F"}, self.prog)
                sub.depth = self.depth + 1
                outs = sub.run()
                seen_out = set()
                for ret, fields in outs:
                    sig = (repr(ret), tuple(sorted(fields.items(), key=lambda x: x[0])))
                    if sig in seen_out:
                        continue
                    seen_out.add(sig)
                    env2 = dict(env)
                    for fk in [kk for kk in env2 if kk[0] == "F"]:
                        env2[fk] = fields.get(fk[1])
                    for fn_, fv in fields.items():
                        env2[("F", fn_)] = fv
                    if d and self.key(d) is not None:
                        env2[self.key(d)] = ret
                    self._go(t["t"], env2, visits)
                return
            # a callee that gets &mut self may write any field
            for a in t["args"]:
                p = mir.op_place(a)
                if p is not None and self.body.locals[p[0]]["ty"].startswith("&mut") and \
                        self._aliases_self(p[0]):
                    g = _resolve(self.prog, t) if self.prog is not None else None
                    for kk in list(env):
                        if kk[0] == "F" and (g is None or g.crate != "rusty_basic" or _may_write_field(self.prog, g, kk[1])):
                            env[kk] = None
            if t.get("t") is not None:
                self._go(t["t"], env, visits)
        elif kind in ("drop", "assert"):
            if t.get("t") is not None:
                self._go(t["t"], env, visits)

    def _aliases_self(self, local):
        if local == 1:
            return True
        d = self.body.single_def(local)
        if d and d[1] != "T":
            r = d[2]["r"]
            if r["k"] == "ref" and r["p"][0] == 1 and r["p"][1] == ["*"]:
                return True
            if r["k"] == "use":
                p = mir.op_place(r["o"])
                return p is not None and self._aliases_self(p[0])
        return False


# ------------------------------------------------------------------ R1

def _device_fns(prog):
    """functions of the VM that look at the statement's printer type and hand out a printer"""
    out = []
    for f in prog.fns.values():
        if f.crate != "rusty_basic" or "::interpreter::" not in f.path or f.kind == "const" or common.is_derived(f):
            continue
        if "Printer" not in f.body.locals[0]["ty"]:
            continue
        reads = any(sw.adt.endswith("::PrinterType") for sw in mir.enum_switches(prog, f.body)) or \
            any("PrinterType" in (mir.callee_path(t) or "") and mir.callee_path(t).endswith("::eq") for _b, t in f.body.calls())
        if reads:
            out.append(f)
    return out


def _const_variant(f, body, op, adt_suffix):
    """variant of the constant enum value an operand denotes (a promoted constant or a local aggregate)"""
    for _ in range(4):
        k = op.get("k") if isinstance(op, dict) else None
        if k and "promoted" in k and k["promoted"] < len(f.promoted):
            for blk in f.promoted[k["promoted"]].blocks:
                for st in blk["s"]:
                    if st["k"] == "assign" and st["r"]["k"] == "agg" and (st["r"].get("adt") or "").endswith(adt_suffix):
                        return st["r"]["variant"]
            return None
        pl = mir.op_place(op)
        if pl is None:
            return None
        d = body.single_def(pl[0])
        if not d or d[1] == "T":
            return None
        r = d[2]["r"]
        if r["k"] == "agg" and (r.get("adt") or "").endswith(adt_suffix):
            return r["variant"]
        if r["k"] == "use":
            op = r["o"]
        elif r["k"] == "ref":
            d2 = body.single_def(r["p"][0]) if not r["p"][1] or r["p"][1] == ["*"] else None
            if d2 and d2[1] != "T" and d2[2]["r"]["k"] in ("use", "agg"):
                if d2[2]["r"]["k"] == "agg" and (d2[2]["r"].get("adt") or "").endswith(adt_suffix):
                    return d2[2]["r"]["variant"]
                op = d2[2]["r"].get("o", {})
            else:
                return None
        else:
            return None
    return None


def _blocks_for_variant(prog, f, variant, adt_suffix="::PrinterType"):
    """blocks of f that run when the enum value it looks at is `variant`: a match on it follows its arm, an
    `==` against a constant variant is decided, everything else forks"""
    body = f.body
    pv = mir.Prov(body)
    a = None
    for ad in prog.adts.values():
        if ad["path"].endswith(adt_suffix):
            a = ad
    if a is None:
        raise CheckError("enum %s not found" % adt_suffix)
    discr = {v["name"]: v.get("discr", v["idx"]) for v in a["variants"]}
    known = {}
    seen = set()
    work = [0]
    while work:
        b = work.pop()
        if b in seen or body.is_cleanup(b):
            continue
        seen.add(b)
        blk = body.blocks[b]
        t = blk["t"]
        if t["k"] == "switch":
            pl = mir.op_place(t["o"])
            taken = None
            if pl is not None and not pl[1]:
                if pl[0] in known:
                    v = known[pl[0]]
                    taken = t["else"]
                    for val, tg in t["ts"]:
                        if val == int(v):
                            taken = tg
                else:
                    d = None
                    for st in reversed(blk["s"]):
                        if st["k"] == "assign" and st["p"] == [pl[0], []]:
                            d = st["r"]
                            break
                    if d is None:
                        sd = body.single_def(pl[0])
                        d = sd[2]["r"] if sd and sd[1] != "T" else None
                    if d is not None and d["k"] == "discr" and (d.get("adt") or "").endswith(adt_suffix):
                        taken = t["else"]
                        for val, tg in t["ts"]:
                            if val == discr[variant]:
                                taken = tg
                    elif d is not None and d["k"] == "use":
                        p2 = mir.op_place(d["o"])
                        if p2 is not None and not p2[1] and p2[0] in known:
                            v = known[p2[0]]
                            taken = t["else"]
                            for val, tg in t["ts"]:
                                if val == int(v):
                                    taken = tg
            if taken is not None:
                work.append(taken)
            else:
                work += [tg for _v, tg in t["ts"]] + [t["else"]]
        elif t["k"] == "call":
            cp = mir.callee_path(t) or ""
            if cp.endswith("::eq") and "PrinterType" in cp and len(t["args"]) == 2 and t.get("d") and not t["d"][1]:
                w = _const_variant(f, body, t["args"][1], adt_suffix) or _const_variant(f, body, t["args"][0], adt_suffix)
                if w is not None:
                    known[t["d"][0]] = (w == variant)
            if cp.endswith("::ne") and "PrinterType" in cp and len(t["args"]) == 2 and t.get("d") and not t["d"][1]:
                w = _const_variant(f, body, t["args"][1], adt_suffix) or _const_variant(f, body, t["args"][0], adt_suffix)
                if w is not None:
                    known[t["d"][0]] = (w != variant)
            if t.get("t") is not None:
                work.append(t["t"])
        else:
            work += [x for x in body.succ(b)]
    return seen


def r1_device_dispatch(ctx, rule="C16.R1"):
    prog = ctx.prog
    sites = _device_fns(prog)
    if not sites:
        raise CheckError("%s: no function of the VM looks at the printer type and hands out a printer" % rule)
    want = {"Print": "stdout", "LPrint": "lpt1"}
    devices = {}
    for f in sites:
        body = f.body
        pv = mir.Prov(body)
        short = f.path.split("::")[-1]
        per = {}
        for v in ("Print", "LPrint", "File"):
            blocks = _blocks_for_variant(prog, f, v)
            fields = set()
            for b in blocks:
                for s in body.blocks[b]["s"]:
                    if s["k"] == "assign" and s["r"]["k"] == "ref":
                        n = _self_field(s["r"]["p"])
                        if n:
                            fields.add(n)
            per[v] = (blocks, fields)
        common_fields = per["Print"][1] & per["LPrint"][1] & per["File"][1]
        for v in ("Print", "LPrint", "File"):
            key = "%s:%s:%s" % (rule, short, v)
            blocks, fields = per[v]
            fields = fields - common_fields
            if v in want:
                devices[v] = fields
                ctx.decide(fields == {want[v]}, rule, key, f.loc, "hands out self.%s" % want[v],
                           "with the printer type %s, %s reaches %s instead of the `%s` object only: %s text goes to another device"
                           % (v, short, sorted(fields) or "no device of self", want[v], "PRINT" if v == "Print" else "LPRINT"))
            else:
                ok = False
                why = "no lookup by the statement's handle"
                for b in sorted(blocks):
                    t = body.blocks[b]["t"]
                    if t["k"] == "call" and len(t["args"]) >= 2 and "FileManager" in mir.callee_path(t):
                        o = mir.show_origin(pv.of_operand(t["args"][1]))
                        if "get_file_handle(" in o and "print_state" in o:
                            nm = mir.callee_path(t).split("::")[-1]
                            if "output" in nm:
                                ok = True
                            else:
                                why = "the file is looked up through %s, not through the output side" % nm
                        else:
                            why = "the handle given to %s is %s, not the handle the PRINT statement set" % (
                                mir.callee_path(t).split("::")[-1], o[:80])
                ctx.decide(ok and fields <= {"file_manager"}, rule, key, f.loc,
                           "output side of the file with the statement's handle",
                           "with the printer type File, %s: %s" % (short, why))
    ctx.analysed_units(rule, functions=[f.path.split("::", 1)[1] for f in sites])
    ctx.require(rule, 3)
    return devices


# ------------------------------------------------------------------ R2

def _instr_aggs(body, region):
    out = []
    for _b, s in mir.region_aggregates(body, region):
        r = s["r"]
        if r.get("a") == "adt" and (r.get("adt") or "").endswith("::Instruction"):
            out.append((r["variant"], r, s))
    return out


def r2_lowering(ctx, rule="C16.R2"):
    prog = ctx.prog
    gens = [f for f in prog.fns.values()
            if f.crate == "rusty_basic" and "instruction_generator" in f.path and f.kind != "const"
            and not common.is_derived(f)]
    # (a) items
    arg_fns = []
    for f in gens:
        sws = [sw for sw in mir.enum_switches(prog, f.body) if sw.adt.endswith("::PrintArg")]
        if sws:
            arg_fns.append((f, max(sws, key=lambda x: len(x.arms))))
    if not arg_fns:
        raise CheckError("%s: no generator function matches on PrintArg" % rule)
    want = {"Expression": "PrintValueFromA", "Comma": "PrintComma", "Semicolon": "PrintSemicolon"}
    for f, sw in arg_fns:
        for v, ins in sorted(want.items()):
            key = "%s:item:%s:%s" % (rule, f.name, v)
            if v not in sw.arms:
                ctx.violation(rule, key, f.loc, "no arm of its own for PrintArg::%s" % v)
                continue
            region = mir.arm_region(f.body, sw.bb, sw.arms[v])
            got = sorted({n for n, _r, _s in _instr_aggs(f.body, region) if n.startswith("Print")})
            ctx.decide(got == [ins], rule, key, f.loc, "%s -> %s" % (v, ins),
                       "PrintArg::%s is lowered to %s instead of %s" % (v, got or "no PRINT instruction", ins))
    # (b) device selection: in the function that builds the PrintSetPrinterType instruction
    def ptypes(g, blocks=None):
        return [(b_, s_["r"]["variant"]) for b_, blk_ in enumerate(g.body.blocks) if blocks is None or b_ in blocks
                for s_ in blk_["s"] if s_["k"] == "assign" and s_["r"]["k"] == "agg"
                and (s_["r"].get("adt") or "").endswith("::PrinterType")]
    setters = sorted({g.id for g in gens for blk in g.body.blocks for s_ in blk["s"] if s_["k"] == "assign"
                      and s_["r"]["k"] == "agg" and (s_["r"].get("adt") or "").endswith("::Instruction")
                      and s_["r"].get("variant") == "PrintSetPrinterType"})
    if len(setters) != 1:
        raise CheckError("%s: PrintSetPrinterType is built in %d generator functions (expected one)" % (rule, len(setters)))
    f = prog.fns[setters[0]]
    body = f.body
    pv = mir.Prov(body)
    gen_ids = {g.id for g in gens}

    def helpers_in(region):
        out = []
        for b_, t_ in mir.region_calls(body, region):
            h = _resolve(prog, t_)
            if h is not None and h.id in gen_ids and h.id != f.id and ptypes(h):
                out.append((b_, t_, h))
        return out

    def variants_in(region):
        vs = {v for _b, v in ptypes(f, region)}
        for _b, _t, h in helpers_in(region):
            vs |= {v for _b2, v in ptypes(h)}
        return sorted(vs)

    def flag_edges(g, sw_b, t):
        zero = [tg for val, tg in t["ts"] if val == 0]
        if not zero:
            return None
        rz = g.body.reachable(zero[0], avoid={t["else"]})
        rn = g.body.reachable(t["else"], avoid={zero[0]})
        vz = {v for bb, v in ptypes(g) if bb in rz and bb not in rn}
        vn = {v for bb, v in ptypes(g) if bb in rn and bb not in rz}
        return vz, vn
    opt = [sw for sw in mir.enum_switches(prog, body) if sw.adt == "core::option::Option"]
    ok_file = False
    why = "no match on the optional file number"
    for sw in opt:
        if "file_number" not in mir.show_origin(pv.of_place(sw.place)):
            continue
        some_t = sw.arms.get("Some")
        none_t = sw.arms.get("None", sw.otherwise)
        if some_t is None or none_t is None:
            continue
        some_r = mir.arm_region(body, sw.bb, some_t)
        none_r = mir.arm_region(body, sw.bb, none_t)
        some_types = variants_in(some_r)
        none_types = variants_in(none_r)
        handle = [r for n, r, _s in _instr_aggs(body, some_r) if n == "PrintSetFileHandle"]
        h_ok = False
        for r in handle:
            o = mir.show_origin(pv.of_operand(r["ops"][0]))
            if "file_number" in o and "Some" in o:
                h_ok = True
        # ... on every path of the arm: a PRINT # that relies on an earlier statement having set the handle prints to
        # whatever file the last executed PRINT # chose
        h_blocks = {b_ for b_ in some_r for s_ in body.blocks[b_]["s"] if s_["k"] == "assign" and s_["r"]["k"] == "agg"
                    and (s_["r"].get("adt") or "").endswith("::Instruction") and s_["r"].get("variant") == "PrintSetFileHandle"}
        exits_ = [e for e in body.exits() if not body.is_cleanup(e)]
        if h_ok and not all(body.every_path_passes(some_t, {e}, h_blocks) for e in exits_ if e in body.reachable(some_t)):
            h_ok = False
            why_handle = "PrintSetFileHandle is not emitted on every path of a PRINT # (the statement relies on an earlier one having set the handle)"
        else:
            why_handle = "PrintSetFileHandle does not carry the statement's own file number"
        if some_types != ["File"]:
            why = "with a file number the printer type is %s" % some_types
        elif not h_ok:
            why = why_handle
        elif none_types != ["LPrint", "Print"]:
            why = "without a file number the printer types are %s (LPRINT and PRINT need one each)" % none_types
        else:
            ok_file = True
            # which edge of the lpt1 test is which: the test is here, or in a helper that is handed the flag
            edges = None
            where = f
            for b in sorted(none_r):
                t = body.blocks[b]["t"]
                if t["k"] == "switch" and "lpt1" in mir.show_origin(pv.of_operand(t["o"])):
                    edges = flag_edges(f, b, t)
            if edges is None:
                for _b, t_, h in helpers_in(none_r):
                    if not any("lpt1" in mir.show_origin(pv.of_operand(a_)) for a_ in t_["args"]):
                        continue
                    hpv = mir.Prov(h.body)
                    for b2, blk2 in enumerate(h.body.blocks):
                        t2 = blk2["t"]
                        if t2["k"] == "switch" and not blk2.get("c") and mir.show_origin(hpv.of_operand(t2["o"])).startswith("arg"):
                            edges = flag_edges(h, b2, t2)
                            where = h
            if edges is None:
                ctx.unknown(rule, rule + ":device:lpt1-flag", f.loc, "the test of the lpt1 flag was not found")
            else:
                vz, vn = edges
                ctx.decide(vz == {"Print"} and vn == {"LPrint"}, rule, rule + ":device:lpt1-flag", where.loc,
                           "lpt1 -> LPrint, otherwise Print",
                           "the lpt1 flag selects %s and its absence %s: PRINT and LPRINT are exchanged"
                           % (sorted(vn), sorted(vz)))
    ctx.decide(ok_file, rule, rule + ":device:file-number", f.loc,
               "PRINT #n -> File + handle n; otherwise LPrint / Print", "device selection of PRINT: " + why)
    # (c) PrintEnd closes every statement
    ends = [(g, b) for g in gens for b, blk in enumerate(g.body.blocks) for s in blk["s"]
            if s["k"] == "assign" and s["r"]["k"] == "agg" and (s["r"].get("adt") or "").endswith("::Instruction")
            and s["r"]["variant"] == "PrintEnd"]
    if len({g.id for g, _b in ends}) != 1:
        raise CheckError("%s: PrintEnd is emitted by %d functions" % (rule, len({g.id for g, _b in ends})))
    g = ends[0][0]
    blocks = {b for _g, b in ends}
    push_blocks = set()
    for b in blocks:
        # the push that consumes the aggregate follows in the same block's terminator
        t = g.body.blocks[b]["t"]
        if t["k"] == "call" and mir.callee_path(t).split("::")[-1] == "push":
            push_blocks.add(b)
    exits = [b for b in g.body.exits() if not g.body.is_cleanup(b)]
    every = bool(push_blocks) and all(g.body.every_path_passes(0, {e}, push_blocks) for e in exits)
    # and nothing is emitted after it
    after = []
    for b in push_blocks:
        for bb in g.body.reachable(g.body.blocks[b]["t"].get("t")) if g.body.blocks[b]["t"].get("t") is not None else []:
            t = g.body.blocks[bb]["t"]
            if t["k"] == "call" and bb not in push_blocks and \
                    mir.callee_path(t).split("::")[-1] in ("push", "push_load") | {h.name for h in gens if h.name.startswith("generate_")}:
                after.append(mir.callee_path(t).split("::")[-1])
    ctx.decide(every and not after, rule, rule + ":PrintEnd-last", g.loc, "PrintEnd is pushed on every path, last",
               "%s: %s" % (g.path.split("::")[-1], "something is emitted after PrintEnd (%s)" % after if after else
                           "a path through the lowering of PRINT emits no PrintEnd: the statement's line never ends and its "
                           "state leaks into the next PRINT"))
    ctx.require(rule, 6, max_unknown=1)


# ------------------------------------------------------------------ R3

def r3_vm_arms(ctx, rule="C16.R3"):
    prog = ctx.prog
    one = ctx.anchor_method("Interpreter", "interpret_one")
    from .c05 import _arm_regions
    _sw, regions = _arm_regions(prog, one, "::Instruction")
    spec = {
        "PrintComma": ({"move_to_next_print_zone"}, {"println", "print"}),
        "PrintSemicolon": (set(), {"println", "print", "move_to_next_print_zone"}),
        "PrintValueFromA": ({"print"}, {"println", "move_to_next_print_zone"}),
        "PrintEnd": ({"println"}, {"move_to_next_print_zone"}),
    }
    state_fns = {}
    for v, (must, never) in sorted(spec.items()):
        if v not in regions:
            raise CheckError("%s: interpret_one has no arm for Instruction::%s" % (rule, v))
        calls = _region_deep_calls(prog, one, regions[v], depth=3)
        ops = set()
        for g, t in calls:
            n = _is_printer_call(t)
            if n:
                ops.add(n)
            cp = mir.callee_path(t)
            if "PrintState::" in cp:
                state_fns.setdefault(v, []).append(_resolve(prog, t))
        # print_variant / print_number reach `print` of the same object: count them as print
        direct = set(ops)
        missing = must - direct
        extra = direct & never
        what = {"PrintComma": "a comma", "PrintSemicolon": "a semicolon", "PrintValueFromA": "a value",
                "PrintEnd": "the end of the statement"}[v]
        ctx.decide(not missing and not extra, rule, "%s:%s" % (rule, v), one.loc,
                   "reaches %s, never %s" % (sorted(must) or "no printer operation", sorted(never)),
                   "%s (Instruction::%s) %s" % (what, v, "; ".join(
                       (["no longer reaches Printer::%s" % m for m in sorted(missing)]) +
                       (["reaches Printer::%s, which %s" % (e, "ends the line" if e == "println" else
                                                              "pads to the next zone" if e.startswith("move") else
                                                              "writes text") for e in sorted(extra)]))))
    # PrintEnd ends the line only on the edge of the flag PrintState::print_end returns
    pe = [g for g in state_fns.get("PrintEnd", []) if g is not None]
    ok = False
    why = "the VM function of PrintEnd was not found"
    vmfs = []
    for _b, t in mir.region_calls(one.body, regions["PrintEnd"]):
        h = _resolve(prog, t)
        if h is not None and h.crate == "rusty_basic":
            vmfs.append(h)
    for h in vmfs:
        body = h.body
        pv = mir.Prov(body)
        ln_blocks = [b for b, t in body.calls() if _is_printer_call(t, "println")]
        if not ln_blocks or not pe:
            continue
        why = "println is not guarded by the flag that %s returns" % pe[0].name
        for b, blk in enumerate(body.blocks):
            t = blk["t"]
            if t["k"] != "switch" or blk.get("c"):
                continue
            o = mir.show_origin(pv.of_operand(t["o"]))
            if pe[0].name + "(" in o and o.endswith(".1"):
                zero = [tg for val, tg in t["ts"] if val == 0]
                if not zero:
                    continue
                r_true = body.reachable(t["else"], avoid={zero[0]})
                r_false = body.reachable(zero[0], avoid={t["else"]})
                on_true = all(x in r_true for x in ln_blocks)
                on_false = any(x in r_false and x not in r_true for x in ln_blocks)
                if on_true and not on_false:
                    ok = True
                else:
                    why = "println lies on the edge where the flag says `no new line`"
    ctx.decide(ok, rule, rule + ":PrintEnd:newline-iff-flag", (vmfs[0].loc if vmfs else one.loc),
               "println only on the true edge of the returned flag", "PrintEnd: " + why)
    ctx.require(rule, 5)
    return state_fns


# ------------------------------------------------------------------ R4

def r4_flag_machine(ctx, state_fns, rule="C16.R4"):
    prog = ctx.prog
    ms = {f.name: f for f in prog.methods_of("PrintState") if f.kind != "closure"}
    a = prog.adt("rusty_basic::interpreter::print::PrintState")
    bools = [fl["name"] for fl in a["variants"][0]["fields"] if fl["ty"] == "bool"]
    if len(bools) != 1:
        ctx.unknown(rule, rule + ":flag", "-", "PrintState has %d bool fields: which one suppresses the line end is not decided" % len(bools))
        ctx.require(rule, 0, max_unknown=1)
        return
    flag = bools[0]

    def fn_of(v):
        fs = [g for g in state_fns.get(v, []) if g is not None and g.name in ms]
        return fs[0] if fs else None

    def run(f, init):
        return _Walk(f.body, {("F", flag): init}, prog).run()

    for v, what, want in (("PrintComma", "a comma", 1), ("PrintSemicolon", "a semicolon", 1), ("PrintValueFromA", "a value", 0)):
        f = fn_of(v)
        key = "%s:%s" % (rule, v)
        if f is None:
            ctx.violation(rule, key, "-", "the VM arm of %s calls no PrintState method: the statement's line-end flag is "
                          "not updated by %s" % (v, what))
            continue
        bad, unk = [], []
        for init in (0, 1):
            res = run(f, init)
            if not res:
                unk.append("no path reaches a return")
            for _ret, fields in res:
                got = fields.get(flag)
                if got is None:
                    unk.append("from flag=%s the value on a path is not decided" % bool(init))
                elif got != want:
                    bad.append("from flag=%s a path leaves it %s" % (bool(init), {0: "false", 1: "true"}[got]))
        if unk and not bad:
            ctx.unknown(rule, key, f.loc, "; ".join(sorted(set(unk))[:2]))
            continue
        ctx.decide(not bad, rule, key, f.loc, "%s leaves %s = %s on every path" % (f.name, flag, bool(want)),
                   "after %s PrintState.%s must be %s (%s): %s" % (
                       what, flag, bool(want),
                       "a trailing separator keeps the line open" if want else "the line ends after a value unless a separator follows",
                       "; ".join(sorted(set(bad))[:3])))
    # does the start of a statement write the flag (C16.R11)?  Then what PrintEnd leaves in it is of no consequence.
    start_fn = None
    for g0 in (ms.get("set_printer_type"), ms.get("reset")):
        if g0 is not None and _may_write_field(prog, g0, flag):
            start_fn = g0
    f = fn_of("PrintEnd")
    if f is None:
        ctx.violation(rule, rule + ":PrintEnd", "-", "the VM arm of PrintEnd calls no PrintState method")
    else:
        for init in (0, 1):
            bad, unk = [], []
            oks = 0
            for ret, fields in run(f, init):
                if isinstance(ret, tuple) and ret[0] == "adt" and ret[1] == "Ok":
                    oks += 1
                    tup = ret[2][0] if ret[2] else None
                    nl = tup[1][1] if isinstance(tup, tuple) and tup[0] == "tup" and len(tup[1]) > 1 else None
                    if nl is None:
                        unk.append("the returned new-line flag is not decided on a path")
                    elif nl != 1 - init:
                        bad.append("returns new-line = %s" % {0: "false", 1: "true"}[nl])
                    if start_fn is not None:
                        pass        # the next statement starts by writing the flag
                    elif fields.get(flag) is None:
                        unk.append("the flag after the call is not decided on a path")
                    elif fields.get(flag) != 0:
                        bad.append("leaves the flag set (and nothing clears it when the next statement starts)")
                elif ret is None:
                    unk.append("a returned value is not decided")
            if not oks:
                unk.append("no successful return was found")
            k2 = "%s:PrintEnd:from-%s" % (rule, "set" if init else "clear")
            if unk and not bad:
                ctx.unknown(rule, k2, f.loc, "; ".join(sorted(set(unk))[:2]))
                continue
            ctx.decide(not bad, rule, k2, f.loc,
                       "returns new-line = %s%s" % (not init, "" if start_fn is not None else " and clears the flag"),
                       "%s with the flag %s: %s - %s" % (
                           f.name, "set" if init else "clear", "; ".join(sorted(set(bad))),
                           "a PRINT that ends in a separator must not end the line, any other must, and the next "
                           "statement starts with the flag clear"))
    ctx.require(rule, 3, max_unknown=2)


# ------------------------------------------------------------------ R5 / R6

def _column_field(println):
    cands = set()
    for blk in println.body.blocks:
        if blk.get("c"):
            continue
        for s in blk["s"]:
            if s["k"] == "assign" and s["r"]["k"] == "use" and _const_int(s["r"]["o"]) == 0:
                n = _self_field(s["p"])
                if n:
                    cands.add(n)
    return cands


def _advancers(prog, self_adt, col):
    """methods of the printer type that store col + X into col: [(fn, source of X)]"""
    out = []
    for f in prog.fns.values():
        if f.impl is None or f.impl.get("self_adt") != self_adt or f.kind == "closure":
            continue
        body = f.body
        for blk in body.blocks:
            for s in blk["s"]:
                if s["k"] != "assign" or s["r"]["k"] != "bin" or s["r"]["op"] not in ("Add", "AddWithOverflow"):
                    continue
                pa, pb = mir.op_place(s["r"]["a"]), mir.op_place(s["r"]["b"])
                if _self_field(pa) == col:
                    other = s["r"]["b"]
                elif _self_field(pb) == col:
                    other = s["r"]["a"]
                else:
                    continue
                src = "?"
                po = mir.op_place(other)
                if po is not None and not po[1]:
                    d = body.single_def(po[0])
                    if d and d[1] == "T":
                        src = mir.callee_path(d[2])
                    elif d:
                        src = mir.show_origin(mir.Prov(body).of_operand(other))
                elif _const_int(other) is not None:
                    src = "const %d" % _const_int(other)
                out.append((f, src))
    return out


def r5_column(ctx, rule="C16.R5"):
    prog = ctx.prog
    _tr, impls = _printer_impls(prog)
    eng = charpred.engine(prog)
    cols = {}
    for imp, ms in impls:
        ty = re.sub(r"<.*", "", imp["self_ty"]).split("::")[-1]
        for need in ("print", "println", "move_to_next_print_zone"):
            if need not in ms:
                raise CheckError("%s: %s has no %s" % (rule, ty, need))
        ln, pr, zone = ms["println"], ms["print"], ms["move_to_next_print_zone"]
        cand = _column_field(ln)
        if len(cand) != 1:
            ctx.violation(rule, "%s:%s:println-resets-column" % (rule, ty), ln.loc,
                          "%s::println stores 0 into %s: the column counter does not restart when a line ends"
                          % (ty, "no field of self" if not cand else sorted(cand)))
            continue
        col = next(iter(cand))
        cols[imp["self_adt"]] = col
        body = ln.body
        zero_blocks = {b for b, blk in enumerate(body.blocks) if not blk.get("c") for s in blk["s"]
                       if s["k"] == "assign" and _self_field(s["p"]) == col and s["r"]["k"] == "use" and _const_int(s["r"]["o"]) == 0}
        exits = [b for b in body.exits() if not body.is_cleanup(b)]
        ctx.decide(all(body.every_path_passes(0, {e}, zero_blocks) for e in exits), rule,
                   "%s:%s:println-resets-column" % (rule, ty), ln.loc, "%s = 0 on every path" % col,
                   "a path through %s::println does not reset %s to 0" % (ty, col))
        pv = mir.Prov(body)
        crlf = False
        for _b, t in body.calls():
            if mir.callee_path(t) in WRITE_CALLS or (t.get("callee") or "") in WRITE_CALLS:
                o = mir.show_origin(pv.of_operand(t["args"][1])) if len(t["args"]) > 1 else ""
                if '"\\r\\n"' in o:
                    crlf = True
        ctx.decide(crlf, rule, "%s:%s:println-writes-CRLF" % (rule, ty), ln.loc, "writes \"\\r\\n\"",
                   "%s::println does not write the constant CR LF to its writer" % ty)
        # print: split predicate
        pbody = pr.body
        split = [(b, t) for b, t in pbody.calls() if re.search(r"str>::(split|split_terminator|split_inclusive)$", mir.callee_path(t) or "")
                 or re.search(r"<impl str>::split", mir.callee_path(t) or "")]
        key = "%s:%s:print-splits-on-CR-and-LF" % (rule, ty)
        if len(split) != 1 or len(split[0][1]["args"]) < 2:
            ctx.unknown(rule, key, pr.loc, "%s::print does not split its text with str::split: how it finds line ends is not decided" % ty)
        else:
            pred = charpred.pred_of_operand(prog, pr, split[0][1]["args"][1])
            acc, und = (set(), set(range(128))) if pred is None else charpred.accepted(eng, prog, pred)
            if und:
                ctx.unknown(rule, key, pr.loc, "the split predicate is not evaluated for %d characters" % len(und))
            else:
                ctx.decide(acc == {10, 13}, rule, key, pr.loc, "predicate true for CR and LF only",
                           "%s::print starts a new line (and restarts the column) at the characters %s; the property says at CR "
                           "and at LF, each on its own" % (ty, sorted(acc)))
        # print: line end between parts, parts through an advancer
        adv = _advancers(prog, imp["self_adt"], col)
        adv_ids = {f.id for f, _s in adv}
        # the loop body may be a closure handed to an adaptor of the split (try_fold, for_each ...)
        pfns = [pr] + prog.closures_of(pr)
        pcalls = [(g_, t) for g_ in pfns for _b, t in g_.body.calls()]
        calls_ln = any((t.get("res") or mir.callee_of(t)) == ln.id or _is_printer_call(t, "println") for _g, t in pcalls)
        calls_adv = any((t.get("res") or mir.callee_of(t)) in adv_ids for _g, t in pcalls) or pr.id in adv_ids
        ctx.decide(calls_ln, rule, "%s:%s:print-ends-line-between-parts" % (rule, ty), pr.loc, "println between parts",
                   "%s::print never calls println: a CR / LF inside a string does not restart the column" % ty)
        if split:
            ppv = mir.Prov(pbody)
            # closures that are handed to a call on (an adaptor of) the split: their parameters are parts
            fed = set()
            for _b, t in pbody.calls():
                if t["args"] and "split" in mir.show_origin(ppv.of_operand(t["args"][0])):
                    for a_ in t["args"][1:]:
                        o_ = mir.strip_refs(ppv.of_operand(a_))
                        if o_[0] == "agg" and o_[1] == "closure":
                            fed.add(o_[2])
            raw = []
            for g_ in pfns:
                gpv = ppv if g_.id == pr.id else mir.Prov(g_.body)
                for _b, t in g_.body.calls():
                    if (t.get("res") or mir.callee_of(t)) in adv_ids and len(t["args"]) >= 2:
                        o = mir.show_origin(gpv.of_operand(t["args"][1]))
                        if g_.id != pr.id and g_.id in fed and "arg" in o:
                            continue
                        if "split" not in o:
                            raw.append("line %s (%s)" % (t.get("ln"), o[:40]))
            ctx.decide(not raw, rule, "%s:%s:print-writes-split-parts-only" % (rule, ty), pr.loc,
                       "every text handed to the advancing routine is a part of the split",
                       "%s::print hands text to the advancing routine that did not come out of the split at CR / LF - %s: a CR or "
                       "LF inside it is written as it is and the column does not restart" % (ty, "; ".join(raw)))
        ctx.decide(calls_adv, rule, "%s:%s:print-advances-column" % (rule, ty), pr.loc,
                   "text goes through %s" % sorted(f.name for f, _s in adv),
                   "%s::print writes text without going through a routine that adds to %s" % (ty, col))
        for f, src in adv:
            key = "%s:%s:%s:advance-by-characters" % (rule, ty, f.name)
            last = src.split("::")[-1]
            if src.endswith("Iterator::count") or last == "count":
                ctx.ok(rule, key, f.loc, "adds chars().count()")
            elif re.search(r"str>::len$|String::len$|<impl str>::len$", src):
                ctx.violation(rule, key, f.loc,
                              "%s::%s adds the UTF-8 byte length of the text (%s) to %s: a character above 127 (CHR$(200)) counts "
                              "as two columns, so the next comma pads one column short (`PRINT CHR$(200), \"x\"` puts x in column "
                              "14 instead of 15)" % (ty, f.name, src.split("::", 1)[-1], col))
            else:
                ctx.unknown(rule, key, f.loc, "the amount added to %s comes from %s" % (col, src[:80]))
        # no write outside println and the advancers
        stray = []
        for g in prog.fns.values():
            if g.impl is None or g.impl.get("self_adt") != imp["self_adt"] or g.kind == "closure":
                continue
            if g.id == ln.id or g.id in adv_ids:
                continue
            for _b, t in g.body.calls():
                if mir.callee_path(t) in WRITE_CALLS or (t.get("callee") or "") in WRITE_CALLS:
                    stray.append("%s (line %s)" % (g.name, t.get("ln")))
        ctx.decide(not stray, rule, "%s:%s:no-write-bypasses-the-counter" % (rule, ty), pr.loc,
                   "the writer is written by println and %s only" % sorted(f.name for f, _s in adv),
                   "%s writes to the underlying writer in %s without touching %s" % (ty, ", ".join(stray), col))
        # zone
        zb = zone.body
        zpv = mir.Prov(zb)
        rems, subs = [], []
        for blk in zb.blocks:
            if blk.get("c"):
                continue
            for s in blk["s"]:
                if s["k"] == "assign" and s["r"]["k"] == "bin":
                    r = s["r"]
                    if r["op"] == "Rem" and _const_int(r["b"]) is not None:
                        rems.append((r, s["p"][0]))
                    if r["op"] in ("Sub", "SubWithOverflow") and _const_int(r["a"]) is not None:
                        subs.append(r)
        key = "%s:%s:zone-constants" % (rule, ty)
        nmo = [t for _b, t in zb.calls() if (mir.callee_path(t) or "").endswith("::next_multiple_of") and t["args"]
               and col in mir.show_origin(zpv.of_operand(t["args"][0]))]
        divs = [s_["r"] for blk_ in zb.blocks if not blk_.get("c") for s_ in blk_["s"] if s_["k"] == "assign" and s_["r"]["k"] == "bin"
                and s_["r"]["op"] == "Div" and _const_int(s_["r"]["b"]) is not None]
        if nmo:
            k_ = _const_int(nmo[0]["args"][1]) if len(nmo[0]["args"]) > 1 else None
            ctx.violation(rule, key, zone.loc,
                          "the zone routine pads up to %s.next_multiple_of(%s): that is the column itself when the column already is a "
                          "multiple of %s, so a comma in column 0, 14, 28 ... writes nothing - the next zone starts 14 columns further "
                          "(14 - col %% 14 is never 0)" % (col, k_, k_))
        elif len(divs) == 1 and not rems:
            # (col / C + 1) * C - col
            c_ = _const_int(divs[0]["b"])
            muls = [s_["r"] for blk_ in zb.blocks if not blk_.get("c") for s_ in blk_["s"] if s_["k"] == "assign" and s_["r"]["k"] == "bin"
                    and s_["r"]["op"] in ("Mul", "MulWithOverflow") and (_const_int(s_["r"]["b"]) is not None or _const_int(s_["r"]["a"]) is not None)]
            adds = [s_["r"] for blk_ in zb.blocks if not blk_.get("c") for s_ in blk_["s"] if s_["k"] == "assign" and s_["r"]["k"] == "bin"
                    and s_["r"]["op"] in ("Add", "AddWithOverflow") and 1 in (_const_int(s_["r"]["a"]), _const_int(s_["r"]["b"]))]
            mc = [x for x in (_const_int(muls[0]["a"]), _const_int(muls[0]["b"])) if x is not None] if len(muls) == 1 else []
            if len(muls) == 1 and len(adds) == 1 and col in mir.show_origin(zpv.of_operand(divs[0]["a"])):
                ctx.decide(c_ == 14 and mc == [14], rule, key, zone.loc, "(%s / 14 + 1) * 14 - %s" % (col, col),
                           "the zone routine computes (%s / %s + 1) * %s - %s: the zone is 14 columns wide" % (col, c_, mc, col))
            else:
                ctx.unknown(rule, key, zone.loc, "a zone routine with a division that is not of the form (col / C + 1) * C - col")
        elif len(rems) != 1 or len(subs) != 1:
            ctx.unknown(rule, key, zone.loc, "the zone routine is not of the form C - col %% C (%d remainders, %d subtractions "
                        "from a constant)" % (len(rems), len(subs)))
        else:
            c1, c2 = _const_int(rems[0][0]["b"]), _const_int(subs[0]["a"])
            o = mir.show_origin(zpv.of_operand(rems[0][0]["a"]))
            po = mir.op_place(subs[0]["b"])
            feeds = po is not None and po[0] == rems[0][1]
            ctx.decide(c1 == c2 == 14 and col in o and feeds, rule, key, zone.loc, "14 - %s %% 14" % col,
                       "the zone routine computes %s - (%s %% %s): a comma has to pad to the next multiple of 14 columns "
                       "counted from the device's own counter" % (c2, o[:40], c1))
        out_ok = any((t.get("res") or mir.callee_of(t)) in ({pr.id} | adv_ids) or _is_printer_call(t, "print")
                     for _b, t in zb.calls())
        ctx.decide(out_ok, rule, "%s:%s:zone-padding-goes-through-print" % (rule, ty), zone.loc, "padding is printed through print",
                   "%s::move_to_next_print_zone does not send its padding through print: the counter does not see it" % ty)
    ctx.analysed_units(rule, printer_impls=[i["self_ty"] for i, _m in impls])
    ctx.require(rule, 8, max_unknown=3)
    return cols


def r6_per_device(ctx, cols, devices, rule="C16.R6"):
    prog = ctx.prog
    shared = re.compile(r"\b(Rc|Arc|RefCell|Cell|Mutex|RwLock|Atomic\w+)\b|^&|^\*|'static")
    for adt_id, col in sorted(cols.items()):
        a = prog.adt(adt_id)
        ty = a["path"].split("::")[-1]
        fl = [x for x in a["variants"][0]["fields"] if x["name"] == col][0]
        ctx.decide(re.fullmatch(r"(u|i)(size|8|16|32|64)", fl["ty"]) is not None, rule, "%s:%s.%s:plain-integer" % (rule, ty, col),
                   "%s:%s" % (a.get("file"), a.get("line")), "%s: %s" % (col, fl["ty"]),
                   "%s.%s has type %s: the counter is no longer a number owned by the device object" % (ty, col, fl["ty"]))
        idx = [i for i, x in enumerate(a["variants"][0]["fields"]) if x["name"] == col][0]
        n = 0
        bad = []
        writers = []
        for f in prog.fns.values():
            if f.kind == "const":
                continue
            for blk in f.body.blocks:
                for s in blk["s"]:
                    if s["k"] != "assign":
                        continue
                    r = s["r"]
                    if r["k"] == "agg" and r.get("adt") == adt_id:
                        n += 1
                        if _const_int(r["ops"][idx]) != 0:
                            bad.append("%s:%s" % (f.file, s.get("ln")))
                    for e in s["p"][1]:
                        if isinstance(e, dict) and e.get("n") == col and e.get("a") == adt_id:
                            if not (f.impl is not None and f.impl.get("self_adt") == adt_id and s["p"][0] == 1):
                                writers.append("%s (line %s)" % (f.path.split("::", 1)[1], s.get("ln")))
        if not n:
            raise CheckError("%s: no construction of %s found" % (rule, ty))
        ctx.decide(not bad, rule, "%s:%s:starts-at-column-0" % (rule, ty), "%s:%s" % (a.get("file"), a.get("line")),
                   "%d construction(s), %s = 0" % (n, col),
                   "%s is built with %s not 0 at %s: a fresh device does not start in column 0" % (ty, col, bad))
        ctx.decide(not writers, rule, "%s:%s.%s:written-by-its-own-methods-only" % (rule, ty, col),
                   "%s:%s" % (a.get("file"), a.get("line")), "only methods of %s write self.%s" % (ty, col),
                   "%s.%s is written from outside the object: %s" % (ty, col, ", ".join(writers[:3])))
    # the devices are held by value
    interp = prog.adt("rusty_basic::interpreter::main::Interpreter")
    fields = {x["name"]: x["ty"] for x in interp["variants"][0]["fields"]}
    for v, fs in sorted(devices.items()):
        for n_ in sorted(fs):
            t = fields.get(n_, "?")
            ctx.decide(t != "?" and not shared.search(t), rule, "%s:Interpreter.%s:held-by-value" % (rule, n_),
                       "%s:%s" % (interp.get("file"), interp.get("line")), "%s: %s" % (n_, t),
                       "Interpreter.%s has type %s: the %s device no longer owns a printer (and a column) of its own" % (n_, t, v))
    if "stdout" in fields and "lpt1" in fields:
        pass
    # screen and printer objects of the real interpreter are two constructions
    news = []
    for f in prog.fns.values():
        if f.crate != "rusty_basic" or f.kind == "const":
            continue
        for _b, t in f.body.calls():
            g = prog.fns.get(t.get("res") or mir.callee_of(t))
            if g is not None and g.impl is not None and g.impl.get("self_adt") in cols and g.name == "new":
                news.append((f, t))
    by_fn = {}
    for f, t in news:
        by_fn.setdefault(f.id, []).append(t)
    two = [fid for fid, ts in by_fn.items() if len(ts) >= 2]
    ctx.decide(bool(two), rule, rule + ":screen-and-printer-are-two-objects", "-",
               "built in %s" % [prog.fns[x].name for x in two],
               "no function builds two printer objects any more: the screen and LPT1 cannot have a column each")
    # a file's printer lives in the per-handle record
    holders = []
    for a in prog.adts.values():
        if not a.get("local") or not a["path"].startswith("rusty_basic::"):
            continue
        for v in a["variants"]:
            for x in v["fields"]:
                if any(c.split("::")[-1] in x["ty"] for c in [prog.adt(k)["path"] for k in cols]) and a["id"] not in cols:
                    holders.append((a, x))
    fh = [(a, x) for a, x in holders if "File" in x["ty"]]
    ctx.decide(bool(fh) and not any(shared.search(x["ty"]) for _a, x in fh), rule, rule + ":file-printer-per-handle-record", "-",
               "held in %s" % ["%s.%s: %s" % (a["path"].split("::")[-1], x["name"], x["ty"]) for a, x in fh],
               "the printer of a file is %s" % ("shared: " + str([x["ty"] for _a, x in fh]) if fh else "not held in a per-file record"))
    ctx.require(rule, 6)


# ------------------------------------------------------------------ R7

def r7_number_frame(ctx, rule="C16.R7"):
    prog = ctx.prog
    from . import c02
    cands = []
    for f in prog.fns.values():
        if f.crate != "rusty_basic" or "interpreter::print" not in f.path or f.kind == "const" or common.is_derived(f):
            continue
        for sw in mir.enum_switches(prog, f.body):
            if sw.adt.endswith("::Variant") and {"VSingle", "VDouble", "VString", "VInteger", "VLong"} <= set(sw.arms):
                cands.append((f, sw))
    if len(cands) != 1:
        raise CheckError("%s: %d functions of the print module have an arm for each printable type of Variant" % (rule, len(cands)))
    f, sw = cands[0]
    body = f.body
    pv = mir.Prov(body)
    framers = set()
    for v in ("VSingle", "VDouble", "VInteger", "VLong"):
        key = "%s:%s:sign-flag" % (rule, v)
        if v not in sw.arms:
            ctx.violation(rule, key, f.loc, "no arm of its own for %s" % v)
            continue
        region = mir.arm_region(body, sw.bb, sw.arms[v])
        cands = []
        for _b, t in mir.region_calls(body, region):
            g = _resolve(prog, t)
            if g is None or g.crate != "rusty_basic":
                continue
            for a_ in t["args"]:
                pl = mir.op_place(a_)
                if (pl is not None and body.locals[pl[0]]["ty"] == "bool") or (a_.get("k") or {}).get("ty") == "bool":
                    cands.append((t, g, a_))
        if len(cands) != 1:
            ctx.unknown(rule, key, f.loc, "the %s arm does not call one routine with a bool flag" % v)
            continue
        t, g, flag_op = cands[0]
        framers.add(g.id)
        table = None
        c = _const_int(flag_op)
        if c is not None:
            table = (bool(c),) * 3
        else:
            o = mir.show_origin(pv.of_operand(flag_op))
            m = re.fullmatch(r"\((.+) (Ge|Gt|Le|Lt|Eq|Ne) (.+)\)", o)
            zero = re.compile(r"-?0(_[iu]\d+|_[iu]size|f32|f64)?")
            payload = re.compile(r"\(\*arg1 as %s\)\.0" % v)
            fn_ = {"Ge": lambda x, y: x >= y, "Gt": lambda x, y: x > y, "Le": lambda x, y: x <= y,
                   "Lt": lambda x, y: x < y, "Eq": lambda x, y: x == y, "Ne": lambda x, y: x != y}
            if m and payload.fullmatch(m.group(1)) and zero.fullmatch(m.group(3)):
                table = tuple(fn_[m.group(2)](x, 0) for x in (-1, 0, 1))
            elif m and payload.fullmatch(m.group(3)) and zero.fullmatch(m.group(1)):
                table = tuple(fn_[m.group(2)](0, x) for x in (-1, 0, 1))
        if table is None:
            ctx.unknown(rule, key, f.loc, "the sign flag of the %s arm is not a comparison of the payload with zero" % v)
        else:
            ctx.decide(table == (False, True, True), rule, key, f.loc, "flag = payload >= 0",
                       "the %s arm asks for the leading blank on (negative, zero, positive) = %s; a number that is not negative "
                       "is written with a leading blank, a negative one with its minus sign only" % (v, table))
    # strings verbatim
    key = rule + ":VString:verbatim"
    if "VString" in sw.arms:
        region = mir.arm_region(body, sw.bb, sw.arms["VString"])
        names = [mir.callee_path(t) for _b, t in mir.region_calls(body, region)]
        prints = [t for _b, t in mir.region_calls(body, region) if _is_printer_call(t, "print")]
        plain = all(n.endswith("::deref") or "Printer" in n or n.endswith(("as_str", "AsRef::as_ref", "Clone>::clone", "::clone", "to_owned", "to_string",
                                                                                "String::from", "From<&str>>::from", "ToOwned>::to_owned"))
                    for n in names)
        okv = plain and ((len(prints) == 1 and "as VString" in mir.show_origin(pv.of_operand(prints[0]["args"][1]))) or
                         (not prints and any("as VString" in mir.show_origin(pv.of_operand(a_)) for _b, t_ in mir.region_calls(body, region)
                                             for a_ in t_["args"])))
        ctx.decide(okv, rule, key, f.loc, "print(payload)",
                   "the VString arm does not hand the string itself to print (calls: %s)" % [n.split("::")[-1] for n in names])
    else:
        ctx.violation(rule, key, f.loc, "no arm of its own for VString")
    # the frames
    for fid in sorted(framers):
        g = prog.fns[fid]
        gb = g.body
        gpv = mir.Prov(gb)
        tmpls = []
        for b, t in gb.calls():
            cp = t.get("cpath") or ""
            if cp.startswith("std::fmt::Arguments") and cp.endswith("::new") and t["args"]:
                o = mir.strip_refs(gpv.of_operand(t["args"][0]))
                if o[0] == "const":
                    tmpls.append((b, c02.parse_fmt_template(o[1])))
        kinds = {mir.callee_path(t).split("::")[-1] for _b, t in gb.calls() if "fmt::rt::Argument" in (t.get("cpath") or "")}
        sws = [(b, blk["t"]) for b, blk in enumerate(gb.blocks) if blk["t"]["k"] == "switch" and not blk.get("c")
               and mir.show_origin(gpv.of_operand(blk["t"]["o"])).startswith("arg")]
        key = "%s:%s:frames" % (rule, g.name)
        if len(tmpls) != 2 or len(sws) != 1 or any(t is None for _b, t in tmpls):
            ctx.unknown(rule, key, g.loc, "%s does not choose between two format templates on its flag" % g.name)
            continue
        b, t = sws[0]
        zero = [tg for val, tg in t["ts"] if val == 0][0]
        r_true = gb.reachable(t["else"], avoid={zero})
        r_false = gb.reachable(zero, avoid={t["else"]})
        with_flag = [tm for bb, tm in tmpls if bb in r_true and bb not in r_false]
        without = [tm for bb, tm in tmpls if bb in r_false and bb not in r_true]
        want_t = [("lit", " "), ("arg", 0xc0), ("lit", " ")]
        want_f = [("arg", 0xc0), ("lit", " ")]
        okf = with_flag == [want_t] and without == [want_f] and kinds <= {"new_display"}
        ctx.decide(okf, rule, key, g.loc, "\" {} \" with the flag, \"{} \" without, plain Display",
                   "%s frames a number as %s with the flag and %s without it (formatters %s): the property prescribes one leading "
                   "blank for a number that is not negative, none for a negative one, and one trailing blank for both"
                   % (g.name, with_flag, without, sorted(kinds)))
    ctx.require(rule, 2, max_unknown=5)


def _is_zero(op):
    k = op.get("k") if isinstance(op, dict) else None
    if not k:
        return False
    if "int" in k:
        return k["int"] == 0
    return k.get("s") in ("0f32", "0f64", "-0f32", "-0f64")


# ------------------------------------------------------------------ R8

def r8_state_survives_user_code(ctx, rule="C16.R8"):
    """The device, file handle, format string and format cursor of the PRINT being executed live in the VM's
    PrintState from PrintSetPrinterType to PrintEnd.  Where the lowering evaluates a user expression in between
    (an item may call a FUNCTION, and a FUNCTION may PRINT), the state has to be kept per activation - held in a
    stack or in the call context - or the nested PRINT re-initialises it and the rest of the outer statement goes
    to the screen."""
    prog = ctx.prog
    gens = {f.id: f for f in prog.fns.values()
            if f.crate == "rusty_basic" and "instruction_generator" in f.path and f.kind != "const"
            and not common.is_derived(f)}

    def closure(f, depth=3, seen=None):
        seen = seen if seen is not None else set()
        if f.id in seen:
            return seen
        seen.add(f.id)
        if depth > 0:
            for _b, t in f.body.calls():
                g = _resolve(prog, t)
                if g is not None and g.id in gens:
                    closure(g, depth - 1, seen)
        return seen

    def sets_device(f):
        return any(s["k"] == "assign" and s["r"]["k"] == "agg" and (s["r"].get("adt") or "").endswith("::PrinterType")
                   for blk in f.body.blocks for s in blk["s"])

    def takes_expression(f):
        return any(re.search(r"\bExpression(Pos)?\b|Positioned<.*Expression", l["ty"]) for l in f.body.locals[1:1 + f.argc])

    ends = [(g, b) for g in gens.values() for b, blk in enumerate(g.body.blocks) for s in blk["s"]
            if s["k"] == "assign" and s["r"]["k"] == "agg" and (s["r"].get("adt") or "").endswith("::Instruction")
            and s["r"]["variant"] == "PrintEnd"]
    if not ends:
        raise CheckError("%s: no generator function emits PrintEnd" % rule)
    g, end_b = ends[0]
    body = g.body
    setters, evals = [], []
    for b, t in body.calls():
        h = _resolve(prog, t)
        if h is None or h.id not in gens:
            continue
        cl = [gens[x] for x in closure(h)]
        if any(sets_device(x) for x in cl):
            setters.append(b)
        if any(takes_expression(x) for x in cl):
            evals.append((b, h.name))
    if not setters:
        raise CheckError("%s: %s does not select the device before PrintEnd" % (rule, g.name))
    live = sorted({n for b, n in evals if any(b in body.reachable(sb) and b != sb for sb in setters)
                   and end_b in body.reachable(b)})
    interp = prog.adt("rusty_basic::interpreter::main::Interpreter")
    holders = [(x["name"], x["ty"]) for x in interp["variants"][0]["fields"] if "PrintState" in x["ty"]]
    per_activation = [n for n, t in holders if re.search(r"\bVec<|VecDeque<|Stack", t)]
    ctxs = [a for a in prog.adts.values() if a["path"].startswith("rusty_basic::interpreter::context")
            and any("PrintState" in x["ty"] for v in a["variants"] for x in v["fields"])]
    # a stack of states is only as good as its use: the start of a statement pushes onto it, the end pops from it
    used = {}
    if per_activation:
        one = ctx.anchor_method("Interpreter", "interpret_one")
        from .c05 import _arm_regions
        _sw, regions = _arm_regions(prog, one, "::Instruction")
        for arm, meth in (("PrintSetPrinterType", "push"), ("PrintEnd", "pop")):
            hit = False
            for h_, t_ in _region_deep_calls(prog, one, regions.get(arm, set()), depth=2):
                if (mir.callee_path(t_) or "").endswith("::" + meth) and t_["args"]:
                    hpv = mir.Prov(h_.body)
                    if common.receiver_field(hpv, t_) in per_activation:
                        hit = True
            used[arm] = hit
        if not all(used.values()):
            per_activation = []
    ctx.analysed_units(rule, lowering=g.path.split("::", 1)[1], user_code_between_device_and_end=live,
                       state_holders=["%s: %s" % h for h in holders])
    if not live:
        ctx.ok(rule, rule + ":print-state-survives-nested-PRINT", g.loc, "no user expression is evaluated between the "
               "device selection and PrintEnd")
    else:
        ctx.decide(bool(per_activation or ctxs), rule, rule + ":print-state-survives-nested-PRINT", g.loc,
                   "the state is kept per activation (%s)" % (per_activation or [a["path"] for a in ctxs]),
                   "%s evaluates user expressions (%s) after the device of the statement has been selected and before "
                   "PrintEnd, and the VM keeps the statement's state in one place (%s): an item that calls a FUNCTION which "
                   "PRINTs re-initialises it, so the rest of `PRINT #1, \"a\"; F$(1); \"b\"` goes to the screen and the "
                   "file never gets its line end%s" % (g.name, ", ".join(live), ", ".join("%s: %s" % h for h in holders) or "no field",
                                                       "" if not used else " (a stack of states exists, but the start of a statement pushes onto it: %s, "
                                                       "the end pops from it: %s)" % (used.get("PrintSetPrinterType"), used.get("PrintEnd"))))
    ctx.require(rule, 1)


def r10_format_is_reused_cyclically(ctx, rule="C16.R10"):
    """PRINT USING reuses its format cyclically: when a value is formatted, the cursor into the format is first taken
    modulo the length of the format, so that a value that comes after the last field starts again at the beginning.  In
    the method of PrintState that hands the cursor to the scanning routines together with the value (a Variant argument),
    `cursor = cursor % len` lies on every path to the first call that is given the cursor."""
    prog = ctx.prog
    a = prog.adt("rusty_basic::interpreter::print::PrintState")
    usz = [fl["name"] for fl in a["variants"][0]["fields"] if fl["ty"] == "usize"]
    if len(usz) != 1:
        ctx.unknown(rule, rule + ":cursor", "-", "PrintState has %d usize fields: which one is the format cursor is not decided" % len(usz))
        ctx.require(rule, 0, max_unknown=1)
        return
    cur = usz[0]
    n = 0
    for f in prog.methods_of("PrintState"):
        if f.kind == "closure":
            continue
        body = f.body
        if not any("Variant" in body.locals[i]["ty"] for i in range(1, f.argc + 1)):
            continue
        refs = {st["p"][0] for blk in body.blocks for st in blk["s"] if st["k"] == "assign" and not st["p"][1]
                and st["r"]["k"] == "ref" and _self_field(st["r"]["p"]) == cur}
        for _ in range(2):      # reborrows: _b = &mut *_a
            refs |= {st["p"][0] for blk in body.blocks for st in blk["s"] if st["k"] == "assign" and not st["p"][1]
                     and st["r"]["k"] == "ref" and st["r"]["p"][1] == ["*"] and st["r"]["p"][0] in refs}
        users = [b for b, t in body.calls() if any(mir.op_place(x) is not None and mir.op_place(x)[0] in refs and not mir.op_place(x)[1]
                                                    for x in t["args"])]
        if not users:
            continue
        n += 1
        mods = set()
        for b, blk in enumerate(body.blocks):
            if blk.get("c"):
                continue
            for st in blk["s"]:
                if st["k"] == "assign" and _self_field(st["p"]) == cur and st["r"]["k"] == "bin" and st["r"]["op"] == "Rem" \
                        and _self_field(mir.op_place(st["r"]["a"])) == cur:
                    mods.add(b)
        ok = bool(mods) and all(body.every_path_passes(0, {u}, mods) for u in users)
        ctx.decide(ok, rule, "%s:%s" % (rule, f.name), f.loc, "%s %%= len before the format is scanned" % cur,
                   "%s hands the cursor %s to the scanning routines without first taking it modulo the length of the format on "
                   "every path: a value that comes after the last field of the format does not start again at its beginning"
                   % (f.name, cur))
    ctx.require(rule, 1)


def r11_a_statement_starts_clean(ctx, rule="C16.R11"):
    """An error can end a PRINT statement before PrintEnd runs (PRINT "a"; 1 / Z under ON ERROR ... RESUME NEXT).  What
    the aborted statement left in the VM's print state must not reach the next one: every field a per-item operation
    (separator, value, format, handle) modifies is written by the routine that runs when a PRINT statement *starts* -
    the reset that selecting the printer performs - and not only by the one that runs when it ends."""
    prog = ctx.prog
    from .c01 import _fields_touched
    ms = {f.name: f for f in prog.methods_of("PrintState") if f.kind != "closure"}
    one = ctx.anchor_method("Interpreter", "interpret_one")
    from .c05 import _arm_regions
    _sw, regions = _arm_regions(prog, one, "::Instruction")
    if "PrintSetPrinterType" not in regions:
        raise CheckError("%s: interpret_one has no arm for PrintSetPrinterType" % rule)
    start = []
    for g, t in _region_deep_calls(prog, one, regions["PrintSetPrinterType"], depth=2):
        h = _resolve(prog, t)
        if h is not None and h.name in ms and h.id == ms[h.name].id:
            start.append(h)
    if not start:
        raise CheckError("%s: the arm of PrintSetPrinterType calls no PrintState method" % rule)
    # what the start of a statement writes: the methods the arm calls, and the PrintState methods those call
    written = set()
    seen = set()
    work = list(start)
    while work:
        h = work.pop()
        if h.id in seen:
            continue
        seen.add(h.id)
        written |= _fields_touched(h.body)
        for _b, t in h.body.calls():
            g = _resolve(prog, t)
            if g is not None and g.name in ms and g.id == ms[g.name].id:
                work.append(g)
    start_names = {prog.fns[i].name for i in seen}
    per_item = {}
    for v in ("PrintComma", "PrintSemicolon", "PrintValueFromA", "PrintSetFileHandle", "PrintSetFormatStringFromA"):
        if v not in regions:
            continue
        for g, t in _region_deep_calls(prog, one, regions[v], depth=2):
            h = _resolve(prog, t)
            if h is not None and h.name in ms and h.id == ms[h.name].id and h.name not in start_names:
                todo = [h]
                done = set()
                while todo:
                    x = todo.pop()
                    if x.id in done:
                        continue
                    done.add(x.id)
                    for fld in _fields_touched(x.body):
                        per_item.setdefault(fld, set()).add(x.name)
                    for _b, t2 in x.body.calls():
                        y = _resolve(prog, t2)
                        if y is not None and y.name in ms and y.id == ms[y.name].id and y.name not in start_names:
                            todo.append(y)
    if len(per_item) < 3:
        raise CheckError("%s: only %d PrintState fields recognised as modified per item" % (rule, len(per_item)))
    for fld in sorted(per_item):
        ctx.decide(fld in written, rule, "%s:PrintState.%s" % (rule, fld), start[0].loc,
                   "written when a statement starts (%s)" % sorted(start_names),
                   "PrintState.%s is modified by %s but not written when a PRINT statement starts (%s): what a statement that "
                   "an error ended early left there reaches the next PRINT (`PRINT \"a\"; 1 / Z` under RESUME NEXT, then a bare "
                   "PRINT: no line end)" % (fld, sorted(per_item[fld]), sorted(start_names)))
    # the same for what the VM itself keeps between the instructions of a PRINT (a text buffer, a cursor ...): every
    # field of the interpreter that the per-item arms write - the devices and the print state apart - is written when a
    # statement starts
    def arm_fields(arm):
        out = set()
        seen_ = set()
        todo = []
        for _b, t in mir.region_calls(one.body, regions.get(arm, set())):
            h = _resolve(prog, t)
            if h is not None and h.crate == "rusty_basic" and h.impl is not None and one.impl is not None \
                    and h.impl.get("self_adt") == one.impl.get("self_adt"):
                todo.append(h)
        for b in regions.get(arm, set()):
            for st in one.body.blocks[b]["s"]:
                if st["k"] == "assign":
                    n_ = _self_field(st["p"])
                    if n_:
                        out.add(n_)
                    if st["r"]["k"] == "ref" and st["r"].get("mut"):
                        n2 = _self_field(st["r"]["p"])
                        if n2:
                            out.add(n2)
        while todo:
            h = todo.pop()
            if h.id in seen_:
                continue
            seen_.add(h.id)
            for blk in h.body.blocks:
                if blk.get("c"):
                    continue
                for st in blk["s"]:
                    if st["k"] == "assign":
                        n_ = _self_field(st["p"])
                        if n_:
                            out.add(n_)
                        if st["r"]["k"] == "ref" and st["r"].get("mut"):
                            n2 = _self_field(st["r"]["p"])
                            if n2:
                                out.add(n2)
            for _b, t in h.body.calls():
                g2 = _resolve(prog, t)
                if g2 is not None and g2.crate == "rusty_basic" and g2.impl is not None and g2.impl.get("self_adt") == h.impl.get("self_adt"):
                    todo.append(g2)
        return out
    devices_ = {"stdout", "lpt1", "file_manager"}
    interp = prog.adt("rusty_basic::interpreter::main::Interpreter")
    state_holder = {x["name"] for x in interp["variants"][0]["fields"] if "PrintState" in x["ty"]}
    start_w = arm_fields("PrintSetPrinterType")
    item_w = {}
    for v in ("PrintComma", "PrintSemicolon", "PrintValueFromA"):
        for fld in arm_fields(v):
            item_w.setdefault(fld, set()).add(v)
    for fld in sorted(item_w):
        if fld in devices_ or fld in state_holder:
            continue
        ctx.decide(fld in start_w, rule, "%s:Interpreter.%s" % (rule, fld), one.loc, "written when a statement starts",
                   "the interpreter's `%s` is written while the items of a PRINT are executed (%s) but not when a PRINT statement "
                   "starts: what a statement that an error ended early left there comes out in the next PRINT - on whatever device "
                   "that one prints to" % (fld, sorted(item_w[fld])))
    ctx.require(rule, 4)


def r12_text_is_read_by_characters(ctx, rule="C16.R12"):
    """A character of a BASIC string (codes 0..255) is one `char` of the Rust string but up to two bytes of its UTF-8
    form.  The PRINT machinery - the format scanners of PRINT USING, the number framing, the printers' column counters -
    reads text by characters: no function of the print modules asks a string for its UTF-8 bytes (`as_bytes`, `bytes`,
    `into_bytes`, `len` is C16.R5's business) to make characters of them, and none casts a `u8` to a `char`.  The one
    place where text becomes bytes is the advancing routine that hands it to the writer."""
    prog = ctx.prog
    from .c18 import _UTF8_BYTES
    _tr, impls = _printer_impls(prog)
    writers = set()
    for imp, ms in impls:
        for h in prog.fns.values():
            if h.impl is not None and h.impl.get("self_adt") == imp["self_adt"] and any(
                    (mir.callee_path(t) in WRITE_CALLS or (t.get("callee") or "") in WRITE_CALLS) for _b, t in h.body.calls()):
                writers.add(h.id)
    fns = [f for f in prog.fns.values() if f.crate == "rusty_basic" and f.kind != "const" and f.file
           and f.file.endswith(("interpreter/print.rs", "interpreter/write_printer.rs"))]
    if len(fns) < 10:
        raise CheckError("%s: the print modules were not found (%d functions)" % (rule, len(fns)))
    bad = {}
    for f in fns:
        owner = prog.enclosing_fn(f) or f
        for blk in f.body.blocks:
            if blk.get("c"):
                continue
            for st in blk["s"]:
                r = st.get("r", {})
                if st["k"] == "assign" and r.get("k") == "cast":
                    so = mir.op_place(r["o"])
                    sty = f.body.locals[so[0]]["ty"] if so is not None and not so[1] else ""
                    dty = f.body.locals[st["p"][0]]["ty"] if not st["p"][1] else (r.get("ty") or "")
                    if sty == "u8" and dty == "char":
                        bad.setdefault(owner.id, []).append("casts a byte to a character (line %s)" % st.get("ln"))
        if owner.id in writers:
            continue
        for _b, t in f.body.calls():
            cp = t.get("cpath") or ""
            if cp.split("::")[-1] in _UTF8_BYTES and ("str" in cp or "String" in cp or "string" in cp):
                bad.setdefault(owner.id, []).append("%s (line %s)" % (cp.split("::")[-1], t.get("ln")))
    owners = sorted({(prog.enclosing_fn(f) or f).id for f in fns})
    for oid in owners:
        o = prog.fns[oid]
        short = o.path.split("::", 1)[1]
        if oid in bad:
            ctx.violation(rule, "%s:%s" % (rule, short), o.loc,
                          "%s reads text through its UTF-8 bytes - %s: a character above 127 (CHR$(156) in a PRINT USING format) is "
                          "taken for two characters, printed as two, and counted as two columns" % (short, "; ".join(sorted(set(bad[oid]))[:3])))
    ctx.ok(rule, rule + ":print-modules-scanned", "-", "%d functions of the print modules, %d read text by characters" % (len(owners), len(owners) - len(bad)))
    ctx.analysed_units(rule, functions=len(owners), byte_writers=sorted(prog.fns[w].name for w in writers))
    ctx.require(rule, 1)


def run(ctx):
    common.install(ctx)
    devices = r1_device_dispatch(ctx)
    r2_lowering(ctx)
    state_fns = r3_vm_arms(ctx)
    r4_flag_machine(ctx, state_fns)
    cols = r5_column(ctx)
    r6_per_device(ctx, cols, devices)
    r7_number_frame(ctx)
    r8_state_survives_user_code(ctx)
    # the format cursor, the format and the device of a PRINT belong to that statement: every field a per-item
    # operation modifies is written again when the next statement starts or this one ends (shared with C01.R5)
    from . import c01
    c01.r5_print_state_is_statement_scoped(ctx, "C16.R9")
    r10_format_is_reused_cyclically(ctx)
    r11_a_statement_starts_clean(ctx)
    r12_text_is_read_by_characters(ctx)
