//! mirfacts: a rustc_private driver that serializes the type-checked program
//! (MIR bodies, ADTs, traits, impls) of every workspace crate to JSON.
//! It contains no rule logic. Rules live in /verif/rbv (Python).
//!
//! Invoked as RUSTC_WORKSPACE_WRAPPER: argv[1] is the real rustc path (dropped).
//! Output: $MIRFACTS_OUT/<crate_name>.json, one write per process.
#![feature(rustc_private)]
#![allow(clippy::all)]

extern crate rustc_abi;
extern crate rustc_driver;
extern crate rustc_hir;
extern crate rustc_interface;
extern crate rustc_middle;
extern crate rustc_session;
extern crate rustc_span;

mod json;

use json::J;
use rustc_driver::{Callbacks, Compilation};
use rustc_hir::def::DefKind;
use rustc_hir::def_id::{DefId, LocalDefId, LOCAL_CRATE};
use rustc_middle::mir::{
    self, AggregateKind, BasicBlockData, Body, Operand, Place, ProjectionElem, Rvalue,
    StatementKind, TerminatorKind, UnwindAction, VarDebugInfoContents,
};
use rustc_middle::ty::print::with_no_trimmed_paths;
use rustc_middle::ty::{self, Instance, Ty, TyCtxt, TypingEnv};
use rustc_span::Span;
use std::collections::BTreeMap;

struct Facts;

impl Callbacks for Facts {
    fn after_analysis<'tcx>(
        &mut self,
        _compiler: &rustc_interface::interface::Compiler,
        tcx: TyCtxt<'tcx>,
    ) -> Compilation {
        let out_dir = match std::env::var("MIRFACTS_OUT") {
            Ok(d) => d,
            Err(_) => return Compilation::Continue,
        };
        let only: Option<Vec<String>> = std::env::var("MIRFACTS_CRATES")
            .ok()
            .map(|s| s.split(',').map(|x| x.to_string()).collect());
        let krate = tcx.crate_name(LOCAL_CRATE).to_string();
        if let Some(only) = &only {
            if !only.contains(&krate) {
                return Compilation::Continue;
            }
        }
        // build scripts and proc macros are not part of the analysed program
        if krate == "build_script_build" {
            return Compilation::Continue;
        }
        let mut cx = Cx {
            tcx,
            adts: BTreeMap::new(),
        };
        let doc = cx.dump_crate(&krate);
        let is_bin = tcx
            .crate_types()
            .iter()
            .any(|t| matches!(t, rustc_session::config::CrateType::Executable));
        let path = if is_bin {
            format!("{}/{}.bin.json", out_dir, krate)
        } else {
            format!("{}/{}.json", out_dir, krate)
        };
        let tmp = format!("{}.tmp{}", path, std::process::id());
        std::fs::write(&tmp, doc.to_string()).expect("write facts");
        std::fs::rename(&tmp, &path).expect("rename facts");
        Compilation::Continue
    }
}

struct Cx<'tcx> {
    tcx: TyCtxt<'tcx>,
    adts: BTreeMap<String, J>,
}

impl<'tcx> Cx<'tcx> {
    fn cid(&self, did: DefId) -> String {
        format!(
            "{}{}",
            self.tcx.crate_name(did.krate),
            self.tcx.def_path(did).to_string_no_crate_verbose()
        )
    }

    fn pretty(&self, did: DefId) -> String {
        let s = with_no_trimmed_paths!(self.tcx.def_path_str(did));
        if did.is_local() {
            format!("{}::{}", self.tcx.crate_name(LOCAL_CRATE), s)
        } else {
            s
        }
    }

    fn ty_str(&self, ty: Ty<'tcx>) -> String {
        with_no_trimmed_paths!(ty.to_string())
    }

    fn span_info(&self, span: Span) -> (String, usize, usize, Vec<String>) {
        let sm = self.tcx.sess.source_map();
        let mut macros = vec![];
        if span.from_expansion() {
            for e in span.macro_backtrace() {
                macros.push(format!("{}", e.kind.descr()));
            }
        }
        let cs = span.source_callsite();
        let lo = sm.lookup_char_pos(cs.lo());
        let hi = sm.lookup_char_pos(cs.hi());
        let file = match &lo.file.name {
            rustc_span::FileName::Real(r) => match r.local_path() {
                Some(p) => p.display().to_string(),
                None => format!("{:?}", lo.file.name),
            },
            other => format!("{:?}", other),
        };
        (file, lo.line, hi.line, macros)
    }

    fn top_adt(&mut self, ty: Ty<'tcx>) -> Option<String> {
        let mut t = ty;
        loop {
            match t.kind() {
                ty::Ref(_, inner, _) => t = *inner,
                ty::RawPtr(inner, _) => t = *inner,
                ty::Adt(def, args) => {
                    if def.is_box() {
                        t = args.type_at(0);
                        continue;
                    }
                    let id = self.cid(def.did());
                    self.note_adt(*def);
                    return Some(id);
                }
                _ => return None,
            }
        }
    }

    fn adts_in(&mut self, ty: Ty<'tcx>, out: &mut Vec<String>) {
        for arg in ty.walk() {
            if let Some(t) = arg.as_type() {
                if let ty::Adt(def, _) = t.kind() {
                    let id = self.cid(def.did());
                    if !out.contains(&id) {
                        out.push(id);
                    }
                }
            }
        }
    }

    fn note_adt(&mut self, def: ty::AdtDef<'tcx>) {
        let id = self.cid(def.did());
        if self.adts.contains_key(&id) {
            return;
        }
        self.adts.insert(id.clone(), J::Null); // placeholder against recursion
        let tcx = self.tcx;
        let mut variants = vec![];
        let is_enum = def.is_enum();
        let local = def.did().is_local();
        for (vi, v) in def.variants().iter_enumerated() {
            let mut fields = vec![];
            // field types of foreign generic ADTs are rarely needed; keep names only
            for f in v.fields.iter() {
                let mut o = J::obj();
                o.set("name", J::s(f.name.as_str()));
                if local {
                    let fty = tcx.type_of(f.did).instantiate_identity().skip_norm_wip();
                    o.set("ty", J::s(&self.ty_str(fty)));
                    let mut mentioned = vec![];
                    self.adts_in(fty, &mut mentioned);
                    o.set("adts", J::Arr(mentioned.iter().map(|s| J::s(s)).collect()));
                }
                fields.push(o);
            }
            let mut vo = J::obj();
            vo.set("name", J::s(v.name.as_str()));
            vo.set("idx", J::Int(vi.as_u32() as i128));
            if is_enum {
                let d = def.discriminant_for_variant(tcx, vi);
                vo.set("discr", J::Int(d.val as i128));
            }
            vo.set("fields", J::Arr(fields));
            variants.push(vo);
        }
        let mut o = J::obj();
        o.set("id", J::s(&id));
        o.set("path", J::s(&self.pretty(def.did())));
        o.set(
            "kind",
            J::s(if def.is_enum() {
                "enum"
            } else if def.is_union() {
                "union"
            } else {
                "struct"
            }),
        );
        o.set("local", J::Bool(local));
        if local {
            let (file, line, end, _) = self.span_info(tcx.def_span(def.did()));
            o.set("file", J::s(&file));
            o.set("line", J::Int(line as i128));
            o.set("end_line", J::Int(end as i128));
        }
        o.set("variants", J::Arr(variants));
        self.adts.insert(id, o);
    }

    fn dump_crate(&mut self, krate: &str) -> J {
        let tcx = self.tcx;
        let mut fns = vec![];
        let mut traits = vec![];
        let mut impls = vec![];
        for ldid in tcx.hir_body_owners() {
            let did = ldid.to_def_id();
            let kind = tcx.def_kind(did);
            match kind {
                DefKind::Fn | DefKind::AssocFn | DefKind::Closure => {
                    if tcx.is_constructor(did) {
                        continue;
                    }
                    let body = tcx.optimized_mir(did);
                    fns.push(self.dump_fn(ldid, kind, body));
                }
                DefKind::Const { .. } | DefKind::Static { .. } | DefKind::AssocConst { .. } => {
                    let body = tcx.mir_for_ctfe(did);
                    fns.push(self.dump_fn(ldid, kind, body));
                }
                _ => {}
            }
        }
        for ldid in tcx.hir_crate_items(()).definitions() {
            let did = ldid.to_def_id();
            match tcx.def_kind(did) {
                DefKind::Struct | DefKind::Enum | DefKind::Union => {
                    let def = tcx.adt_def(did);
                    self.note_adt(def);
                }
                DefKind::Trait => {
                    let mut o = J::obj();
                    o.set("id", J::s(&self.cid(did)));
                    o.set("path", J::s(&self.pretty(did)));
                    let mut items = vec![];
                    for it in tcx.associated_items(did).in_definition_order() {
                        if !it.is_fn() {
                            continue;
                        }
                        let mut io = J::obj();
                        io.set("name", J::s(it.name().as_str()));
                        io.set("id", J::s(&self.cid(it.def_id)));
                        io.set("has_default", J::Bool(it.defaultness(tcx).has_value()));
                        items.push(io);
                    }
                    o.set("items", J::Arr(items));
                    let supers: Vec<J> = tcx
                        .explicit_super_predicates_of(did)
                        .iter_identity_copied()
                        .map(|x| x.skip_norm_wip())
                        .filter_map(|(c, _)| c.as_trait_clause())
                        .map(|tc| J::s(&self.cid(tc.def_id())))
                        .collect();
                    o.set("supers", J::Arr(supers));
                    traits.push(o);
                }
                DefKind::Impl { .. } => {
                    let mut o = J::obj();
                    o.set("id", J::s(&self.cid(did)));
                    let self_ty = tcx.type_of(did).instantiate_identity().skip_norm_wip();
                    o.set("self_ty", J::s(&self.ty_str(self_ty)));
                    match self.top_adt(self_ty) {
                        Some(a) => o.set("self_adt", J::s(&a)),
                        None => o.set("self_adt", J::Null),
                    }
                    if let Some(tr) = tcx.impl_opt_trait_ref(did) {
                        let tr = tr.instantiate_identity().skip_norm_wip();
                        o.set("trait", J::s(&self.cid(tr.def_id)));
                        o.set("trait_ref", J::s(&with_no_trimmed_paths!(tr.to_string())));
                    } else {
                        o.set("trait", J::Null);
                    }
                    let (file, line, _, _) = self.span_info(tcx.def_span(did));
                    o.set("file", J::s(&file));
                    o.set("line", J::Int(line as i128));
                    let mut items = vec![];
                    for it in tcx.associated_items(did).in_definition_order() {
                        if !it.is_fn() {
                            continue;
                        }
                        let mut io = J::obj();
                        io.set("name", J::s(it.name().as_str()));
                        io.set("id", J::s(&self.cid(it.def_id)));
                        match it.trait_item_def_id() {
                            Some(t) => io.set("trait_item", J::s(&self.cid(t))),
                            None => io.set("trait_item", J::Null),
                        }
                        items.push(io);
                    }
                    o.set("items", J::Arr(items));
                    impls.push(o);
                }
                _ => {}
            }
        }
        let mut doc = J::obj();
        doc.set("crate", J::s(krate));
        doc.set("functions", J::Arr(fns));
        doc.set("traits", J::Arr(traits));
        doc.set("impls", J::Arr(impls));
        let adts: Vec<J> = std::mem::take(&mut self.adts).into_values().collect();
        doc.set("adts", J::Arr(adts));
        doc
    }

    fn dump_fn(&mut self, ldid: LocalDefId, kind: DefKind, body: &'tcx Body<'tcx>) -> J {
        let tcx = self.tcx;
        let did = ldid.to_def_id();
        let mut o = J::obj();
        o.set("id", J::s(&self.cid(did)));
        o.set("path", J::s(&self.pretty(did)));
        o.set(
            "kind",
            J::s(match kind {
                DefKind::Fn => "fn",
                DefKind::AssocFn => "assoc_fn",
                DefKind::Closure => "closure",
                _ => "const",
            }),
        );
        let parent = tcx.parent(did);
        o.set("parent", J::s(&self.cid(parent)));
        if kind == DefKind::AssocFn {
            if let Some(it) = tcx.opt_associated_item(did) {
                match it.trait_item_def_id() {
                    Some(t) if t != did => o.set("trait_item", J::s(&self.cid(t))),
                    _ => o.set("trait_item", J::Null),
                }
            }
            match tcx.def_kind(parent) {
                DefKind::Impl { .. } => o.set("container", J::s("impl")),
                DefKind::Trait => o.set("container", J::s("trait")),
                _ => {}
            }
        }
        if kind == DefKind::Closure {
            let caps: Vec<J> = tcx
                .closure_captures(ldid)
                .iter()
                .map(|c| J::s(&c.to_string(tcx)))
                .collect();
            o.set("captures", J::Arr(caps));
        }
        let (file, line, end, _) = self.span_info(tcx.def_span(did));
        o.set("file", J::s(&file));
        o.set("line", J::Int(line as i128));
        let (_, _, bend, _) = self.span_info(body.span);
        o.set("end_line", J::Int(std::cmp::max(end, bend) as i128));
        o.set("argc", J::Int(body.arg_count as i128));
        let tenv = TypingEnv::post_analysis(tcx, did);
        o.set("body", self.dump_body(body, tenv));
        if matches!(kind, DefKind::Fn | DefKind::AssocFn | DefKind::Closure) {
            let promoted = tcx.promoted_mir(did);
            let ps: Vec<J> = promoted.iter().map(|b| self.dump_body(b, tenv)).collect();
            o.set("promoted", J::Arr(ps));
        }
        o
    }

    fn dump_body(&mut self, body: &Body<'tcx>, tenv: TypingEnv<'tcx>) -> J {
        let mut o = J::obj();
        let mut locals = vec![];
        for (_l, decl) in body.local_decls.iter_enumerated() {
            let mut lo = J::obj();
            lo.set("ty", J::s(&self.ty_str(decl.ty)));
            match self.top_adt(decl.ty) {
                Some(a) => lo.set("adt", J::s(&a)),
                None => lo.set("adt", J::Null),
            }
            locals.push(lo);
        }
        o.set("locals", J::Arr(locals));
        let mut names = vec![];
        for vdi in body.var_debug_info.iter() {
            if let VarDebugInfoContents::Place(p) = &vdi.value {
                let mut no = J::obj();
                no.set("name", J::s(vdi.name.as_str()));
                no.set("place", self.place(body, *p));
                names.push(no);
            }
        }
        o.set("vars", J::Arr(names));
        let blocks: Vec<J> = body
            .basic_blocks
            .iter()
            .map(|bb| self.block(body, bb, tenv))
            .collect();
        o.set("blocks", J::Arr(blocks));
        o
    }

    fn place(&mut self, body: &Body<'tcx>, place: Place<'tcx>) -> J {
        let tcx = self.tcx;
        let mut proj = vec![];
        for (base, elem) in place.iter_projections() {
            let j = match elem {
                ProjectionElem::Deref => J::s("*"),
                ProjectionElem::Field(f, _) => {
                    let bty = base.ty(&body.local_decls, tcx);
                    let mut fo = J::obj();
                    fo.set("f", J::Int(f.as_u32() as i128));
                    match bty.ty.kind() {
                        ty::Adt(def, _) => {
                            let v = match bty.variant_index {
                                Some(v) => v,
                                None => rustc_abi::FIRST_VARIANT,
                            };
                            let name = def.variant(v).fields[f].name;
                            fo.set("n", J::s(name.as_str()));
                            if !def.is_box() {
                                fo.set("a", J::s(&self.cid(def.did())));
                                fo.set("v", J::s(def.variant(v).name.as_str()));
                            }
                        }
                        ty::Closure(cdid, _) => {
                            if let Some(l) = cdid.as_local() {
                                let caps = tcx.closure_captures(l);
                                if let Some(c) = caps.get(f.as_usize()) {
                                    fo.set("n", J::s(&c.to_string(tcx)));
                                }
                            }
                        }
                        _ => {}
                    }
                    fo
                }
                ProjectionElem::Downcast(name, vi) => {
                    let mut d = J::obj();
                    match name {
                        Some(n) => d.set("d", J::s(n.as_str())),
                        None => d.set("d", J::s(&format!("#{}", vi.as_u32()))),
                    }
                    d.set("vi", J::Int(vi.as_u32() as i128));
                    d
                }
                ProjectionElem::Index(l) => {
                    let mut d = J::obj();
                    d.set("i", J::Int(l.as_u32() as i128));
                    d
                }
                ProjectionElem::ConstantIndex {
                    offset, from_end, ..
                } => {
                    let mut d = J::obj();
                    d.set("ci", J::Int(offset as i128));
                    d.set("from_end", J::Bool(from_end));
                    d
                }
                ProjectionElem::Subslice { .. } => J::s("subslice"),
                _ => J::s("other"),
            };
            proj.push(j);
        }
        J::Arr(vec![J::Int(place.local.as_u32() as i128), J::Arr(proj)])
    }

    fn operand(&mut self, body: &Body<'tcx>, op: &Operand<'tcx>, tenv: TypingEnv<'tcx>) -> J {
        let tcx = self.tcx;
        let mut o = J::obj();
        match op {
            Operand::Copy(p) => o.set("c", self.place(body, *p)),
            Operand::Move(p) => o.set("m", self.place(body, *p)),
            Operand::Constant(c) => {
                let mut k = J::obj();
                let ty = c.const_.ty();
                k.set("ty", J::s(&self.ty_str(ty)));
                k.set("s", J::s(&with_no_trimmed_paths!(format!("{}", c.const_))));
                if let ty::FnDef(fdid, gargs) = ty.kind() {
                    k.set("fn", J::s(&self.cid(*fdid)));
                    k.set("fnpath", J::s(&self.pretty(*fdid)));
                    k.set(
                        "gargs",
                        J::Arr(
                            gargs
                                .iter()
                                .map(|a| J::s(&with_no_trimmed_paths!(a.to_string())))
                                .collect(),
                        ),
                    );
                }
                if let Some(a) = self.top_adt(ty) {
                    k.set("adt", J::s(&a));
                }
                if ty.is_integral() || ty.is_bool() || ty.is_char() {
                    if let Some(si) = c.const_.try_eval_scalar_int(tcx, tenv) {
                        let size = si.size();
                        if ty.is_signed() {
                            k.set("int", J::Int(si.to_int(size)));
                        } else {
                            k.set("int", J::Int(si.to_uint(size) as i128));
                        }
                    }
                }
                // promoted reference: `const _` with Unevaluated promoted
                if let mir::Const::Unevaluated(uv, _) = c.const_ {
                    if let Some(p) = uv.promoted {
                        k.set("promoted", J::Int(p.as_u32() as i128));
                    } else {
                        k.set("const_def", J::s(&self.cid(uv.def)));
                    }
                }
                o.set("k", k);
            }
            _ => o.set("other", J::s(&format!("{:?}", op))),
        }
        o
    }

    fn rvalue(&mut self, body: &Body<'tcx>, rv: &Rvalue<'tcx>, tenv: TypingEnv<'tcx>) -> J {
        let mut o = J::obj();
        match rv {
            Rvalue::Use(op, ..) => {
                o.set("k", J::s("use"));
                o.set("o", self.operand(body, op, tenv));
            }
            Rvalue::Ref(_, bk, p) => {
                o.set("k", J::s("ref"));
                o.set("mut", J::Bool(matches!(bk, mir::BorrowKind::Mut { .. })));
                o.set("p", self.place(body, *p));
            }
            Rvalue::RawPtr(_, p) => {
                o.set("k", J::s("rawptr"));
                o.set("p", self.place(body, *p));
            }
            Rvalue::Discriminant(p) => {
                o.set("k", J::s("discr"));
                o.set("p", self.place(body, *p));
                let pty = p.ty(&body.local_decls, self.tcx).ty;
                o.set("ty", J::s(&self.ty_str(pty)));
                match self.top_adt(pty) {
                    Some(a) => o.set("adt", J::s(&a)),
                    None => o.set("adt", J::Null),
                }
            }
            Rvalue::CopyForDeref(p) => {
                o.set("k", J::s("copyderef"));
                o.set("p", self.place(body, *p));
            }
            Rvalue::BinaryOp(op, ab) => {
                o.set("k", J::s("bin"));
                o.set("op", J::s(&format!("{:?}", op)));
                o.set("a", self.operand(body, &ab.0, tenv));
                o.set("b", self.operand(body, &ab.1, tenv));
            }
            Rvalue::UnaryOp(op, a) => {
                o.set("k", J::s("un"));
                o.set("op", J::s(&format!("{:?}", op)));
                o.set("o", self.operand(body, a, tenv));
            }
            Rvalue::Cast(ck, a, ty) => {
                o.set("k", J::s("cast"));
                o.set("ck", J::s(&format!("{:?}", ck)));
                o.set("o", self.operand(body, a, tenv));
                o.set("ty", J::s(&self.ty_str(*ty)));
            }
            Rvalue::Repeat(a, _) => {
                o.set("k", J::s("repeat"));
                o.set("o", self.operand(body, a, tenv));
            }
            Rvalue::Aggregate(kind, ops) => {
                o.set("k", J::s("agg"));
                match &**kind {
                    AggregateKind::Array(_) => o.set("a", J::s("array")),
                    AggregateKind::Tuple => o.set("a", J::s("tuple")),
                    AggregateKind::Adt(adid, vi, _, _, _) => {
                        o.set("a", J::s("adt"));
                        let def = self.tcx.adt_def(*adid);
                        self.note_adt(def);
                        o.set("adt", J::s(&self.cid(*adid)));
                        o.set("variant", J::s(def.variant(*vi).name.as_str()));
                        o.set("vi", J::Int(vi.as_u32() as i128));
                    }
                    AggregateKind::Closure(cdid, _) => {
                        o.set("a", J::s("closure"));
                        o.set("def", J::s(&self.cid(*cdid)));
                    }
                    _ => o.set("a", J::s("other")),
                }
                let opsj: Vec<J> = ops.iter().map(|x| self.operand(body, x, tenv)).collect();
                o.set("ops", J::Arr(opsj));
            }
            other => {
                o.set("k", J::s("other"));
                o.set("s", J::s(&format!("{:?}", other)));
            }
        }
        o
    }

    fn set_span(&self, o: &mut J, span: Span) {
        let (_file, line, _end, macros) = self.span_info(span);
        o.set("ln", J::Int(line as i128));
        if !macros.is_empty() {
            o.set("mx", J::Arr(macros.iter().map(|m| J::s(m)).collect()));
        }
    }

    fn block(&mut self, body: &Body<'tcx>, bb: &BasicBlockData<'tcx>, tenv: TypingEnv<'tcx>) -> J {
        let tcx = self.tcx;
        let mut o = J::obj();
        if bb.is_cleanup {
            o.set("c", J::Bool(true));
        }
        let mut stmts = vec![];
        for st in bb.statements.iter() {
            match &st.kind {
                StatementKind::Assign(b) => {
                    let (p, rv) = &**b;
                    let mut so = J::obj();
                    so.set("k", J::s("assign"));
                    so.set("p", self.place(body, *p));
                    so.set("r", self.rvalue(body, rv, tenv));
                    self.set_span(&mut so, st.source_info.span);
                    stmts.push(so);
                }
                StatementKind::SetDiscriminant {
                    place,
                    variant_index,
                } => {
                    let mut so = J::obj();
                    so.set("k", J::s("setdiscr"));
                    so.set("p", self.place(body, **place));
                    so.set("vi", J::Int(variant_index.as_u32() as i128));
                    self.set_span(&mut so, st.source_info.span);
                    stmts.push(so);
                }
                _ => {}
            }
        }
        o.set("s", J::Arr(stmts));
        let term = bb.terminator();
        let mut t = J::obj();
        self.set_span(&mut t, term.source_info.span);
        let unwind_bb = |u: &UnwindAction| match u {
            UnwindAction::Cleanup(b) => J::Int(b.as_u32() as i128),
            _ => J::Null,
        };
        match &term.kind {
            TerminatorKind::Goto { target } => {
                t.set("k", J::s("goto"));
                t.set("t", J::Int(target.as_u32() as i128));
            }
            TerminatorKind::SwitchInt { discr, targets } => {
                t.set("k", J::s("switch"));
                t.set("o", self.operand(body, discr, tenv));
                t.set("ty", J::s(&self.ty_str(discr.ty(&body.local_decls, tcx))));
                let ts: Vec<J> = targets
                    .iter()
                    .map(|(v, b)| J::Arr(vec![J::Int(v as i128), J::Int(b.as_u32() as i128)]))
                    .collect();
                t.set("ts", J::Arr(ts));
                t.set("else", J::Int(targets.otherwise().as_u32() as i128));
            }
            TerminatorKind::Return => t.set("k", J::s("return")),
            TerminatorKind::Unreachable => t.set("k", J::s("unreachable")),
            TerminatorKind::UnwindResume => t.set("k", J::s("resume")),
            TerminatorKind::UnwindTerminate(_) => t.set("k", J::s("terminate")),
            TerminatorKind::Drop { place, target, .. } => {
                t.set("k", J::s("drop"));
                t.set("p", self.place(body, *place));
                t.set("t", J::Int(target.as_u32() as i128));
            }
            TerminatorKind::Assert {
                cond,
                expected,
                msg,
                target,
                ..
            } => {
                t.set("k", J::s("assert"));
                t.set("o", self.operand(body, cond, tenv));
                t.set("exp", J::Bool(*expected));
                let m = format!("{:?}", msg);
                let m = m.split('(').next().unwrap_or("").to_string();
                t.set("msg", J::s(&m));
                t.set("t", J::Int(target.as_u32() as i128));
            }
            TerminatorKind::Call {
                func,
                args,
                destination,
                target,
                unwind,
                fn_span,
                ..
            } => {
                t.set("k", J::s("call"));
                t.set("f", self.operand(body, func, tenv));
                let fty = func.ty(&body.local_decls, tcx);
                if let ty::FnDef(fdid, gargs) = fty.kind() {
                    t.set("callee", J::s(&self.cid(*fdid)));
                    t.set("cpath", J::s(&self.pretty(*fdid)));
                    // the trait this method belongs to, if any
                    if let Some(tr) = tcx.trait_of_assoc(*fdid) {
                        t.set("ctrait", J::s(&self.cid(tr)));
                    }
                    if let Ok(Some(inst)) = Instance::try_resolve(tcx, tenv, *fdid, gargs) {
                        let rd = inst.def_id();
                        if rd != *fdid {
                            t.set("res", J::s(&self.cid(rd)));
                            t.set("rpath", J::s(&self.pretty(rd)));
                        }
                    }
                    if let Some(first) = gargs.types().next() {
                        t.set("self_ty", J::s(&self.ty_str(first)));
                        if let Some(a) = self.top_adt(first) {
                            t.set("self_adt", J::s(&a));
                        }
                    }
                }
                let a: Vec<J> = args
                    .iter()
                    .map(|x| self.operand(body, &x.node, tenv))
                    .collect();
                t.set("args", J::Arr(a));
                t.set("d", self.place(body, *destination));
                match target {
                    Some(b) => t.set("t", J::Int(b.as_u32() as i128)),
                    None => t.set("t", J::Null),
                }
                t.set("u", unwind_bb(unwind));
                let (_, fl, _, _) = self.span_info(*fn_span);
                t.set("fln", J::Int(fl as i128));
            }
            TerminatorKind::FalseEdge { real_target, .. } => {
                t.set("k", J::s("goto"));
                t.set("t", J::Int(real_target.as_u32() as i128));
            }
            TerminatorKind::FalseUnwind { real_target, .. } => {
                t.set("k", J::s("goto"));
                t.set("t", J::Int(real_target.as_u32() as i128));
            }
            other => {
                t.set("k", J::s("other"));
                t.set("s", J::s(&format!("{:?}", other)));
            }
        }
        o.set("t", t);
        o
    }
}

fn main() {
    let mut args: Vec<String> = std::env::args().collect();
    // RUSTC_WORKSPACE_WRAPPER: argv[1] is the path of the real rustc
    if args.len() > 1 && (args[1].ends_with("rustc") || args[1].contains("/rustc")) {
        args.remove(1);
    }
    let mut cb = Facts;
    rustc_driver::run_compiler(&args, &mut cb);
}
