"""C08.R4 / C15.R3: every label the generator leaves symbolic is checked by the label linter and
resolved by the label resolver; user branch targets are procedure-local."""
from .. import emit, mir
from ..core import CheckError
from . import common

PCL = "rusty_linter::post_linter::post_conversion_linter::PostConversionLinter"


def statement_dispatch(prog):
    """Statement variant -> name of the PostConversionLinter method the default
    visit_statement_pos dispatches to."""
    tr = prog.traits.get(PCL)
    if tr is None:
        raise CheckError("trait PostConversionLinter not found")
    fid = [it["id"] for it in tr["items"] if it["name"] == "visit_statement_pos"]
    if not fid or fid[0] not in prog.fns:
        raise CheckError("PostConversionLinter::visit_statement_pos has no default body")
    fn = prog.fns[fid[0]]
    sws = [s for s in mir.enum_switches(prog, fn.body) if s.adt.endswith("::Statement")]
    if not sws:
        raise CheckError("visit_statement_pos: no match over Statement")
    sw = max(sws, key=lambda s: len(s.arms))
    out = {}
    for v in prog.variants(sw.adt):
        tgt = sw.arms.get(v, sw.otherwise)
        if tgt is None:
            continue
        region = mir.arm_region(fn.body, sw.bb, tgt)
        names = [t.get("cpath", "").split("::")[-1] for _b, t in mir.region_calls(fn.body, region)
                 if t.get("ctrait") == PCL]
        out[v] = names
    return fn, sw.adt, out


def _resolve_promoted(fn, o):
    """the value of a promoted constant (`&LabelOwner::Global`) instead of its index"""
    o = mir.strip_refs(o)
    if o[0] == "promoted" and isinstance(o[1], int) and o[1] < len(fn.promoted):
        return mir.strip_refs(mir.Prov(fn.promoted[o[1]]).of_local(0))
    return o


def _reaches(prog, start_id, pred, limit=200):
    seen = set()
    st = [start_id]
    while st and len(seen) < limit:
        f = st.pop()
        if f in seen:
            continue
        seen.add(f)
        fn = prog.fns.get(f)
        if fn is None:
            continue
        if pred(fn):
            return True
        for c in prog.call_edges(fn):
            if c in prog.fns and prog.fns[c].crate == fn.crate:
                st.append(c)
    return False


def symbolic_label_statements(prog):
    """Statement variants from which the generator builds AddressOrLabel::Unresolved."""
    stmt = prog.method("InstructionGenerator", "visit", trait=emit.STATEMENT_TRAIT_REF)
    sws = [s for s in mir.enum_switches(prog, stmt.body) if s.adt.endswith("::Statement")]
    if not sws:
        raise CheckError("generator visit(StatementPos): no match over Statement")
    sw = max(sws, key=lambda s: len(s.arms))
    out = {}
    for v in prog.variants(sw.adt):
        tgt = sw.arms.get(v, sw.otherwise)
        if tgt is None:
            continue
        region = mir.arm_region(stmt.body, sw.bb, tgt)
        hit = False
        instrs = []
        for b in region:
            blk = stmt.body.blocks[b]
            for s in blk["s"]:
                if s["k"] != "assign":
                    continue
                r = s["r"]
                if r["k"] == "agg" and r.get("a") == "adt":
                    if r["adt"].endswith("::AddressOrLabel") and r["variant"] == "Unresolved":
                        hit = True
                    if r["adt"].endswith("::Instruction"):
                        instrs.append(r["variant"])
            t = blk["t"]
            if t["k"] == "call":
                for a in t["args"]:
                    k = a.get("k")
                    if k and k.get("fn") and "AddressOrLabel::Unresolved" in k["fn"]:
                        hit = True
        if hit:
            out[v] = instrs
    return stmt, out


def r_label_tables(ctx, rule):
    prog = ctx.prog
    disp_fn, stmt_adt, dispatch = statement_dispatch(prog)
    gen_stmt, symbolic = symbolic_label_statements(prog)
    # label linter overrides reaching ensure_label_is_defined
    ll_impls = [i for i in prog.impls_of_trait(PCL) if i["self_ty"].endswith("LabelLinter")]
    if len(ll_impls) != 1:
        raise CheckError("impl PostConversionLinter for LabelLinter: %d found" % len(ll_impls))
    ll = ll_impls[0]
    overridden = {it["name"]: it["id"] for it in ll["items"]}

    def calls_ensure(fn):
        return fn.name == "ensure_label_is_defined"
    checked_methods = {n for n, fid in overridden.items() if _reaches(prog, fid, calls_ensure)}
    for v, instrs in sorted(symbolic.items()):
        methods = dispatch.get(v, [])
        ok = any(m in checked_methods for m in methods)
        ctx.decide(ok, rule, "%s:linted:%s" % (rule, v), gen_stmt.loc,
                   "Statement::%s -> %s, label checked by LabelLinter::%s" % (v, instrs, methods),
                   "the generator emits an unresolved user label for Statement::%s (%s) but the "
                   "label linter's %s does not reach ensure_label_is_defined: an undefined label "
                   "would panic in the label resolver" % (v, instrs, methods or "(no visit method)"))
    # resolver: an arm producing Resolved for every Instruction variant carrying AddressOrLabel
    instr_adt = None
    for a in prog.adts.values():
        if a["id"].endswith("instruction_generator::main::Instruction"):
            instr_adt = a
    if instr_adt is None:
        raise CheckError("Instruction enum not found")
    carriers = [v["name"] for v in instr_adt["variants"]
                if any(any(x.endswith("::AddressOrLabel") for x in f.get("adts", [])) for f in v["fields"])]
    res = ctx.anchor_method("LabelResolver", "resolve_label")
    sws = [s for s in mir.enum_switches(prog, res.body) if s.adt == instr_adt["id"]]
    if not sws:
        raise CheckError("resolve_label: no match over Instruction")
    sw = max(sws, key=lambda s: len(s.arms))
    for v in carriers:
        tgt = sw.arms.get(v)
        ok = False
        if tgt is not None:
            region = mir.arm_region(res.body, sw.bb, tgt)
            for _b, s in mir.region_aggregates(res.body, region):
                if s["r"].get("adt", "").endswith("::AddressOrLabel") and s["r"]["variant"] == "Resolved":
                    ok = True
        ctx.decide(ok, rule, "%s:resolved:%s" % (rule, v), res.loc,
                   "resolve_label rewrites Instruction::%s to a Resolved address" % v,
                   "Instruction::%s carries an AddressOrLabel but resolve_label has no arm that "
                   "resolves it: AddressOrLabel::address() panics at run time" % v)
    # every resolved address comes from the label map built from Label instructions
    bm = ctx.anchor_method("LabelResolver", "build_label_to_address_map")
    sws = [s for s in mir.enum_switches(prog, bm.body) if s.adt == instr_adt["id"]]
    ctx.decide(any("Label" in s.arms for s in sws), rule, rule + ":map-from-Label", bm.loc,
               "label map is built from Instruction::Label", "label map no longer keyed by Label instructions")
    # procedure locality
    # each branch statement looks its label up in the label set of the right owner: GOTO / GOSUB /
    # RESUME / RETURN in the enclosing procedure's (self.current_label_owner), ON ERROR GOTO in the
    # main module's (LabelOwner::Global).  The owner is followed into private helpers, so it does not
    # matter whether the lookup is written inline or through ensure_is_current_label / _global_label.
    want = {"visit_go_to": "current", "visit_go_sub": "current", "visit_resume": "current",
            "visit_return": "current", "visit_on_error": "global"}

    def owners_used(fn, depth=0, subst=None):
        out = set()
        pv = mir.Prov(fn.body)
        for _b, t in fn.body.calls():
            nm = mir.callee_path(t).split("::")[-1]
            g = prog.fns.get(mir.callee_of(t))
            if nm == "ensure_label_is_defined" and len(t["args"]) >= 3:
                o = _resolve_promoted(fn, mir.strip_refs(pv.of_operand(t["args"][2])))
                if o[0] == "param" and subst is not None and o[1] in subst:
                    out.add(subst[o[1]])
                elif o[0] == "field" and o[2] == "current_label_owner":
                    out.add("current")
                elif "Global" in str(o):
                    out.add("global")
                else:
                    out.add("unknown:%s" % mir.short_origin(o))
            elif g is not None and "label_linter" in g.id and g.kind != "closure" and depth < 2 \
                    and g.name.startswith("ensure_"):
                sub = {}
                for i, a in enumerate(t["args"]):
                    o = _resolve_promoted(fn, mir.strip_refs(pv.of_operand(a)))
                    if o[0] == "field" and o[2] == "current_label_owner":
                        sub[i] = "current"
                    elif "Global" in str(o) and o[0] != "param":
                        sub[i] = "global"
                out |= owners_used(g, depth + 1, sub)
        return out
    for m, target in sorted(want.items()):
        fid = overridden.get(m)
        if fid is None or fid not in prog.fns:
            ctx.violation(rule, "%s:locality:%s" % (rule, m), ll.get("file", "label_linter"),
                          "LabelLinter no longer overrides %s" % m)
            continue
        fn = prog.fns[fid]
        used = owners_used(fn)
        ctx.decide(used == {target}, rule, "%s:locality:%s" % (rule, m), fn.loc,
                   "%s looks its label up under the %s label owner" % (m, target),
                   "%s looks its label up under %s instead of the %s label owner: a branch could leave its "
                   "procedure (or ON ERROR could target a label inside a procedure)" % (m, sorted(used) or "nothing", target))
    # the label owner is set to the procedure before its body is visited and reset to Global after
    holders = [f for f in prog.fns.values() if f.name in ("on_function", "on_sub") and "label_linter" in f.id
               and f.kind != "closure"]
    if len(holders) < 2:
        raise CheckError("LabelOwnerHolder::on_function / on_sub not found")
    for f in sorted(holders, key=lambda x: x.id):
        seq = []
        for b in f.body.rpo():
            t = f.body.term(b)
            if t["k"] != "call":
                continue
            nm = (t.get("cpath") or "").split("::")[-1]
            if nm == "set_label_owner":
                pv = mir.Prov(f.body)
                o = pv.of_operand(t["args"][1])
                which = o[2].split("::")[-1] if o[0] == "agg" and o[2] else "?"
                seq.append(("set", which, b))
            elif nm == "visit_statements":
                seq.append(("visit", None, b))
        kinds = [(k, w) for k, w, _b in seq]
        want_first = "Function" if f.name == "on_function" else "Sub"
        ok = (len(kinds) == 3 and kinds[0] == ("set", want_first) and kinds[1] == ("visit", None)
              and kinds[2] == ("set", "Global"))
        if ok:
            # the reset happens on the success path of the visit (every Ok return passes it)
            ok = f.body.dominates(seq[1][2], seq[2][2])
        ctx.decide(ok, rule, "%s:owner-scope:%s" % (rule, f.name), f.loc,
                   "owner := %s; visit body; owner := Global" % want_first,
                   "%s no longer brackets the procedure body with set_label_owner(%s) ... "
                   "set_label_owner(Global) (sequence %s): statements after the procedure are checked "
                   "against the wrong label set, so a branch can leave its procedure" % (f.name, want_first, kinds))
    # duplicate labels are rejected
    lc = [i for i in prog.impls_of_trait(PCL) if i["self_ty"].endswith("LabelCollector")]
    if len(lc) != 1:
        raise CheckError("impl PostConversionLinter for LabelCollector not found")
    vl = [it["id"] for it in lc[0]["items"] if it["name"] == "visit_label"]
    ok = False
    if vl and vl[0] in prog.fns:
        fn = prog.fns[vl[0]]
        aggs = [s["r"]["variant"] for blk in fn.body.blocks for s in blk["s"]
                if s["k"] == "assign" and s["r"]["k"] == "agg" and s["r"].get("adt", "").endswith("::LintError")]
        ok = "DuplicateLabel" in aggs
        loc = fn.loc
    else:
        loc = "label_linter"
    ctx.decide(ok, rule, rule + ":duplicate-label-rejected", loc,
               "LabelCollector::visit_label raises DuplicateLabel",
               "LabelCollector::visit_label no longer rejects a label defined twice")
    ctx.analysed_units(rule, symbolic_statements=sorted(symbolic), carriers=carriers,
                       linter_methods=sorted(checked_methods))
    ctx.require(rule, 5 + 6 + 1 + 5 + 2 + 2)
