"""C02 - loops and branches mean the same wherever nested (C02.R1-R4)."""
from .. import emit, flow, mir, templates
import json
import re

from ..core import CheckError
from . import common, c15

LEVEL = "other"
EXPLANATION = (
    "The mechanism the property's anchor names - generated labels are unique because each statement "
    "is emitted once, and each FOR body runs in its own register frame: (R1) no statement block is "
    "emitted twice; (R2) label key discipline: inside one construct every jump to a constant label "
    "prefix has a label of that prefix emitted for the same construct, no constant label prefix is "
    "emitted twice on one path, and label / jump positions are the construct's own position "
    "parameter; (R3) PushRegisters / PopRegisters are emitted as a pair around exactly one user "
    "block, with the statement mark between the block and the pop and no emitted jump or label "
    "inside the bracket; (R4) loop templates: every loop jumps back to its own head label and tests "
    "its condition on every iteration (the back-edge jump and the exit jump are both present); (R5) "
    "label(), jump() and jump_if_false() build names from one template in which every interpolated "
    "field is delimited and the fields are the prefix and the whole position (every field of it), so the name is injective in (prefix, position); (R6) template reachability, "
    "decided by a path-sensitive symbolic walk of each construct template with computed label names "
    "(else-if-N, caseN, case-multi-expr-N-M) kept as terms: every label emitted right after an "
    "unconditional jump is targeted by a jump on the same emission path, every jump target is "
    "emitted exactly once, nothing is emitted dead after an unconditional jump; (R7) every statement "
    "block of a construct is followed directly by its statement mark, before the exit jump, so that "
    "RESUME NEXT after an error in the last statement of a branch leaves the construct like the "
    "equivalent IF chain does (shared with C05.R2); (R8) no user code that can overwrite a register "
    "is emitted between the instruction that sets it and the instruction that reads it (dataflow over "
    "the emitted code of each template; register reads / writes derived from the VM; shared with C15.R8); (R9) in the parser every "
    "statement list comes from a repetition combinator: a list built from a fixed number of statements "
    "(array literal, once) is tabled with the reason nothing can follow it, otherwise the rest of a "
    "colon-separated single-line body falls out of the construct; (R10) the FOR increment adds the step as it was evaluated: followed symbolically through the register moves of the FOR template, the step reaches the Plus of the increment without passing through Cast (the equivalent WHILE converts the sum once, not the step and then the sum)."
    " (R10, extended) the STEP of a FOR is evaluated once, by the FOR line: the second operand of the increment is a value computed before the loop (a variable of the generator's own making, followed as a cell through the template), never an expression evaluated again inside it."
    " (R5, extended) the names of the generator's own variables are built like labels: purpose and whole position, fields separated, and contain a character no identifier contains."
    " (R13) every call of the converting expression emitter is directly followed by an emission that consumes A into a typed place (a store, PushNamed, VarPathIndex): nothing that is only compared is converted first."
    " (R14) after the parser nothing chooses an operator: the operator of every BinaryExpression / UnaryExpression node the checker or the generator builds is the operator of the node it is built from, followed through parameters to the callers."
    " (R15 = C03.R12) the variables of the generator's own making (FOR limit and step, the SELECT CASE value) are filed with the running call, not with the module level: a loop inside a procedure that is re-entered from its own body keeps its limit, as the WHILE spelling of the same loop does.")
NOT_DECIDED = [
    "the listed rewrite equivalences themselves (FOR = WHILE, SELECT = IF chain ...): relational "
    "properties of run-time behaviour",
]


def construct_roots(prog, T):
    stmt = prog.method("InstructionGenerator", "visit", trait=emit.STATEMENT_TRAIT_REF)
    roots = []
    for b, e in sorted(T.evs(stmt).items()):
        if e.callee is not None and e.kind == "gen":
            roots.append((e.callee, flow.const_args_of(stmt.body.term(b))))
    return stmt, roots


def r2_label_discipline(ctx, T, rule="C02.R2"):
    prog = ctx.prog
    stmt, roots = construct_roots(prog, T)
    n_labels = n_jumps = computed = 0
    for f, ca in roots:
        sites = T.sites(f, ca)
        labels = {}
        jumps = {}
        for kind, name, depths, f2, line in sites:
            if name is None:
                computed += 1
                continue
            if kind == "label":
                labels.setdefault(name, []).append((f2, line))
                n_labels += 1
            else:
                jumps.setdefault(name, []).append((f2, line, kind))
                n_jumps += 1
        for name, js in sorted(jumps.items()):
            key = "%s:%s:jump-target:%s" % (rule, f.name, name)
            loc = "%s:%s" % (js[0][0].file, js[0][1])
            ctx.decide(name in labels, rule, key, loc, "label `%s` is emitted by the same construct" % name,
                       "%s emits a %s to `%s` but no label with that prefix is emitted for the construct: "
                       "the label resolver would panic or bind a label of another statement"
                       % (f.name, js[0][2], name))
        # the same constant label twice on one path of a function
        for name, ls in sorted(labels.items()):
            key = "%s:%s:label-once:%s" % (rule, f.name, name)
            dup = False
            by_fn = {}
            for f2, line in ls:
                by_fn.setdefault(f2.id, set()).add(line)
            for fid, lines in by_fn.items():
                if len(lines) < 2:
                    continue
                g = prog.fns[fid]
                evs = T.evs(g)
                for seq in emit.linear_paths(g.body, evs, unroll=1):
                    c = sum(1 for e in seq if e.kind == "label" and e.name == name)
                    if c > 1:
                        dup = True
            # a constant label inside a generator loop is emitted once per iteration
            for f2, line in ls:
                evs = T.evs(f2)
                for b, e in evs.items():
                    if e.kind == "label" and e.name == name and e.line == line:
                        if b in {x for s2 in f2.body.succ(b) for x in f2.body.reachable(s2)}:
                            dup = True
            ctx.decide(not dup, rule, key, "%s:%s" % (ls[0][0].file, ls[0][1]), "emitted at most once per construct",
                       "the label `%s` can be emitted twice for one construct (same prefix and position): "
                       "the second definition shadows the first in the label map" % name)
    # positions: label/jump/jump_if_false take the construct's own pos parameter
    bad = []
    n_pos = 0
    for g in emit.generator_fns(prog):
        evs = T.evs(g)
        for e in evs.values():
            if e.kind in ("label", "jump", "jump_if_false") and len(e.args) > 2:
                n_pos += 1
                o = mir.strip_all(e.args[2])
                if o[0] == "field" and o[2] == "pos":
                    o = mir.strip_all(o[1])
                if o[0] != "param":
                    bad.append("%s:%s" % (g.name, e.line))
    ctx.decide(not bad, rule, rule + ":positions-are-the-constructs-own", "instruction_generator",
               "%d label/jump sites use the pos parameter of their construct" % n_pos,
               "label/jump sites %s do not use their construct's position parameter: label names of "
               "different statements can collide or miss" % bad[:5])
    ctx.analysed_units(rule, constructs=len(roots), constant_labels=n_labels, constant_jumps=n_jumps,
                       computed_names_not_compared=computed)
    ctx.require(rule, 25)


def _frame_path_verdict(seq):
    """One emission path of a generator that emits PushRegisters / PopRegisters: (ok, why)."""
    kinds = [(e.kind, e.instr) for e in seq]
    pu = [i for i, k in enumerate(kinds) if k == ("push", "PushRegisters")]
    po = [i for i, k in enumerate(kinds) if k == ("push", "PopRegisters")]
    if len(pu) != len(po) or len(pu) > 1:
        return False, "unpaired PushRegisters/PopRegisters on a path"
    if not pu:
        return True, ""
    ok, why = True, ""
    i, j = pu[0], po[0]
    inner = seq[i + 1:j]
    blocks = [e for e in inner if e.kind == "BLOCK"]
    if i > j or len(blocks) != 1:
        ok, why = False, "the frame does not bracket exactly one user block"
    if any(e.kind in ("jump", "jump_if_false", "label") for e in inner):
        ok, why = False, "a generated jump or label sits inside the register frame"
    bi = inner.index(blocks[0]) if blocks else -1
    if blocks and not any(e.kind == "mark" for e in inner[bi + 1:]):
        ok, why = False, "no statement mark between the block and PopRegisters"
    return ok, why


def r3_register_frames(ctx, T, rule="C02.R3"):
    prog = ctx.prog
    n = 0
    for f in sorted(emit.generator_fns(prog), key=lambda x: x.id):
        evs = T.evs(f)
        has = any(e.kind == "push" and e.instr in ("PushRegisters", "PopRegisters") for e in evs.values())
        if not has:
            continue
        n += 1
        ok = True
        why = ""
        for seq in emit.linear_paths(f.body, evs):
            o, w = _frame_path_verdict(seq)
            if not o:
                ok, why = False, w
        ctx.decide(ok, rule, "%s:%s" % (rule, f.name), f.loc, "PushRegisters; BLOCK; mark; PopRegisters",
                   "%s: %s" % (f.name, why))
    if not n:
        # no construct keeps loop state in a register frame any more (FOR keeps its limit and step in
        # variables of their own): nothing to pair.  The judge of a path is exercised on synthetic
        # paths so that a frame that comes back is still judged
        E = emit.Ev
        good = [E("push", 0, 0, instr="PushRegisters"), E("BLOCK", 1, 0), E("mark", 2, 0), E("push", 3, 0, instr="PopRegisters")]
        nomark = [good[0], good[1], good[3]]
        unpaired = [good[0], good[1], good[2]]
        if not (_frame_path_verdict(good)[0] and not _frame_path_verdict(nomark)[0] and not _frame_path_verdict(unpaired)[0]):
            raise CheckError("%s: self-test of the register-frame judge failed" % rule)
        ctx.ok(rule, rule + ":no-register-frame-is-emitted", "instruction_generator",
               "no generator emits PushRegisters / PopRegisters (%d generator functions looked at); "
               "the judge of a frame passed its self-test on 3 synthetic paths" % len(emit.generator_fns(prog)))
    ctx.require(rule, 1)


def _loop_emitters(prog, T):
    """generator functions that emit a back edge: on some path a label L and later a jump to L.
    Found by what they emit, not by name.  -> [(fn, head label name, is_for)]"""
    out = []
    for f in sorted(emit.generator_fns(prog), key=lambda f: f.id):
        evs = T.evs(f)
        heads = set()
        for seq in emit.linear_paths(f.body, evs):
            seen = []
            for e in seq:
                if e.kind == "label" and e.name is not None:
                    seen.append(e.name)
                elif e.kind == "jump" and e.name in seen:
                    heads.add(e.name)
        if heads:
            # the FOR template: the loop emitter that the ForLoop arm of the statement dispatcher reaches
            is_for = common.generator_construct_of(prog, f) == "ForLoop"
            out.append((f, sorted(heads)[0], is_for))
    return out


def r4_loop_templates(ctx, T, rule="C02.R4"):
    prog = ctx.prog
    loops = _loop_emitters(prog, T)
    for_helpers = [f for f, _h, is_for in loops if is_for]
    for f, head, is_for in loops:
        if is_for:
            continue
        construct = common.generator_construct_of(prog, f)
        evs = T.evs(f)
        ok = True
        why = ""
        n_paths = 0
        polarities = set()
        for seq in emit.linear_paths(f.body, evs):
            n_paths += 1
            # the emitted code of this generator path as a graph: an event falls through to the next one
            # unless it is an unconditional jump; jump / jump_if_false lead to the label of their name
            seq = [e for e in seq if e.kind in ("label", "jump", "jump_if_false", "BLOCK", "EXPR", "push", "gen", "STMT")]
            n = len(seq)
            END = n
            lab = {}
            for i, e in enumerate(seq):
                if e.kind == "label":
                    lab.setdefault(e.name, i)
            succ = {i: [] for i in range(n + 1)}
            for i, e in enumerate(seq):
                if e.kind != "jump":
                    succ[i].append(i + 1)
                if e.kind in ("jump", "jump_if_false"):
                    if e.name is None or e.name not in lab:
                        ok, why = False, "a jump to a label that is not emitted on the path"
                        continue
                    succ[i].append(lab[e.name])

            def reach(src, avoid=()):
                seen, st = set(), [src]
                while st:
                    x = st.pop()
                    if x in seen or x in avoid:
                        continue
                    seen.add(x)
                    st.extend(succ.get(x, ()))
                return seen
            blocks = [i for i, e in enumerate(seq) if e.kind == "BLOCK"]
            exprs = [i for i, e in enumerate(seq) if e.kind == "EXPR"]
            if len(blocks) != 1 or len(exprs) != 1:
                ok, why = False, "the body / condition is not emitted exactly once"
                continue
            bi, ci = blocks[0], exprs[0]
            if ci not in reach(bi + 1) or bi not in reach(ci + 1):
                ok, why = False, "body and condition are not on one cycle of the emitted code: the condition is " \
                                 "not re-evaluated after each run of the body (or the body is not repeated)"
                continue
            if END not in reach(ci + 1, avoid=(bi,)):
                ok, why = False, "after the condition the emitted code cannot leave the loop without running the body again"
                continue
            # the decision is made on the condition's value: the first conditional jump after the
            # condition comes before anything else is evaluated
            j = ci + 1
            while j < n and seq[j].kind not in ("jump_if_false", "BLOCK", "EXPR", "gen", "STMT"):
                j += 1
            if j >= n or seq[j].kind != "jump_if_false":
                ok, why = False, "no conditional jump decides on the condition"
                continue
            # polarity: where a true condition (fall-through of jump_if_false) leads
            true_side = reach(j + 1, avoid=(j,))
            false_side = reach(lab[seq[j].name], avoid=(j,)) if seq[j].name in lab else set()
            t_body = bi in reach(j + 1, avoid=(END,)) and not (END in reach(j + 1, avoid=(bi,)))
            f_body = bi in false_side and END not in reach(lab[seq[j].name], avoid=(bi,))
            if t_body == f_body:
                ok, why = False, "both outcomes of the test lead to the same place"
                continue
            polarities.add("while" if t_body else "until")
        if ok and n_paths > 0:
            # WHILE / DO WHILE repeat on a true condition, DO UNTIL on a false one: an emitter with one spelling
            # is a `while`; one that has both kinds must produce both polarities
            if len(polarities) == 1 and polarities != {"while"}:
                ok, why = False, "the only polarity emitted is `repeat while the condition is false`"
            takes_kind = any("DoLoopConditionKind" in f.body.locals[i]["ty"] for i in range(1, f.argc + 1))
            if takes_kind and polarities != {"while", "until"}:
                ok, why = False, "the emitter is told whether the loop is WHILE or UNTIL but emits only the `%s` " \
                                 "polarity: one of the two spellings runs like the other" % "/".join(sorted(polarities))
        k = sum(1 for x in ctx.obs if x.key.startswith("%s:%s" % (rule, construct)))
        ctx.decide(ok and n_paths > 0, rule, "%s:%s%s" % (rule, construct, "#%d" % k if k else ""), f.loc,
                   "body and condition on one cycle, an exit after the condition, a test on the condition (%s)"
                   % "/".join(sorted(polarities)), "%s: %s" % (f.name, why))
    # FOR: the helper jumps back to its own loop label and exits to out-of-for
    if len(for_helpers) != 1:
        raise CheckError("%s: expected one emitter with a back edge under the ForLoop arm (FOR), found %d"
                         % (rule, len(for_helpers)))
    f = for_helpers[0]
    evs = T.evs(f)
    ok = True
    for seq in emit.linear_paths(f.body, evs):
        labs = [e for e in seq if e.kind == "label"]
        jmps = [e for e in seq if e.kind == "jump"]
        jf = [e for e in seq if e.kind == "jump_if_false"]
        # head = first label emitted; back edge = last jump; the exit is a conditional jump to
        # out-of-for that lies between them (inner labels / jumps of the step-sign test are allowed)
        pv_same = labs and jmps and str(labs[0].args[1]) == str(jmps[-1].args[1])
        exits = [e for e in jf if e.name == "out-of-for"]
        if not (pv_same and len(exits) == 1 and seq.index(labs[0]) < seq.index(exits[0]) < seq.index(jmps[-1])):
            ok = False
    ctx.decide(ok, rule, rule + ":for-helper", f.loc, "loop label = back-edge target; exit to out-of-for",
               "the FOR helper's back edge does not target its own loop label, or it does not exit to out-of-for")
    ctx.require(rule, 4)


def parse_fmt_template(s):
    """Decode rustc's packed format template (a b"..." constant): list of ('lit', text) / ('arg',).
    Encoding on this toolchain: 0x00 end; 0x01..0x7f literal of that many bytes; >= 0x80 a
    placeholder (0xc0 = next argument, default formatting)."""
    import ast
    try:
        raw = ast.literal_eval(s)
    except Exception:
        return None
    out = []
    i = 0
    while i < len(raw):
        c = raw[i]
        if c == 0:
            break
        if c < 0x80:
            out.append(("lit", raw[i + 1:i + 1 + c].decode("latin1")))
            i += 1 + c
        else:
            out.append(("arg", c))
            i += 1
    return out


def label_template(prog, fn, depth=0):
    """(template items, [formatter kind per argument]) of the String that fn formats, looking
    into helpers it calls."""
    found = []
    pv = mir.Prov(fn.body)
    for b, t in fn.body.calls():
        cp = t.get("cpath") or ""
        if cp.startswith("std::fmt::Arguments") and cp.endswith("::new") and t["args"]:
            o = mir.strip_refs(pv.of_operand(t["args"][0]))
            if o[0] == "const":
                kinds = [mir.callee_path(t2).split("::")[-1] for _b2, t2 in fn.body.calls()
                         if "fmt::rt::Argument" in (t2.get("cpath") or "")]
                found.append((parse_fmt_template(o[1]), kinds, fn))
        g = prog.fns.get(mir.callee_of(t))
        if g is not None and g.crate == "rusty_basic" and depth < 2 and g.name not in ("push",):
            found.extend(label_template(prog, g, depth + 1))
    return found


def _judge_name_template(ctx, rule, tag, items, kinds, f, what="label"):
    """a generated name is built from one template: literal, prefix, separator, the whole position"""
    prog = ctx.prog
    n_args = sum(1 for i in items if i[0] == "arg")
    adjacent = any(items[i][0] == "arg" and items[i + 1][0] == "arg" for i in range(len(items) - 1))
    ctx.decide(not adjacent and n_args == len(kinds), rule, rule + tag + ":fields-separated", f.loc,
               "every interpolated field is followed by literal text or the end (%s)" % items,
               "the generated label name interpolates two fields with nothing between them (%s): different "
               "(prefix, position) pairs can produce the same name, e.g. row 1 col 11 and row 11 col 1" % items)
    ctx.decide(n_args >= 2 and items and (items[0][0] == "lit" or what != "label"), rule, rule + tag + ":prefix-and-position", f.loc,
               "name = <literal><prefix><sep><position...>", "label names are built from %s" % items)
    # what is interpolated: the prefix and the *whole* position.  Constructs of one kind are told
    # apart by their position only; a name that drops a field of it (row and row, no column) gives two
    # loops on one line the same labels, and the label table keeps the last definition.
    pv = mir.Prov(f.body)
    pos_params = [i for i in range(1, f.argc + 1) if f.body.locals[i]["ty"].endswith("Position")]
    str_params = [i for i in range(1, f.argc + 1) if "str" in f.body.locals[i]["ty"] or "String" in f.body.locals[i]["ty"]]
    if len(pos_params) != 1 or not str_params:
        raise CheckError("%s: %s does not take (prefix, position)" % (rule, f.name))
    padt = [a for a in prog.adts.values() if a["path"].endswith("::Position") and a.get("local")]
    all_fields = {fl["name"] for fl in padt[0]["variants"][0]["fields"]} if padt else set()
    whole = False
    fields = set()
    prefix = False
    for _b, t in f.body.calls():
        if "fmt::rt::Argument" not in (t.get("cpath") or "") or not t["args"]:
            continue
        o = mir.strip_all(pv.of_operand(t["args"][0]))
        if o[0] == "param" and o[1] + 1 in str_params:
            prefix = True
        if o[0] == "param" and o[1] + 1 == pos_params[0]:
            whole = True
        if o[0] == "field" and mir.strip_all(o[1]) == ("param", pos_params[0] - 1):
            fields.add(o[2])
        if o[0] == "call" and o[2] and mir.strip_all(o[2][0]) == ("param", pos_params[0] - 1):
            # an accessor of the position: which field does it return?
            last = o[1].split("::")[-1]
            acc = [g for g in prog.fns.values() if g.name == last and g.impl is not None
                   and g.impl["self_ty"].endswith("Position") and g.kind != "closure"]
            for g in acc[:1]:
                # the field the accessor hands back: `_0 = (*self).field`
                for blk in g.body.blocks:
                    for st in blk["s"]:
                        if st["k"] == "assign" and st["p"] == [0, []] and st["r"]["k"] == "use":
                            pl = mir.op_place(st["r"]["o"])
                            if pl is not None and pl[0] == 1:
                                fields |= {e["n"] for e in pl[1] if isinstance(e, dict) and "n" in e}
    covered = whole or (all_fields and fields >= all_fields)
    ctx.decide(prefix and covered, rule, rule + tag + ":interpolates-prefix-and-whole-position", f.loc,
               "the name contains the prefix and %s" % ("the whole position" if whole else "the fields %s" % sorted(fields)),
               "the generated label name does not contain %s: two constructs of the same kind that differ only there "
               "(two WHILE loops on one line) get the same labels, and jumps of the first land in the second"
               % ("the prefix" if not prefix else "the whole position (only %s of %s)" % (sorted(fields), sorted(all_fields))))


def r5_label_names_injective(ctx, rule="C02.R5"):
    prog = ctx.prog
    seen = {}
    for name in ("label", "jump", "jump_if_false"):
        f = ctx.anchor_method("InstructionGenerator", name)
        ts = label_template(prog, f)
        if len(ts) != 1 or ts[0][0] is None:
            raise CheckError("%s: label-name template not recognised (%d candidates)" % (name, len(ts)))
        seen[name] = ts[0]
    base = seen["label"]
    for name in ("jump", "jump_if_false"):
        ctx.decide(seen[name][0] == base[0] and seen[name][1] == base[1], rule, "%s:%s-uses-label-template" % (rule, name),
                   seen[name][2].loc, "same name template as label()",
                   "%s() builds names with template %s/%s but label() with %s/%s: jumps cannot find their label"
                   % (name, seen[name][0], seen[name][1], base[0], base[1]))
    items, kinds, f = base
    _judge_name_template(ctx, rule, "", items, kinds, f)
    # the variables of the generator's own making (the value a SELECT CASE selects on, the limit and step
    # of a FOR) are told apart the same way: purpose and whole position, fields separated; and their names
    # contain a character no identifier of a program can contain
    others = [g for g in prog.fns.values() if g.crate == "rusty_basic" and "instruction_generator" in g.id
              and g.kind != "closure" and g.body is not None and g.name not in ("label", "jump", "jump_if_false")
              and any(g.body.locals[i]["ty"].endswith("Position") for i in range(1, g.argc + 1))
              and "Name" in g.body.locals[0]["ty"]
              and any((t.get("cpath") or "").startswith("std::fmt::Arguments") for _b, t in g.body.calls())
              and g.id != f.id and not any(mir.callee_of(t) == g.id for _b, t in f.body.calls())]
    for g in sorted(others, key=lambda x: x.id):
        ts = [t for t in label_template(prog, g, depth=2) if t[2].id == g.id]
        if len(ts) != 1 or ts[0][0] is None:
            continue
        gi, gk, _g = ts[0]
        tag = ":variable-name(%s)" % common.generator_construct_of(prog, g) if False else ":variable-name"
        _judge_name_template(ctx, rule, tag, gi, gk, g, what="variable")
        lits = "".join(x[1] for x in gi if x[0] == "lit")
        ctx.decide(any(not (c.isalnum() or c in "._") for c in lits), rule, rule + tag + ":not-a-program-name", g.loc,
                   "the name contains %r, which no identifier contains" % [c for c in lits if not (c.isalnum() or c in "._")][:2],
                   "%s builds the name of a variable of the generator's own from %s: without a character that no identifier "
                   "can contain, a variable of the program can have the same name and is overwritten by the loop" % (g.name, gi))
    ctx.require(rule, 5)


def r6_template_reachability(ctx, rule="C02.R6"):
    """On every emission path of a construct template (IF, SELECT CASE, WHILE, DO, FOR, DIM):
    (a) every piece of user code the template emits (a statement block or an expression) is
    reachable in the emitted code - by fall-through or through a jump / jump_if_false whose label
    term equals the term of a label emitted on the same path; an ELSEIF / CASE whose label nobody
    targets can never run; (b) every reachable jump targets a label that is emitted exactly once on
    the path.  Label names are compared as terms (name template + index term + position term);
    loops are walked from their concrete start and, per loop, from a symbolic index (consecutive
    iterations k, k+1).  Dead labels or dead non-user instructions alone are not reported: they do
    not change behaviour."""
    from .. import sympath
    prog = ctx.prog
    _PROG[0] = prog
    w = sympath.Walker(prog)
    import json
    import os
    from ..core import VERIF
    table = json.load(open(os.path.join(VERIF, "tables", "template_assumptions.json")))
    w.nonempty = {(e["fn"], e["var"]) for e in table["nonempty"]}
    roots = w.roots()
    if len(roots) < 5:
        raise CheckError("construct templates not found: %s" % [r.name for r in roots])
    results = {}     # obligation key -> [ok paths, bad witness]

    def note(key, loc, ok, why):
        r = results.setdefault(key, [0, None, loc])
        if ok:
            r[0] += 1
        elif r[1] is None:
            r[1] = why

    def check_path(root, lid):
        def on_path(st):
            tr = st.trace
            labels = {}
            for it in tr:
                if it.kind == "label":
                    labels.setdefault(it.key(), []).append(it)
            # induction hypothesis of the generic walk: iteration k of the designated loop is entered
            seeds = [i for i, it in enumerate(tr) if lid is not None and it.iters.get(lid) == 1][:1]
            live = sympath.reachable_items(tr, seeds)
            conds = "; ".join(st.facts.describe())
            ordinal = {}
            for i, it in enumerate(tr):
                in_scope = lid is None or it.iters.get(lid) == 2
                nm = sympath.show(it.name)
                loc = "%s:%s" % (it.fn.file, it.line)
                is_throw = it.kind == "emit" and it.sub == "push" and it.name == ("s", "push(Throw)")
                if it.kind == "emit" and (it.sub in ("BLOCK", "STMT", "EXPR", "USER") or is_throw) and in_scope:
                    key = "%s:%s:%s@%s:reachable" % (rule, it.fn.name, it.sub, _site(it))
                    dead_label = ""
                    if i not in live:
                        j = i
                        while j >= 0 and tr[j].kind != "label":
                            j -= 1
                        targets = sorted({sympath.show(x.name) for k, x in enumerate(tr)
                                          if x.kind in ("jump", "jump_if_false") and k in live})
                        dead_label = ("it follows label %s which no reachable jump targets (reachable "
                                      "targets: %s)" % (sympath.show(tr[j].name), targets)) if j >= 0 else \
                            "it follows an unconditional jump with no label in between"
                    note(key, loc, i in live,
                         "the code emitted here (%s: user code, or the raising of a run-time error) can never run: %s, when %s"
                         % (nm, dead_label, conds))
                elif it.kind == "jump_if_false" and (in_scope or it.iters.get(lid) == 1) and i + 1 < len(tr) \
                        and tr[i + 1].kind == "label" and tr[i + 1].key() == it.key():
                    # a conditional jump to the label that follows it: the test has no effect, the
                    # code after the label runs whether the condition holds or not
                    note("%s:%s:jump_if_false(%s):not-vacuous" % (rule, it.fn.name, _tmpl(it.name)), loc, False,
                         "the conditional jump to %s is directly followed by that label: both outcomes of the "
                         "test continue at the same place (a matching CASE expression falls into the next test "
                         "instead of entering the block) when %s" % (nm, conds))
                elif it.kind in ("jump", "jump_if_false") and lid is None and i in live:
                    n = len(labels.get(it.key(), ()))
                    note("%s:%s:%s(%s):emitted-once" % (rule, it.fn.name, it.kind, _tmpl(it.name)), loc,
                         n == 1,
                         "%s targets %s which is emitted as a label %d times on the same emission path "
                         "(labels: %s) when %s" % (it.kind, nm, n,
                                                   sorted({sympath.show(k[0]) for k in labels}), conds))
        return on_path

    n_paths = 0
    n_generic = 0
    try:
        for root in roots:
            n_paths += w.walk(root, None, check_path(root, None))
            for lid in w.loops_of(root):
                n_generic += w.walk(root, lid, check_path(root, lid))
    except sympath.Budget as e:
        raise CheckError("%s: path budget exceeded (%s)" % (rule, e))
    for key in sorted(results):
        okn, bad, loc = results[key]
        ctx.decide(bad is None, rule, key, loc, "holds on %d emission paths" % okn, bad or "")
    for e in table["nonempty"]:
        if (e["fn"], e["var"]) not in w.used_assumptions:
            raise CheckError("%s: assumption on %s.%s no longer matches the code" % (rule, e["fn"], e["var"]))
        ctx.notes.append("%s assumes %s.%s non-empty: %s" % (rule, e["fn"], e["var"], e["why"]))
    ctx.analysed_units(rule, templates=[r.name for r in roots], concrete_paths=n_paths,
                       generic_loop_paths=n_generic, obligations=len(results))
    ctx.require(rule, 20)


FIXED_STATEMENT_LISTS = {
    # parser function -> why a list of a fixed number of statements is the whole list there
    "rusty_parser::core::if_block::single_line_comment_p":
        "a comment runs to the end of the line, so nothing can follow it inside the single-line IF",
}
_STMT_ELEM = "rusty_common::Positioned<core::statement::Statement>"


def r9_statement_lists_are_repetitions(ctx, rule="C02.R9"):
    """`single-line IF as block IF` (and every other body): the body of a construct is a LIST of
    statements. A parser that builds its `Statements` from an array literal (`vec![s]`,
    `Vec::from([s])`, `iter::once(s)`) accepts a fixed number of statements, so the rest of a
    colon-separated body silently falls out of the construct. Every such construction in the parser
    crate must be tabled with the reason the fixed length is the whole list."""
    prog = ctx.prog
    n = 0
    seen = set()
    for fn in sorted(prog.fns.values(), key=lambda f: f.id):
        if fn.crate != "rusty_parser":
            continue
        for _b, t in fn.body.calls():
            cp = t.get("cpath") or ""
            st = t.get("self_ty") or ""
            fixed = (cp.endswith("Box::<T>::new_uninit") or cp.endswith("Box::<T>::new")) and \
                re.match(r"^\[%s; \d+\]$" % re.escape(_STMT_ELEM), st)
            once = cp in ("std::iter::once", "core::iter::once") and _STMT_ELEM in json.dumps(t.get("targs") or st)
            if not (fixed or once):
                continue
            owner = prog.enclosing_fn(fn) or fn
            if owner.id in seen:
                continue
            seen.add(owner.id)
            n += 1
            why = FIXED_STATEMENT_LISTS.get(owner.id)
            ctx.decide(why is not None, rule, "%s:%s" % (rule, owner.id.split("::", 1)[1]), fn.loc,
                       "fixed-length statement list, tabled: %s" % why,
                       "%s builds its statement list from a fixed number of statements (%s) instead of a "
                       "repetition: in `IF c THEN a ELSE b : d` (or any body parsed here) the statements "
                       "after the first fall out of the construct and run unconditionally, so the "
                       "single-line spelling no longer equals the block spelling" % (owner.path, st or cp))
    for k in FIXED_STATEMENT_LISTS:
        if k not in seen:
            raise CheckError("%s: tabled fixed statement list %s no longer exists - the detector may be blind" % (rule, k))
    ctx.require(rule, 1)


def _site(it):
    """line-independent site id of an emission: the source text of the emitted operand is not in the
    facts, so sites are numbered by source order inside their function."""
    lines = sorted({e.line for e in _SITE_EVS(it.fn) if e.kind == it.sub or (it.sub == "USER" and e.kind == "gen")
                    or (it.sub == "push" and e.kind == "push" and e.instr == "Throw")})
    return "#%d" % lines.index(it.line) if it.line in lines else "?"


def _SITE_EVS(fn, _cache={}):
    if fn.id not in _cache:
        _cache[fn.id] = list(emit.events(fn.prog if hasattr(fn, "prog") else _PROG[0], fn).values())
    return _cache[fn.id]


_PROG = [None]


def _tmpl(t):
    """label-name term with its index terms abstracted: the obligation key must not depend on the
    iteration that exhibits it."""
    if t[0] == "s":
        return re.sub(r"\d+", "N", t[1])
    if t[0] == "fmt":
        return "".join(re.sub(r"\d+", "N", i[1]) if i[0] == "lit" else "N" for i in t[1])
    return "<%s>" % t[0]


def _gen_register_writes(prog, T, f, table, memo, depth=0):
    """registers that the code emitted by generator function f (and the generators it calls) may write"""
    if f.id in memo:
        return memo[f.id]
    if "#exc" not in memo:
        import os
        from ..core import VERIF
        memo["#exc"] = json.load(open(os.path.join(VERIF, "tables", "register_clobber_exceptions.json")))
    if f.name in memo["#exc"]["a_only_generators"]:
        memo[f.id] = {"a"}
        return memo[f.id]
    if f.name in memo["#exc"].get("no_register_generators", {}):
        memo[f.id] = set()
        return memo[f.id]
    memo[f.id] = set("abcd")
    out = set()
    for e in T.evs(f).values():
        if e.kind == "push":
            out |= set(table.get(e.instr, (set(), set("abcd")))[1]) if e.instr else set("abcd")
        elif e.kind == "EXPR" and common.evaluates_for_counter(prog, T, f, e):
            out |= {"a"}
        elif e.kind in ("EXPR", "BLOCK", "STMT"):
            out |= set("abcd")
        elif e.kind == "gen" and e.callee is not None:
            if e.callee.name.startswith("generate_store") and common.evaluates_for_counter(prog, T, f, e):
                continue
            out |= _gen_register_writes(prog, T, e.callee, table, memo, depth + 1) if depth < 6 else set("abcd")
    memo[f.id] = out
    return out


def _cell_emitters(prog, T, _memo={}):
    """generator functions that do nothing but store A into / load A from the variable named by one of
    their parameters: ({fn id: arg index} stores, {fn id: arg index} loads).  Found by what they emit."""
    if id(prog) in _memo:
        return _memo[id(prog)]
    stores, loads = {}, {}
    for f in emit.generator_fns(prog):
        seqs = emit.linear_paths(f.body, T.evs(f))
        if len(seqs) != 1:
            continue
        seq = [e for e in seqs[0] if e.kind != "mark"]
        ins = [e.instr if e.kind == "push" else None for e in seq]
        if not ins or ins[0] != "VarPathName" or not seq[0].payload:
            continue
        o = mir.strip_all(seq[0].payload[0])
        if o[0] == "agg" and o[3]:
            o = mir.strip_all(o[3][0])
        elif o[0] == "call" and o[2]:
            # the path is built by a private helper that is handed the name
            ps = [mir.strip_all(a) for a in o[2] if mir.strip_all(a)[0] == "param"]
            o = ps[0] if len(ps) == 1 else o
        if o[0] != "param":
            continue
        if ins == ["VarPathName", "CopyAToVarPath"]:
            stores[f.id] = o[1]
        elif ins == ["VarPathName", "CopyVarPathToA", "PopVarPath"]:
            loads[f.id] = o[1]
    _memo[id(prog)] = (stores, loads)
    return stores, loads


def _cell_key(o):
    """the variable a Name-valued origin stands for, looked at through references, clones and Option"""
    while True:
        o = mir.strip_all(o)
        if o[0] == "agg" and (o[2] or "").endswith("::Some") and o[3]:
            o = o[3][0]
        elif o[0] == "field" and mir.strip_all(o[1])[0] == "downcast" and mir.strip_all(o[1])[2] == "Some":
            o = mir.strip_all(o[1])[1]
        else:
            return o


def _register_terms(prog, T, f, table, entry):
    """Symbolic values of the VM registers along every emission path of f: yields
    (event, registers before the event).  Copies move terms, Cast wraps A, PushRegisters /
    PopRegisters save and restore the four registers, the value stack is a stack of terms, and a
    variable of the generator's own making (stored / loaded through an emitter that does nothing
    else) is a cell that holds the term stored last (regs["cells"]); such a variable cannot be
    written by user code (C02.R12)."""
    memo = {}
    cstores, cloads = _cell_emitters(prog, T)
    for seq in emit.linear_paths(f.body, T.evs(f)):
        regs = dict(entry)
        cells = {}
        vstack, frames = [], []
        for i, e in enumerate(seq):
            snap = dict(regs)
            snap["cells"] = dict(cells)
            yield e, snap, seq, i
            if e.kind == "push":
                ins = e.instr
                m = re.match(r"^Copy([A-D])To([A-D])$", ins or "")
                if ins == "PushRegisters":
                    frames.append(dict(regs))
                elif ins == "PopRegisters":
                    regs = frames.pop() if frames else {r: ("unknown",) for r in "abcd"}
                elif ins == "PushAToValueStack":
                    vstack.append(regs["a"])
                elif ins == "PopValueStackIntoA":
                    regs["a"] = vstack.pop() if vstack else ("unknown",)
                elif m:
                    regs[m.group(2).lower()] = regs[m.group(1).lower()]
                elif ins == "Cast":
                    regs["a"] = ("Cast", regs["a"])
                else:
                    rd, wr = table.get(ins, (set(), set("abcd"))) if ins else (set(), set("abcd"))
                    val = (ins or "?",) + tuple(regs[r] for r in sorted(rd))
                    for w in wr:
                        regs[w] = val
            elif e.kind == "EXPR":
                regs["a"] = ("EXPR", e.line)
                if not common.evaluates_for_counter(prog, T, f, e):
                    for r in "bcd":
                        regs[r] = ("after-EXPR", e.line)
            elif e.kind in ("BLOCK", "STMT"):
                if not frames:
                    regs = {r: ("after-user-code", e.line) for r in "abcd"}
            elif e.kind == "gen" and e.callee is not None:
                if e.callee.id in cstores and len(e.args) > cstores[e.callee.id]:
                    cells[str(_cell_key(e.args[cstores[e.callee.id]]))] = regs["a"]
                    continue
                if e.callee.id in cloads and len(e.args) > cloads[e.callee.id]:
                    k = _cell_key(e.args[cloads[e.callee.id]])
                    regs["a"] = cells.get(str(k), ("cell@entry", str(k)))
                    continue
                if e.callee.name.startswith("generate_store") and common.evaluates_for_counter(prog, T, f, e):
                    continue
                for w in _gen_register_writes(prog, T, e.callee, table, memo):
                    regs[w] = ("gen", e.callee.name)


def _mentions(term, head):
    if isinstance(term, tuple):
        return (term and term[0] == head) or any(_mentions(x, head) for x in term[1:])
    return term == head


def _gens_in(term, prog):
    """generator functions named by ("gen", name) sub-terms"""
    out = []
    if isinstance(term, tuple):
        if len(term) == 2 and term[0] == "gen":
            out += [g for g in emit.generator_fns(prog) if g.name == term[1]]
        for x in term[1:]:
            out += _gens_in(x, prog)
    return out


def _evaluates_user_code(prog, T, g, seen=None):
    """the generator function (or one it calls) evaluates an expression other than the FOR counter"""
    seen = seen if seen is not None else set()
    if g.id in seen:
        return False
    seen.add(g.id)
    for e in T.evs(g).values():
        if e.kind in ("EXPR", "BLOCK", "STMT") and not common.evaluates_for_counter(prog, T, g, e):
            return True
        if e.kind == "gen" and e.callee is not None and _evaluates_user_code(prog, T, e.callee, seen):
            return True
    return False


def r10_for_step_as_evaluated(ctx, T, rule="C02.R10"):
    """`FOR as the equivalent WHILE ... for run-time-computed steps`: the WHILE spelling computes
    `counter = counter + step` - one addition of the step as it was evaluated, one conversion of the
    sum to the counter's type.  A FOR that converts the step first rounds twice (`STEP -1.5` on an
    INTEGER counter walks by -2).  Followed symbolically through the register moves of the FOR
    template: the second operand of the increment's Plus is the step register of the template's entry,
    moved but never passed through Cast; and what the callers put into that register is the evaluated
    step expression (or the constant of the STEP-less form), again without Cast."""
    prog = ctx.prog
    table = c15.register_effects(prog)
    loops = [f for f, _h, is_for in _loop_emitters(prog, T) if is_for]
    if not loops:
        raise CheckError("%s: FOR template not found" % rule)
    n = 0
    for f in loops:
        entry = {"a": ("A@entry",), "b": ("B@entry",), "c": ("C@entry",), "d": ("D@entry",)}
        construct = common.generator_construct_of(prog, f)
        seen_plus = False
        bad = None
        reeval = None
        step_regs = set()
        step_cells = set()

        def cell_terms(t):
            if isinstance(t, tuple):
                if t and t[0] == "cell@entry":
                    yield t[1]
                for x in t[1:]:
                    for y in cell_terms(x):
                        yield y

        for e, regs, seq, i in _register_terms(prog, T, f, table, entry):
            if e.kind == "push" and e.instr == "Plus" and any(x.kind == "BLOCK" for x in seq[:i]):
                seen_plus = True
                for r in "abcd":
                    if _mentions(regs["b"], r.upper() + "@entry"):
                        step_regs.add(r)
                m = [re.match(r"^arg(\d+)$", c) for c in cell_terms(regs["b"])]
                step_cells |= {int(x.group(1)) for x in m if x}
                if _mentions(regs["b"], "Cast"):
                    bad = (e, regs["b"])
                elif _mentions(regs["b"], "after-user-code") or _mentions(regs["b"], "unknown"):
                    bad = (e, regs["b"])
                elif _mentions(regs["b"], "EXPR") or any(_evaluates_user_code(prog, T, g_) for g_ in _gens_in(regs["b"], prog)):
                    # the step is evaluated again inside the loop: the equivalent WHILE adds the step the
                    # FOR line computed once (`FOR i = 1 TO 10 STEP s` with `s` assigned in the body)
                    reeval = (e, regs["b"])
        if not seen_plus:
            raise CheckError("%s: no increment (Plus after the body) in %s" % (rule, f.name))
        n += 1
        ctx.decide(reeval is None, rule, "%s:%s:step-evaluated-once" % (rule, construct), f.loc,
                   "the increment adds a value that was computed before the loop",
                   "the second operand of the increment's Plus at line %s is %s: the STEP expression is evaluated again on "
                   "every iteration, so a loop whose body changes a variable of the STEP expression walks differently from "
                   "the equivalent WHILE, which adds the step computed by the FOR line" %
                   (reeval[0].line if reeval else "", reeval[1] if reeval else ""))
        if reeval is not None:
            continue
        if not step_regs and not step_cells:
            raise CheckError("%s: the step of %s comes neither from a register nor from a variable handed in" % (rule, f.name))
        n += 1
        ctx.decide(bad is None, rule, "%s:%s:increment-adds-step-as-evaluated" % (rule, construct), f.loc,
                   "the step reaches the increment through register moves / a variable of its own only",
                   "the FOR template does not add the step as it was evaluated (second operand of Plus at line %s is %s): "
                   "the sum is converted again, so `FOR I%% = 10 TO 1 STEP -1.5` walks by -2 where the equivalent "
                   "WHILE with `I%% = I%% - 1.5` walks 10 9 8 7 ..." % (bad[0].line if bad else "", bad[1] if bad else ""))
        # the callers: what they leave in the step register(s) / the step variable
        for g in sorted(emit.generator_fns(prog), key=lambda x: x.id):
            if g.id == f.id or not any(e.kind == "gen" and e.callee is not None and e.callee.id == f.id
                                       for e in T.evs(g).values()):
                continue
            entry_g = {r: (r.upper() + "@caller",) for r in "abcd"}
            worst = None
            calls = 0
            for e, regs, seq, i in _register_terms(prog, T, g, table, entry_g):
                if e.kind == "gen" and e.callee is not None and e.callee.id == f.id:
                    calls += 1
                    for r in step_regs:
                        if _mentions(regs[r], "Cast"):
                            worst = (e, regs[r])
                    for k in step_cells:
                        if len(e.args) <= k:
                            continue
                        key = _cell_key(e.args[k])
                        if key[0] == "agg" and (key[2] or "").endswith("::None"):
                            continue        # the STEP-less form: the template adds its own constant
                        held = regs["cells"].get(str(key))
                        if held is None or held[0] != "EXPR":
                            worst = (e, held)
            n += 1
            ctx.decide(worst is None, rule, "%s:%s:step-register-holds-evaluated-step" % (rule, construct), g.loc,
                       "the step register / variable holds the step expression's value (or the constant of the STEP-less form)",
                       "the step is converted before the loop starts, or is not the evaluated STEP expression (at the call in "
                       "line %s the step holds %s): FOR with a fractional step on an integer counter no longer behaves like the "
                       "equivalent WHILE" % (worst[0].line if worst else "", worst[1] if worst else ""))
    ctx.analysed_units(rule, for_templates=[f.name for f in loops])
    ctx.require(rule, 2)


COMPARISONS = ("Equal", "NotEqual", "Less", "Greater", "LessOrEqual", "GreaterOrEqual")


def r11_tested_value_is_not_a_bitwise_complement(ctx, rule="C02.R11"):
    """A conditional jump tests `A is not zero`; NOT is the bitwise complement.  The two agree on the
    outcome only for -1 and 0, i.e. for comparison results: `NotA` followed by a conditional jump is
    sound after a comparison instruction and wrong after an arbitrary user expression (`DO UNTIL n` with
    n = 1: NOT 1 is -2, still `true`, the loop never ends).  Walked over every emission path of every
    generator function; an expression evaluated by a callee leaves an arbitrary value in A."""
    prog = ctx.prog
    n_paths = n_not = 0
    bad = {}
    for g in sorted(emit.generator_fns(prog), key=lambda f: f.id):
        evs = emit.events(prog, g)
        if not any(e.kind == "push" and e.instr == "NotA" for e in evs.values()):
            continue
        for seq in emit.linear_paths(g.body, evs, unroll=1):
            n_paths += 1
            a = "unknown"
            for e in seq:
                if e.kind in ("EXPR", "gen", "BLOCK", "STMT"):
                    a = "user"
                elif e.kind == "push":
                    if e.instr in COMPARISONS:
                        a = "flag"
                    elif e.instr == "NotA":
                        n_not += 1
                        a = "flag" if a == "flag" else "complement-of-" + a
                    elif e.instr in ("LoadIntoA", "CopyDToA", "PopValueStackIntoA", "CopyVarPathToA", "And", "Or", "Plus",
                                     "Minus", "Multiply", "Divide", "Modulo", "NegateA", "Cast", "FixLength",
                                     "UnStashFunctionReturnValue", "DequeueFromReturnStack", "AllocateBuiltIn",
                                     "AllocateFixedLengthString", "AllocateArrayIntoA", "AllocateUserDefined",
                                     "IsVariableDefined"):
                        a = "flag" if e.instr == "IsVariableDefined" else "other"
                elif e.kind == "jump_if_false":
                    if a.startswith("complement-of-"):
                        bad.setdefault(g.id, (g, e.line, a))
    used = {}
    for gid, (g, line, a) in sorted(bad.items()):
        base = "%s:%s" % (rule, common.generator_construct_of(prog, g))
        used[base] = used.get(base, 0) + 1
        ctx.violation(rule, base if used[base] == 1 else "%s#%d" % (base, used[base] - 1), "%s:%s" % (g.file, line),
                      "%s emits NotA on a value that is not a comparison result (%s) and then a conditional jump: the "
                      "jump tests `NOT x <> 0`, which is true for every x except -1 - UNTIL with a condition like `n` or "
                      "`a AND 4` never becomes true" % (g.name, a[len("complement-of-"):]))
    ctx.decide(True, rule, rule + ":paths-walked", "instruction_generator", "%d paths, %d NotA emissions" % (n_paths, n_not))
    ctx.analysed_units(rule, emission_paths=n_paths, nota_on_paths=n_not)
    ctx.require(rule, 1)


def r13_conversions_only_in_front_of_typed_places(ctx, rule="C02.R13"):
    """`SELECT CASE as the equivalent IF chain`, `FOR as the equivalent WHILE`: a value is converted to another
    type exactly where BASIC prescribes it - when it is stored into a variable, handed to a typed parameter, or
    used as a subscript.  A comparison converts nothing (`CASE IS < 2.4` on an INTEGER compares 2 with 2.4, as
    `IF i% < 2.4` does).  Every call of the converting expression emitter is therefore directly followed by an
    emission that consumes A into a typed place: a store (an emitter that ends in CopyAToVarPath), PushNamed or
    VarPathIndex - never by a comparison, a register copy or a jump."""
    prog = ctx.prog
    from .c03 import _emitted_instructions
    casting = [f for f in emit.generator_fns(prog) if f.name == "generate_expression_instructions_casting"]
    if len(casting) != 1:
        raise CheckError("%s: anchor generate_expression_instructions_casting" % rule)
    cid = casting[0].id
    wrappers = {cid}
    for f in emit.generator_fns(prog):
        evs = [e for e in emit.events(prog, f).values() if e.kind != "mark"]
        if len(evs) == 1 and evs[0].callee is not None and evs[0].callee.id == cid:
            wrappers.add(f.id)
    n = 0
    for f in sorted(emit.generator_fns(prog), key=lambda x: x.id):
        if f.id in wrappers:
            continue
        evs = emit.events(prog, f)
        bad = {}
        sites = set()
        for seq in emit.linear_paths(f.body, evs):
            for i, e in enumerate(seq):
                if e.callee is None or e.callee.id not in wrappers:
                    continue
                sites.add(e.line)
                nxt = next((x for x in seq[i + 1:] if x.kind != "mark"), None)
                ok = False
                if nxt is not None:
                    if nxt.kind == "push" and nxt.instr in ("PushNamed", "VarPathIndex", "CopyAToVarPath"):
                        ok = True
                    elif nxt.callee is not None and nxt.kind == "gen" and "CopyAToVarPath" in _emitted_instructions(prog, nxt.callee):
                        ok = True
                if not ok:
                    bad[e.line] = nxt.show() if nxt is not None else "nothing"
        for line in sorted(sites):
            n += 1
            k = sum(1 for x in ctx.obs if x.key.startswith("%s:%s" % (rule, f.name)))
            ctx.decide(line not in bad, rule, "%s:%s%s" % (rule, f.name, "#%d" % k if k else ""), "%s:%s" % (f.file, line),
                       "the converted value goes straight into a typed place",
                       "%s converts a value to a target type and then emits %s: the converted value is not stored or passed "
                       "but compared / used - a CASE value is rounded to the type of the selected value before the comparison, "
                       "which the equivalent IF chain does not do" % (f.name, bad.get(line)))
    ctx.analysed_units(rule, conversions=n)
    ctx.require(rule, 4)


def _copied_operator(prog, f, op, callers, depth=0, seen=None):
    """None when the operand is, on every definition, the operator of a node the function received (a field of a
    parameter / of something read out of one), followed through bare parameters to the callers; else a reason"""
    from .c04 import _all_origins
    seen = seen if seen is not None else set()
    for o in _all_origins(f.body, op):
        so = mir.strip_all(o)
        while so[0] in ("ref", "deref", "clone", "cast"):
            so = mir.strip_all(so[1])
        if so[0] in ("field", "downcast", "index"):
            root = so
            while root[0] in ("field", "downcast", "index", "ref", "deref", "clone"):
                root = root[1]
            if root[0] in ("param", "local", "call"):
                continue            # read out of a node that exists
            return "%s made from %s" % (f.name, mir.short_origin(o)[:80])
        if so[0] == "param":
            if depth >= 4 or (f.id, so[1]) in seen:
                continue
            seen.add((f.id, so[1]))
            enc = f
            if f.kind == "closure":
                continue            # the argument of a closure: the element of the list it is mapped over
            for cid in sorted(callers.get(enc.id, ())):
                g = prog.fns.get(cid)
                if g is None or g.body is None or g.crate not in ("rusty_linter", "rusty_basic"):
                    continue
                for b, t in g.body.calls():
                    if mir.callee_of(t) == f.id and so[1] < len(t["args"]):
                        r = _copied_operator(prog, g, t["args"][so[1]], callers, depth + 1, seen)
                        if r:
                            return r
            continue
        return "%s: %s" % (f.name, mir.short_origin(o)[:100])
    return None


def r14_operators_are_copied(ctx, rule="C02.R14"):
    """`loops test their condition where and with the sense the statement specifies`: a condition is tested with
    the operator the programmer wrote.  After the parser, nothing chooses an operator: wherever the checker or
    the generator builds a BinaryExpression / UnaryExpression node (conversion, casting, reduction of undefined
    functions), the operator of the new node is the operator of the node it is built from - a field of a value
    the function received, followed through plain parameters to the callers.  A node whose operator comes out
    of a table or a constant (`DO UNTIL a < b` rewritten to `DO WHILE a > b`) is reported."""
    prog = ctx.prog
    callers = prog.callers()
    n = 0
    for f in sorted(prog.fns.values(), key=lambda f: f.id):
        if f.crate not in ("rusty_linter", "rusty_basic") or f.body is None:
            continue
        if re.search(r" as std::clone::Clone>::clone$", f.path):
            continue
        for b, blk in enumerate(f.body.blocks):
            if f.body.is_cleanup(b):
                continue
            for s in blk["s"]:
                r = s.get("r") if s["k"] == "assign" else None
                if not r or r["k"] != "agg" or r.get("a") != "adt" or not r["adt"].endswith("::Expression") \
                        or r.get("variant") not in ("BinaryExpression", "UnaryExpression"):
                    continue
                n += 1
                why = _copied_operator(prog, f, r["ops"][0], callers)
                ctx.decide(why is None, rule, "%s:%s:%s" % (rule, f.name if f.kind != "closure" else prog.enclosing_fn(f).name + "{closure}", r["variant"]), f.loc,
                           "the operator of the %s built here is the operator of the node it is built from" % r["variant"],
                           "%s builds a %s whose operator is not the operator of the node it was built from (%s): the "
                           "condition is tested with an operator the programmer did not write" % (f.name, r["variant"], why))
    ctx.require(rule, 3)


def run(ctx):
    common.install(ctx)
    T = templates.Templates(ctx.prog)
    c15.r1_single_emission(ctx, "C02.R1")
    r2_label_discipline(ctx, T)
    r3_register_frames(ctx, T)
    r4_loop_templates(ctx, T)
    r5_label_names_injective(ctx)
    r6_template_reachability(ctx)
    from . import c05
    c05.r2_mark_after_block(ctx, "C02.R7")
    c15.r8_register_liveness(ctx, "C02.R8")
    r9_statement_lists_are_repetitions(ctx)
    r10_for_step_as_evaluated(ctx, T)
    r11_tested_value_is_not_a_bitwise_complement(ctx)
    r13_conversions_only_in_front_of_typed_places(ctx)
    r14_operators_are_copied(ctx)
    from . import c03
    c03.r12_generator_made_variables_live_with_the_call(ctx, "C02.R15")
