#!/usr/bin/env python3
"""maintenance helper (not used by checks): add a known finding."""
import json, sys
def add(prop, key, what, inp, obs):
    kf = json.load(open('/verif/known_findings.json'))
    kf["findings"] = [f for f in kf["findings"] if not (f["property"] == prop and f["key"] == key)]
    kf["findings"].append({"property": prop, "key": key, "what_fails": what, "input": inp, "observed": obs})
    json.dump(kf, open('/verif/known_findings.json', 'w'), indent=1)
if __name__ == "__main__":
    add(*sys.argv[1:6])
