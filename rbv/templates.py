"""Depth analysis of the instruction generator's templates (C15.R4, shared with C02/C03/C04).

Every generator function is summarised by the set of net effects of the code it emits on the
lexically bracketed VM stacks (value, register, context-states, var-path), using the
per-instruction effects derived from interpret_one (rbv.vm).  Recursion is solved by fixpoint, bool
/int constant arguments specialise the callee (consume_var_path, is_positive, ...).  Label and
jump sites with constant names are exported with their depth relative to the construct emitter so
that a jump and its label can be compared."""
from . import emit, flow, mir, vm

LEX = ["value", "reg", "ctx"]
# RESUME* pop the handler context that the error edge of the fetch-execute loop pushed
# (C05.R3 decides that pairing); inside a template they are neutral.
PAIRED_WITH_ERROR_EDGE = ("Resume", "ResumeNext", "ResumeLabel")
IDX = [vm.DIMS.index(d) for d in LEX]


def project(vec):
    return tuple(vec[i] for i in IDX)


class Templates:
    def __init__(self, prog):
        self.prog = prog
        self.vm = vm.VM(prog)
        eff, self.interpret_one = self.vm.instruction_effects()
        self.instr_effects = {k: sorted({project(v) for v in vs}) for k, vs in eff.items()}
        for k in PAIRED_WITH_ERROR_EDGE:
            if k in self.instr_effects:
                self.instr_effects[k] = [tuple([0] * len(LEX))]
        self.full_effects = eff
        self.events = {}
        self.unknown_pushes = []
        self.cf = flow.CounterFlow(prog, len(LEX), self._call_effect)
        self._sites_memo = {}
        self._low_memo = {}

    def evs(self, fn):
        if fn.id not in self.events:
            self.events[fn.id] = emit.events(self.prog, fn)
        return self.events[fn.id]

    def _call_effect(self, fn, body, b, t, pv):
        if not emit.is_generator_fn(fn):
            return None
        e = self.evs(fn).get(b)
        if e is None:
            return None
        if e.kind == "push":
            if e.instr is None:
                self.unknown_pushes.append((fn.path, e.line))
                return None
            eff = self.instr_effects.get(e.instr)
            if eff is None:
                self.unknown_pushes.append((fn.path, e.line))
                return None
            if not eff:       # instruction never completes (Throw): no fallthrough effect
                return ("delta", [self.cf.zero])
            return ("delta", eff)
        if e.kind in ("label", "jump", "jump_if_false", "mark"):
            return None
        return ("callee", e.callee, flow.const_args_of(t))

    def summary(self, fn, const_args=None):
        if const_args is None:
            const_args = tuple([None] * fn.argc)
        return self.cf.summary(fn, const_args)

    # ------------------------------------------------------------ sites
    def sites(self, fn, const_args, stack=()):
        """[(kind, name|None, frozenset(rel depth vecs), fn, line)] for label/jump events of fn and
        of the `gen` helpers it calls (not descending into BLOCK/STMT/EXPR)."""
        key = (fn.id, tuple(const_args))
        if key in self._sites_memo:
            return self._sites_memo[key]
        if key in stack:
            return []
        out = []
        evs = self.evs(fn)

        def on_event(b, cur, _out):
            e = evs.get(b)
            if e is None:
                return
            depths = frozenset(v for v, err in cur if not err)
            if e.kind in ("label", "jump", "jump_if_false"):
                out.append((e.kind, e.name, depths, fn, e.line))
            elif e.kind == "gen":
                t = fn.body.term(b)
                sub = self.sites(e.callee, flow.const_args_of(t), stack + (key,))
                for kind, name, rel, f2, line in sub:
                    shifted = frozenset(flow.vadd(d, r) for d in depths for r in rel)
                    out.append((kind, name, shifted, f2, line))
        self.cf.analyze(fn, const_args, on_event=on_event)
        # the dataflow may visit a block several times: keep the last (largest) record per site
        merged = {}
        for kind, name, depths, f2, line in out:
            k = (kind, name, f2.id, line)
            merged[k] = merged.get(k, frozenset()) | depths
        res = [(k[0], k[1], d, self.prog.fns[k[2]], k[3]) for k, d in merged.items()]
        self._sites_memo[key] = res
        return res

    def lowest(self, fn, const_args, stack=()):
        """Component-wise minimum depth (relative to entry) reached inside fn incl. helpers."""
        key = (fn.id, tuple(const_args))
        if key in self._low_memo:
            return self._low_memo[key]
        if key in stack:
            return self.cf.zero
        low = [0] * len(LEX)
        evs = self.evs(fn)

        def on_event(b, cur, out):
            for v, err in list(cur) + list(out):
                if err:
                    continue
                for i, x in enumerate(v):
                    low[i] = min(low[i], x)
            e = evs.get(b)
            if e is not None and e.callee is not None and e.kind in ("gen", "EXPR"):
                t = fn.body.term(b)
                sub = self.lowest(e.callee, flow.const_args_of(t), stack + (key,))
                for v, err in cur:
                    if err:
                        continue
                    for i, x in enumerate(v):
                        low[i] = min(low[i], x + sub[i])
        self.cf.analyze(fn, const_args, on_event=on_event)
        res = tuple(low)
        self._low_memo[key] = res
        return res


def vec_str(v):
    parts = ["%s%+d" % (d, k) for d, k in zip(LEX, v) if k]
    return "{" + ", ".join(parts) + "}" if parts else "{balanced}"
