"""C06 - a numeric variable only holds values of its type and range (C06.R1-R4)."""
import re
from .. import emit, mir, optables as ot, tagflow as tf
from ..core import CheckError
from . import common

LEVEL = "other"
EXPLANATION = (
    "(R1) for every binary operator and every pair of numeric types the checker's static result "
    "type (cast_binary_op_q - it decides whether a Cast is emitted before a store) is compared with "
    "the set of tags the VM's handler can produce for operands of those tags (abstract "
    "interpretation of handlers::* -> Variant::* incl. FitToType): static = Some(q) must imply every "
    "dynamic tag = q; exhaustive over 13x4x4 + 2x4 cells.  (R2) every emission of a store into a "
    "variable is preceded by a conversion to the target type, a fresh allocation, or the by-ref "
    "write-back; INPUT/READ convert through the target's qualifier.  (R3) interval dataflow over MIR: "
    "where a payload computed by integer arithmetic is wrapped into Variant::VInteger/VLong its "
    "interval (payloads of existing values assumed in range - the invariant, by induction) lies "
    "inside the type's range, i.e. a range check dominates the constructor.  (R4) the conversion table "
    "Variant::cast x TypeQualifier yields the target tag or Overflow/TypeMismatch on every cell.  (R5, R6) "
    "allocation table and casting emitter (shared with C04).  (R7) every narrowing conversion of "
    "QBNumberCast tests the range of the very value it converts (the rounded one), sibling rule over all "
    "impls.  (R8) an argument passed by reference is accepted only with the parameter's exact type, for "
    "each of the three by-reference forms (the write-back after the call stores without a cast; shared "
    "with C12.R4).  (R12) every result of a float + - * / on two run-time operands and every narrowing of a double to a single is tested with is_finite before it becomes a value (Overflow instead of infinity); R7 also covers the functions of the value arithmetic that pick the narrowest type for a float result (no unguarded, saturating float-to-integer conversion).  (R13) a size or address narrowed to i32 in the VM's value code (LEN, VARPTR, VARSEG, INSTR) is compared with a bound first."
    " (R7, extended) the range test of a narrowing conversion is followed into the helper of the same file that performs the conversion."
    " (R14) a float that enters the VM from text (str::parse), from bytes or from digit-by-digit accumulation is tested with is_finite in the function that obtains it."
    " (R15) the payload of an existing INTEGER / LONG value written through a reference receives the result of a conversion function or a copy, never an operation computed on the spot."
    " (R16 = C03.R9 / R3) the pending by-reference write-backs of a call are not mixed up with those of a call made while they are written back."
    " (R17) every narrowing float cast (f64 as f32) outside the parser is followed on every path by an is_finite test of its result: a DOUBLE beyond the SINGLE range raises Overflow however it is written, it is never stored as infinity.")
NOT_DECIDED = [
    "rounding direction and the exact boundary constants of each conversion (value-level)",
    "C06.R3 covers payloads computed by integer arithmetic inside the constructing function; values "
    "arriving through parameters, casts or calls are out of its scope",
]

NUMQ = ["BangSingle", "HashDouble", "PercentInteger", "AmpersandLong"]


def _self_normalising_ops(prog, T):
    """operators whose lowering pushes Cast(q) right after the operator's instruction with q taken
    from the BinaryExpression's own static type (field 3, BuiltIn.0): whatever tag the handler
    produced, the value continues with the static type."""
    gfn, gtab = T.generator_operator_table()
    evs = emit.events(prog, gfn)
    from_own_type = False
    for e in evs.values():
        if e.kind == "push" and e.instr == "Cast" and e.payload:
            o = e.payload[0]
            if mir.origin_mentions(o, lambda x: x[0] == "field" and len(x) > 4 and x[2] == "3"
                                   and x[4] == "BinaryExpression"):
                from_own_type = True
    if not from_own_type:
        return set()
    out = set()
    body = gfn.body
    sws = [s for s in mir.enum_switches(prog, body) if s.adt == ot.OP]
    sw = max(sws, key=lambda s: len(s.arms))
    # the only test that may stand between the operator's instruction and its Cast: `is the static type a
    # built-in type` (a switch over ExpressionType, followed on its BuiltIn arm only)
    tsw = {s.bb: s for s in mir.enum_switches(prog, body) if s.adt.endswith("::ExpressionType")}
    for op, instrs in gtab.items():
        if not (instrs and instrs[-1] == "Cast" and instrs[0] == op):
            continue
        region = mir.arm_region(body, sw.bb, sw.arms[op])
        pops = [b for b in region if b in evs and evs[b].kind == "push" and evs[b].instr == op]
        pcs = {b for b in region if b in evs and evs[b].kind == "push" and evs[b].instr == "Cast"}
        escaped = False
        seen = set()
        st = list(pops)
        while st and not escaped:
            b = st.pop()
            if b in seen or b in pcs or body.is_cleanup(b):
                continue
            seen.add(b)
            if b not in region:
                escaped = True
                break
            if b in tsw:
                tgt = tsw[b].arms.get("BuiltIn")
                st.extend([tgt] if tgt is not None else body.succ(b))
                continue
            st.extend(x for x in body.succ(b) if not body.is_cleanup(x))
        if not escaped:
            out.add(op)
    return out


def r1_static_vs_dynamic(ctx, T, rule="C06.R1"):
    prog = ctx.prog
    normalised = _self_normalising_ops(prog, T)
    q2t = T.qualifier_tags()
    one, htab = T.handler_table()
    ops = prog.variants(ot.OP)
    sfn = None
    for op in ops:
        hs = htab.get(op, [])
        if len(hs) != 1:
            raise CheckError("no unique handler for Instruction::%s" % op)
        for lq in NUMQ:
            for rq in NUMQ:
                sfn, st = T.static_type(op, lq, rq)
                tags, errs = T.vm(hs[0], q2t[lq], q2t[rq])
                key = "%s:%s(%s,%s)" % (rule, op, lq, rq)
                if "?" in st or "?" in tags:
                    ctx.unknown(rule, key, sfn.loc, "static %s dynamic %s" % (st, tags))
                    continue
                if st == {None}:
                    ctx.ok(rule, key, sfn.loc, "rejected by the checker")
                    continue
                if len(st) != 1:
                    ctx.unknown(rule, key, sfn.loc, "static type not single-valued: %s" % st)
                    continue
                want = q2t[next(iter(st))]
                bad = [t for t in tags if t != want]
                if op in normalised:
                    ctx.ok(rule, key, sfn.loc, "the lowering converts the handler's result (%s) to the static "
                           "type %s with Cast" % (tags, want))
                    continue
                ctx.decide(not bad, rule, key, sfn.loc, "static %s = dynamic %s" % (want, tags),
                           "the checker types `%s %s %s` as %s (so no Cast is emitted when the target "
                           "has that type) but the VM's handler can produce %s: a value of another "
                           "type is stored in the variable" % (lq, op, rq, next(iter(st)), tags),
                           {"handler": hs[0].path})
    # unary
    for u, ins in (("Minus", "NegateA"), ("Not", "NotA")):
        hs = htab.get(ins, [])
        if len(hs) != 1:
            raise CheckError("no unique handler for Instruction::%s" % ins)
        for q in NUMQ:
            tags, errs = T.vm(hs[0], q2t[q], None)
            key = "%s:%s(%s)" % (rule, u, q)
            ctx.decide(tags == [q2t[q]], rule, key, hs[0].loc, "result keeps the operand type",
                       "unary %s on %s yields %s: the checker types it as the operand type" % (u, q, tags))
    ctx.require(rule, 13 * 16 + 8)


def r4_cast_table(ctx, T, rule="C06.R4"):
    prog = ctx.prog
    fs = [f for f in prog.fns.values() if f.name == "cast" and f.impl
          and "CastVariant" in (f.impl.get("trait_ref") or "") and f.impl["self_ty"].endswith("Variant")]
    if len(fs) != 1:
        raise CheckError("anchor <Variant as CastVariant>::cast")
    fn = fs[0]
    q2t = T.qualifier_tags()
    for src in ot.BUILTIN_TAGS:
        for q in prog.variants(ot.TQ):
            rs = T.eng.summary(fn, (tf.Tag(ot.VARIANT, src, [tf.TOP]), tf.Tag(ot.TQ, q)))
            oks, errs = set(), set()
            for x in rs:
                x = tf.deref(x)
                if x[0] == "tag" and x[2] == "Ok":
                    v = tf.deref(x[3][0])
                    oks.add(v[2] if v[0] == "tag" else "?")
                elif x[0] == "tag" and x[2] == "Err":
                    e = tf.deref(x[3][0])
                    errs.add(e[2] if e[0] == "tag" else "?")
                else:
                    oks.add("?")
            key = "%s:cast(%s->%s)" % (rule, src, q)
            good = oks <= {q2t[q]} and errs <= {"Overflow", "TypeMismatch", "NotFiniteNumber"}
            str_mix = (src == "VString") != (q == "DollarString")
            if str_mix:
                good = good and not oks and errs == {"TypeMismatch"}
            ctx.decide(good, rule, key, fn.loc, "-> %s / %s" % (sorted(oks), sorted(errs)),
                       "cast of a %s to %s can yield %s / errors %s" % (src, q, sorted(oks), sorted(errs)))
    ctx.require(rule, 25)


VALUE_KINDS_OK = ("EXPR:generate_expression_instructions_casting",)
ARITH_INSTR = ("Plus", "Minus", "Multiply", "Divide", "Modulo", "NegateA", "NotA", "And", "Or")


def r2_store_routes(ctx, rule="C06.R2", strings_only=False):
    """Each store emission (call to a store emitter / push(CopyAToVarPath)) is preceded by a
    converting producer."""
    prog = ctx.prog
    store_fns = set()
    gens = emit.generator_fns(prog)
    evs_of = {f.id: emit.events(prog, f) for f in gens}
    # store emitters: functions whose emission is just a path + CopyAToVarPath (possibly via another)
    changed = True
    while changed:
        changed = False
        for f in gens:
            if f.id in store_fns:
                continue
            seqs = emit.linear_paths(f.body, evs_of[f.id])
            if not seqs:
                continue
            ok = True
            for seq in seqs:
                kinds = [(e.kind, e.instr, e.callee.id if e.callee else None) for e in seq]
                last = kinds[-1] if kinds else None
                if last is None:
                    ok = False
                    break
                is_store_tail = (last[0] == "push" and last[1] == "CopyAToVarPath") or \
                                (last[0] == "gen" and last[2] in store_fns)
                rest = kinds[:-1]
                # everything before the tail only builds the variable path
                rest_ok = all((k[0] == "gen" and prog.fns[k[2]].name == "generate_path_instructions") or
                              (k[0] == "push" and k[1] in ("VarPathName", "VarPathIndex", "VarPathProperty"))
                              for k in rest)
                if not (is_store_tail and rest_ok):
                    ok = False
                    break
            if ok:
                store_fns.add(f.id)
                changed = True
    if not store_fns:
        raise CheckError("no store emitter found (generate_store_instructions)")
    n = 0
    for f in sorted(gens, key=lambda x: x.id):
        if f.id in store_fns:
            continue
        evs = evs_of[f.id]
        sites = [e for e in evs.values()
                 if (e.kind == "gen" and e.callee.id in store_fns) or (e.kind == "push" and e.instr == "CopyAToVarPath")]
        for e in sorted(sites, key=lambda x: x.bb):
            n += 1
            producers = _producers_before(f, evs, e.bb, prog)
            what = mir.short_origin(e.args[1]) if e.kind == "gen" and len(e.args) > 1 else "allocated value"
            key = "%s:%s:store(%s)" % (rule, f.name, what)
            loc = "%s:%s" % (f.file, e.line)
            bad = [p for p in producers if not _producer_converts(p, prog)]
            # a variable of the generator's own making whose type is taken from the stored expression
            # itself (the value a SELECT CASE selects on, the step of a FOR) needs no conversion: its
            # type *is* the static type of the value (which is the dynamic tag by C06.R1)
            if e.kind == "gen" and len(e.args) > 1:
                bad = [p for p in bad if not _variable_typed_by_value(e.args[1], p)]
            if strings_only:
                # arithmetic results are numeric; the checker rejects string FOR counters
                bad = [p for p in bad if not (p.kind == "push" and p.instr in ARITH_INSTR)]
            if not producers:
                ctx.unknown(rule, key, loc, "no value producer found before the store")
            elif bad:
                ctx.violation(rule, key, loc,
                              "the value stored here is produced by %s with no conversion to the "
                              "target's type in between (no Cast/FixLength): a value of another "
                              "numeric type reaches the variable" % ", ".join(sorted({p.show() for p in bad})),
                              {"function": f.path})
            else:
                ctx.ok(rule, key, loc, "produced by %s" % ", ".join(sorted({p.show() for p in producers})))
    if strings_only:
        ctx.analysed_units(rule, store_emitters=sorted(prog.fns[s].name for s in store_fns), sites=n)
        ctx.require(rule, 7)
        return
    # loop limits: the value copied to the limit register (C) is converted to the counter's type
    for f in sorted(gens, key=lambda x: x.id):
        evs = evs_of[f.id]
        for e in sorted([e for e in evs.values() if e.kind == "push" and e.instr == "CopyAToC"], key=lambda x: x.bb):
            n += 1
            producers = _producers_before(f, evs, e.bb, prog)
            bad = [p for p in producers if not _producer_converts(p, prog)]
            ctx.decide(bool(producers) and not bad, rule, "%s:%s:loop-limit" % (rule, f.name),
                       "%s:%s" % (f.file, e.line), "limit produced by the casting emitter",
                       "the FOR limit copied to register C is produced by %s without conversion to the "
                       "counter's type: `FOR i%% = 1 TO 2.75` no longer rounds the limit once at entry"
                       % ", ".join(sorted({p.show() for p in bad})))
    # run-time routes: READ and INPUT convert with the target's qualifier through cast
    for mod, fname in (("read", "run"), ("input", "do_input_one_var")):
        fs = [x for x in prog.fns.values() if x.name == fname and ("built_ins::%s::" % mod) in x.id and x.kind == "fn"]
        if len(fs) != 1:
            raise CheckError("anchor built_ins::%s::%s" % (mod, fname))
        fx = fs[0]
        reach = prog.reachable_from([fx])
        casts = [r for r in reach if r.endswith("::cast") and "qb_casting" in r]
        n += 1
        ctx.decide(bool(casts), rule, "%s:%s:converts-through-cast" % (rule, mod.upper()), fx.loc,
                   "value converted with CastVariant::cast",
                   "%s stores external data without CastVariant::cast (no range check for the "
                   "target's type)" % mod.upper())
    ctx.analysed_units(rule, store_emitters=sorted(prog.fns[s].name for s in store_fns), sites=n)
    ctx.require(rule, 10)


def _variable_typed_by_value(target, producer):
    """The store target is a name built by a call one of whose arguments is the qualifier of
    `X.expression_type()` (looked at through opt_qualifier / unwrap_or(.., fallback) / refs), X being
    the very expression the producer evaluates uncast."""
    if producer.kind != "EXPR" or len(producer.args) < 2:
        return False
    x = mir.strip_all(producer.args[1])
    t = mir.strip_all(target)
    if t[0] != "call":
        return False
    for a in t[2]:
        a = mir.strip_all(a)
        while a[0] == "call" and a[2] and a[1].split("::")[-1] in ("unwrap_or", "opt_qualifier"):
            a = mir.strip_all(a[2][0])
        if a[0] == "call" and a[1].split("::")[-1] == "expression_type" and a[2] and mir.strip_all(a[2][0]) == x:
            return True
    return False


def _type_gated_casts(prog, f, evs):
    """switch blocks `match <ExpressionType> { BuiltIn(q) => push(Cast(q)), _ => nothing }`: the
    other arms are types for which no numeric conversion exists (the casting emitter
    generate_expression_instructions_casting has the same shape). Returns {switch bb: blocks of
    the BuiltIn arm}."""
    out = {}
    for sw in mir.enum_switches(prog, f.body):
        if not sw.adt.endswith("::ExpressionType") or "BuiltIn" not in sw.arms:
            continue
        region = mir.arm_region(f.body, sw.bb, sw.arms["BuiltIn"])
        if any(evs.get(b) is not None and evs[b].kind == "push" and evs[b].instr == "Cast" for b in region):
            out[sw.bb] = region
    return out


def _fix_length_gates(prog, f, evs):
    """switch blocks `if let ExpressionType::FixedLengthString(n) = <type> { push(FixLength(n)) }`:
    {switch bb: blocks of the FixedLengthString arm}."""
    out = {}
    for sw in mir.enum_switches(prog, f.body):
        if not sw.adt.endswith("::ExpressionType") or "FixedLengthString" not in sw.arms:
            continue
        region = mir.arm_region(f.body, sw.bb, sw.arms["FixedLengthString"])
        if any(evs.get(b) is not None and evs[b].kind == "push" and evs[b].instr == "FixLength" for b in region):
            out[sw.bb] = region
    return out


def _producers_before(f, evs, bb, prog=None):
    """Nearest value-producing events on each backward path from the store site."""
    body = f.body
    preds = body.preds()
    gated = _type_gated_casts(prog, f, evs) if prog is not None else {}
    fix_gated = _fix_length_gates(prog, f, evs) if prog is not None else {}
    out = []
    seen = set()
    # (block, block we came from, number of value-stack pops still to be matched by a push)
    st = [(p, bb, 0) for p in preds.get(bb, [])]
    skipped_fix = set()
    while st:
        b, came_from, pending_pops = st.pop()
        if b in gated and came_from not in gated[b]:
            # the path on which the value's type is not a built-in numeric/string type
            continue
        if b in fix_gated and came_from not in fix_gated[b]:
            # the argument is not a fixed-length string on this path; remembered: only the by-ref
            # write-back (whose types are equal by C12.R4) may rely on that
            skipped_fix.add(b)
        if (b, pending_pops) in seen:
            continue
        seen.add((b, pending_pops))
        e = evs.get(b)
        if e is not None and skipped_fix and e.kind == "push" and e.instr == "DequeueFromReturnStack" and not pending_pops:
            # by-reference write-back: the dequeued value has the parameter's type, which equals the
            # argument's type; fixed-length strings were re-fixed on the other arm of the gate
            continue
        if e is not None and e.kind == "push" and e.instr == "PopValueStackIntoA":
            # the value comes back from the value stack: its producer is whatever was in A at the
            # matching PushAToValueStack
            st.extend((p, b, pending_pops + 1) for p in preds.get(b, []))
            continue
        if pending_pops:
            if e is not None and e.kind == "push" and e.instr == "PushAToValueStack":
                pending_pops -= 1
            st.extend((p, b, pending_pops) for p in preds.get(b, []))
            continue
        if e is not None and _is_producer(e):
            out.append(e)
            continue
        st.extend((p, b, 0) for p in preds.get(b, []))
    return out


def _is_producer(e):
    if e.kind == "EXPR":
        return True
    if e.kind == "push":
        return e.instr not in ("VarPathName", "VarPathIndex", "VarPathProperty", "PushAToValueStack", None) \
            or e.instr is None
    if e.kind == "gen":
        return e.callee.name not in ("generate_path_instructions",)
    return False


def _producer_converts(e, prog=None):
    if e.kind == "EXPR":
        return e.callee.name == "generate_expression_instructions_casting"
    if e.kind == "push":
        return e.instr in ("AllocateBuiltIn", "AllocateFixedLengthString", "AllocateArrayIntoA",
                           "AllocateUserDefined", "Cast", "FixLength")
    if e.kind == "gen":
        # by-ref write-back: the callee's parameter has exactly the argument's type (C12.R4);
        # strings are re-fixed to their length by a helper that emits nothing but FixLength
        return _emits_only_fix_length(e.callee, prog)
    return False


def _emits_only_fix_length(fn, prog, _memo={}):
    if prog is None:
        return fn.name == "generate_fix_string_length"
    if fn.id not in _memo:
        evs = emit.events(prog, fn)
        _memo[fn.id] = bool(evs) and all(x.kind == "push" and x.instr == "FixLength" for x in evs.values())
    return _memo[fn.id]


def r3_integer_constructors(ctx, rule="C06.R3", crates=("rusty_variant", "rusty_linter", "rusty_basic"),
                            adt="rusty_variant::variant::Variant", floor=4):
    """Interval dataflow: where a payload computed by integer arithmetic is wrapped into
    Variant::VInteger / VLong, its interval (payloads of existing Variants assumed in range) must
    lie inside the QBasic range of that type."""
    from .. import interval as iv
    prog = ctx.prog
    n_fns = 0
    n_sites = 0
    for fn in sorted(prog.fns.values(), key=lambda f: f.id):
        if fn.crate not in crates or fn.kind == "const":
            continue
        if common.is_derived(fn):
            continue
        mentions = False
        for blk in fn.body.blocks:
            for st in blk["s"]:
                if st["k"] == "assign" and st["r"]["k"] == "agg" and st["r"].get("adt") == adt \
                        and st["r"].get("variant") in iv.RANGED_ADTS[adt]:
                    mentions = True
            t = blk["t"]
            if t["k"] == "call":
                for a in t["args"]:
                    k = a.get("k") or {}
                    if any(("::%s::%s::{constructor#0}" % (adt.split("::")[-1], vv)) in (k.get("fn") or "")
                           for vv in iv.RANGED_ADTS[adt]):
                        mentions = True
        if not mentions:
            continue
        n_fns += 1
        sites = iv.Analysis(prog, fn).run()
        per_variant = {}
        for (b, i, variant), (line, val) in sorted(sites.items(), key=lambda x: (str(x[0][0]), str(x[0][1]))):
            if not iv.is_int(val) or not val[3]:
                continue    # not computed by arithmetic in this function: out of scope
            n_sites += 1
            lo, hi = iv.PAYLOAD_RANGE[variant]
            owner = prog.enclosing_fn(fn) or fn
            arm = _arm_of(prog, fn, b)
            ordinal = per_variant.setdefault((variant, arm), 0)
            per_variant[(variant, arm)] += 1
            key = "%s:%s:%s%s%s" % (rule, owner.path.split("::", 1)[1], variant, arm,
                                    "#%d" % ordinal if ordinal else "")
            loc = "%s:%s" % (fn.file, line)
            ctx.decide(lo <= val[1] and val[2] <= hi, rule, key, loc,
                       "payload in [%d, %d]" % (val[1], val[2]),
                       "a %s is built from integer arithmetic whose result ranges over [%d, %d] "
                       "(operands assumed in range), outside %d..%d, with no range check before the "
                       "value is wrapped: the out-of-range result is stored instead of raising Overflow"
                       % (variant, val[1], val[2], lo, hi), {"function": fn.path})
    ctx.analysed_units(rule, functions_with_integer_constructors=n_fns, arithmetic_sites=n_sites)
    ctx.require(rule, floor)


def _arm_of(prog, fn, b):
    """Name the match arms (over Variant) that enclose block b, for a stable key."""
    if b is None:
        return ""
    names = []
    for sw in mir.enum_switches(prog, fn.body):
        if sw.adt not in ("rusty_variant::variant::Variant", "rusty_parser::expr::types::Expression"):
            continue
        for v, tgt in sw.arms.items():
            if fn.body.dominates(tgt, b) and tgt != sw.bb:
                names.append((sw.bb, v))
    names.sort()
    return "".join("[%s]" % v for _bb, v in names)


def r7_guard_tests_converted_value(ctx, rule="C06.R7"):
    """The narrowing conversions (QBNumberCast float -> integer, LONG -> INTEGER) convert a value
    `v as iN` behind a range test.  The test must be on v itself - the value that is converted, i.e.
    the rounded one: a test on the unrounded operand raises Overflow for 32767.25 (rounds into range)
    or lets a value through that rounds out of range.  Sibling rule over all impls of the trait:
    every comparison / RangeInclusive::contains that guards the narrowing cast has the cast's operand
    (same origin) on its variable side."""
    prog = ctx.prog
    fns = [f for f in prog.fns.values() if f.crate == "rusty_linter" and f.name == "try_cast" and f.impl
           and (f.impl.get("trait") or "").endswith("::QBNumberCast")]
    # ... the helpers of the same file they hand the conversion to
    for f in list(fns):
        for c in prog.call_edges(f):
            g = prog.fns.get(c)
            if g is not None and g not in fns and g.file == f.file and g.kind == "fn" and g.body is not None and any(
                    st["k"] == "assign" and st["r"].get("k") == "cast" and st["r"].get("ck") == "FloatToInt"
                    for blk in g.body.blocks if not blk.get("c") for st in blk["s"]):
                fns.append(g)
    # ... and the functions of the value arithmetic that pick the narrowest type for a float result
    fns += [f for f in prog.fns.values() if f.crate == "rusty_variant" and f.kind != "closure"
            and "Variant" in f.body.locals[0]["ty"]
            and any(st["k"] == "assign" and st["r"].get("k") == "cast" and st["r"].get("ck") == "FloatToInt"
                    for blk in f.body.blocks if not blk.get("c") for st in blk["s"])]
    n = 0
    for f in sorted(fns, key=lambda f: f.path):
        body = f.body
        pv = mir.Prov(body)
        casts = []
        for b, blk in enumerate(body.blocks):
            if body.is_cleanup(b):
                continue
            for st in blk["s"]:
                r = st.get("r", {})
                if st["k"] != "assign" or r.get("k") != "cast":
                    continue
                src = pv.of_operand(r["o"])
                if r.get("ck") == "FloatToInt":
                    casts.append((b, mir.strip_all(src)))
                elif r.get("ck") == "IntToInt":
                    so = mir.op_place(r["o"])
                    sty = body.locals[so[0]]["ty"] if so is not None and not so[1] else ""
                    dty = body.locals[st["p"][0]]["ty"]
                    if (sty, dty) == ("i64", "i32"):
                        casts.append((b, mir.strip_all(src)))
        if not casts:
            continue
        guards = []
        for b, blk in enumerate(body.blocks):
            if body.is_cleanup(b):
                continue
            for st in blk["s"]:
                r = st.get("r", {})
                if st["k"] == "assign" and r.get("k") == "bin" and r["op"] in ("Ge", "Le", "Lt", "Gt"):
                    sides = [mir.strip_all(pv.of_operand(x)) for x in (r["a"], r["b"])]
                    var = [o for o in sides if not _const_origin(o)]
                    # a comparison with a float literal (`diff > 0.0001`) is no range test
                    if any(o[0] == "const" and re.search(r"\d(E-?\d+)?f(32|64)$", str(o[1])) for o in sides):
                        continue
                    guards.append((b, "comparison", var))
            t = blk["t"]
            if t["k"] == "call" and (t.get("cpath") or "").endswith("::contains") and "Range" in (t.get("cpath") or "") + (t.get("self_ty") or ""):
                guards.append((b, "contains", [mir.strip_all(pv.of_operand(t["args"][-1]))]))
        name = f.path.split("::", 1)[1]
        for cb, co in casts:
            n += 1
            dom = [(b, k, var) for b, k, var in guards if body.dominates(b, cb)]
            bad = [(k, [mir.short_origin(o) for o in var]) for b, k, var in dom if co not in var]
            ok = bool(dom) and not bad
            ctx.decide(ok, rule, "%s:%s" % (rule, name), f.loc,
                       "%d range tests, all on the converted value %s" % (len(dom), mir.short_origin(co)),
                       "%s converts %s but its range test is on %s: the guard and the conversion see different "
                       "values (a value that rounds into range is refused with Overflow, or one that rounds out "
                       "of range is let through)" % (name, mir.short_origin(co), bad if bad else "nothing"))
    ctx.analysed_units(rule, narrowing_conversions=n)
    ctx.require(rule, 5)


def _const_origin(o):
    return not mir.origin_mentions(o, lambda x: x[0] == "param")


def r9_range_constants_exact(ctx, rule="C06.R9"):
    """A range test `r <= (MAX as f32)` only means `r <= MAX` when MAX survives the conversion to the
    float type: 2147483647 is not an f32 (24-bit significand), `MAX_LONG as f32` is 2147483648.0, so
    the test lets 2147483648 through and a LONG variable holds a value outside its range.  Every
    integer constant that a conversion or range-check function of the value / casting code converts
    to a float type must be exactly representable in that type."""
    import struct
    prog = ctx.prog
    n = 0
    for f in sorted(prog.fns.values(), key=lambda f: f.id):
        if f.crate not in ("rusty_linter", "rusty_variant", "rusty_basic") or f.kind == "const":
            continue
        # promoted constants included: `(MIN as f32)..=(MAX as f32)` is built at compile time
        for blk in [bl for body in [f.body] + list(f.promoted) for bl in body.blocks if not bl.get("c")]:
            for st in blk["s"]:
                r = st.get("r", {})
                if st["k"] != "assign" or r.get("k") != "cast" or r.get("ck") != "IntToFloat":
                    continue
                k = (r.get("o") or {}).get("k") or {}
                if "int" not in k or not k.get("const_def"):
                    continue        # only named range constants (MIN_/MAX_INTEGER, MIN_/MAX_LONG ...)
                n += 1
                c = k["int"]
                ty = r.get("ty")
                back = struct.unpack("f", struct.pack("f", float(c)))[0] if ty == "f32" else float(c)
                name = f.path.split("::", 1)[1]
                kk = sum(1 for x in ctx.obs if x.key.startswith("%s:%s:%s" % (rule, name, k["const_def"].split("::")[-1])))
                ctx.decide(int(back) == c, rule,
                           "%s:%s:%s%s" % (rule, name, k["const_def"].split("::")[-1], "#%d" % kk if kk else ""),
                           "%s:%s" % (f.file, st.get("ln")), "%s is exact as %s" % (c, ty),
                           "%s converts %s = %d to %s, which cannot hold it (it becomes %d): a range test against the "
                           "converted constant accepts %d, a value outside the type's range, which is then stored"
                           % (name, k["const_def"].split("::")[-1], c, ty, int(back), int(back)))
    ctx.analysed_units(rule, range_constants_converted=n)
    ctx.require(rule, 8)


INT_TAGS = ("VInteger", "VLong")


def r10_integer_arithmetic_is_direct(ctx, rule="C06.R10"):
    """`a value that fits is stored, one that does not raises Overflow` - not the other way round:
    an integer operation that is computed as the negation (or another rewriting) of the mirrored
    operation overflows in the intermediate step although the result fits
    (-2147483648& - 0% as -(0% - -2147483648&)).  For both integer operand tags in either order the
    abstract evaluation of Variant::plus / minus / multiply must not pass through Variant::negate."""
    prog = ctx.prog
    VAR = "rusty_variant::variant::Variant"
    n = 0
    for op in ("plus", "minus", "multiply"):
        fs = [f for f in prog.fns.values() if f.crate == "rusty_variant" and f.name == op and f.impl
              and f.impl["self_ty"].endswith("Variant") and f.kind != "closure"]
        if len(fs) != 1:
            raise CheckError("anchor Variant::%s" % op)
        for a in INT_TAGS:
            for b in INT_TAGS:
                seen = []

                def spy(eng, t, args, seen=seen):
                    cp = t.get("cpath") or ""
                    if cp.endswith("Variant::negate") and args:
                        v = tf.deref(args[0])
                        seen.append(v[2] if v[0] == "tag" else "?")
                    return None
                eng = tf.Engine(prog, intrinsics=spy)
                eng.summary(fs[0], (eng.make(VAR, a, {0: tf.TOP}), eng.make(VAR, b, {0: tf.TOP})))
                n += 1
                ctx.decide(not seen, rule, "%s:%s(%s,%s)" % (rule, op, a, b), fs[0].loc, "computed directly",
                           "Variant::%s of %s and %s is computed through Variant::negate of an intermediate %s result: "
                           "the intermediate can overflow although the result fits (%s at the lower end of the LONG "
                           "range raises Overflow for a representable result)" % (op, a, b, seen[:1], op))
    ctx.require(rule, 12)


RUST_TO_TAG = {"i32": "VInteger", "bool": "VInteger", "i64": "VLong", "f32": "VSingle", "f64": "VDouble",
               "std::string::String": "VString", "&str": "VString"}
TAG_OF_Q = {"PercentInteger": "VInteger", "AmpersandLong": "VLong", "BangSingle": "VSingle",
            "HashDouble": "VDouble", "DollarString": "VString"}


def r11_builtin_results_have_their_static_type(ctx, T, rule="C06.R11"):
    """The checker gives every built-in function a fixed result type (TypeQualifier::from(&f)); an
    assignment `X! = VAL(..)` to a variable of that type emits no Cast.  The value the built-in
    actually hands to set_built_in_function_result must therefore have that type: its Rust type
    (i32, String ...) decides the Variant tag, and where a Variant is handed over the tags it can
    have are computed by abstract interpretation of the producing function."""
    prog = ctx.prog
    BIF = [a["id"] for a in prog.adts.values() if a["id"].endswith("::BuiltInFunction") and a["kind"] == "enum"]
    if len(BIF) != 1:
        raise CheckError("anchor BuiltInFunction enum")
    conv = [f for f in prog.fns.values() if f.crate == "rusty_parser" and f.name == "from" and f.impl
            and f.impl["self_ty"].endswith("TypeQualifier") and "BuiltInFunction" in f.path and "&" in f.path]
    if len(conv) != 1:
        raise CheckError("anchor From<&BuiltInFunction> for TypeQualifier: %d" % len(conv))
    VAR = "rusty_variant::variant::Variant"
    n = 0
    for f in sorted(prog.fns.values(), key=lambda f: f.id):
        if f.crate != "rusty_basic" or "built_ins" not in f.id:
            continue
        pv = None
        for b, t in f.body.calls():
            if not (t.get("cpath") or "").endswith("set_built_in_function_result") or len(t["args"]) < 3:
                continue
            pv = pv or mir.Prov(f.body)
            which = mir.strip_all(pv.of_operand(t["args"][1]))
            if which[0] != "agg" or "::" not in (which[2] or ""):
                continue
            fname = which[2].split("::")[-1]
            qs = {tf.deref(x)[2] for x in T.eng.summary(conv[0], (tf.Ref(T.eng.make(BIF[0], fname)),)) if tf.deref(x)[0] == "tag"}
            if len(qs) != 1:
                ctx.unknown(rule, "%s:%s" % (rule, fname), f.loc, "static type %s" % sorted(qs))
                continue
            want = TAG_OF_Q[next(iter(qs))]
            g = ((t["f"].get("k") or {}).get("gargs") or [""])[0]
            if g in RUST_TO_TAG:
                got = {RUST_TO_TAG[g]}
            else:
                o = mir.strip_all(pv.of_operand(t["args"][2]))
                # look through `expr?` (Try::branch + Continue payload) to the call that produced the value
                for _ in range(6):
                    if o[0] in ("field", "downcast"):
                        o = mir.strip_all(o[1])
                    elif o[0] == "call" and o[1].endswith("::branch") and o[2]:
                        o = mir.strip_all(o[2][0])
                    else:
                        break
                got = set()
                if o[0] == "agg" and (o[2] or "").startswith("Variant::"):
                    got = {o[2].split("::")[-1]}
                elif o[0] == "call" and o[1] in prog.by_path:
                    for callee in prog.by_path[o[1]]:
                        for x in T.eng.summary(callee, tuple(tf.TOP for _ in range(callee.argc))):
                            v = tf.deref(x)
                            if v[0] == "tag" and v[2] in ("Ok", "Some") and v[3]:
                                v = tf.deref(v[3][0])
                            if v[0] == "tag" and v[1] == VAR:
                                got.add(v[2])
                            elif v[0] == "tag" and v[2] in ("Err", "None"):
                                pass
                            else:
                                got.add("?")
                else:
                    got = {"?"}
                if "?" in got and o[0] == "call" and o[1] in prog.by_path and got - {"?"} <= {want}:
                    # the abstract interpreter gave up inside a loop; fall back on what the producer can
                    # build at all: every Variant it constructs, and every Variant-returning call it makes
                    # (which must be a method of Variant that maps the wanted tag to itself)
                    structural = set()
                    for callee in prog.by_path[o[1]]:
                        for h in [callee] + prog.closures_of(callee):
                            for blk in h.body.blocks:
                                for st in blk["s"]:
                                    r = st.get("r", {})
                                    if st["k"] == "assign" and r.get("k") == "agg" and r.get("adt") == VAR:
                                        structural.add(r["variant"])
                            for _b2, t2 in h.body.calls():
                                dty = h.body.locals[t2["d"][0]]["ty"] if t2.get("d") else ""
                                if "Variant" not in dty or "VariantError" in dty and "Variant," not in dty and "<rusty_variant::Variant" not in dty:
                                    continue
                                g2 = prog.fns.get(mir.callee_of(t2))
                                if g2 is not None and g2.crate != "rusty_variant" and g2.file == callee.file and g2.body is not None:
                                    # a private helper of the producer's file that builds the result: what it can return
                                    for x in T.eng.summary(g2, tuple(tf.TOP for _ in range(g2.argc))):
                                        v = tf.deref(x)
                                        if v[0] == "tag" and v[2] in ("Ok", "Some") and v[3]:
                                            v = tf.deref(v[3][0])
                                        if v[0] == "tag" and v[1] == VAR:
                                            structural.add(v[2])
                                        elif not (v[0] == "tag" and v[2] in ("Err", "None")):
                                            structural.add("?")
                                    continue
                                if g2 is None or g2.crate != "rusty_variant":
                                    structural.add("?")
                                    continue
                                for x in T.eng.summary(g2, (T.eng.make(VAR, want, {0: tf.TOP}),)):
                                    v = tf.deref(x)
                                    if v[0] == "tag" and v[2] in ("Ok", "Some") and v[3]:
                                        v = tf.deref(v[3][0])
                                    if v[0] == "tag" and v[1] == VAR:
                                        structural.add(v[2])
                                    elif not (v[0] == "tag" and v[2] in ("Err", "None")):
                                        structural.add("?")
                    if structural and "?" not in structural:
                        got = (got - {"?"}) | structural
            n += 1
            ctx.decide(got == {want}, rule, "%s:%s" % (rule, fname), "%s:%s" % (f.file, t.get("ln")),
                       "result is always a %s" % want,
                       "the built-in function %s has the static type %s but hands over a value that can be %s: "
                       "assigned to a variable of the static type no Cast is emitted, so the variable then holds a "
                       "value of another type" % (fname.upper(), next(iter(qs)), sorted(got)))
    ctx.require(rule, 20)


def _move_closure(body, seeds):
    """locals that hold the very value of a seed local (moves, copies, references)"""
    vs = set(seeds)
    changed = True
    while changed:
        changed = False
        for blk in body.blocks:
            for st in blk["s"]:
                if st["k"] != "assign" or st["p"][1] or st["p"][0] in vs:
                    continue
                r = st["r"]
                src = None
                if r["k"] == "use" and isinstance(r.get("o"), dict):
                    pl = mir.op_place(r["o"])
                    src = pl[0] if pl is not None and not [e for e in pl[1] if e != "*"] else None
                elif r["k"] in ("ref", "addr") and "p" in r and not [e for e in r["p"][1] if e != "*"]:
                    src = r["p"][0]
                if src in vs:
                    vs.add(st["p"][0])
                    changed = True
    return vs


def _finite_guarded(body, vs, b):
    """block b is on the true side of a test `is_finite(v)` for a v in vs"""
    for cb, t in body.calls():
        if (t.get("cpath") or "").split("::")[-1] != "is_finite" or not t["args"]:
            continue
        pl = mir.op_place(t["args"][0])
        if pl is None or pl[0] not in vs:
            continue
        nxt = body.term(t["t"])
        d = t["d"][0]
        if nxt["k"] != "switch" or mir.op_place(nxt["o"]) is None or mir.op_place(nxt["o"])[0] != d:
            continue
        false_t = [tg for v, tg in nxt["ts"] if v == 0]
        true_t = nxt["else"]
        if b in body.reachable(true_t, avoid=set(false_t)) and b not in body.reachable(false_t[0] if false_t else -1, avoid={true_t}):
            return True
    return False


def r12_float_results_are_finite(ctx, rule="C06.R12"):
    """`a finite single or a finite double ... any conversion or arithmetic result that does not fit
    raises Overflow`: IEEE arithmetic does not fail, it yields infinity.  In the value arithmetic
    (rusty_variant) every result of a float + - * / on two run-time operands, and in the conversions
    (qb_casting) every narrowing of a double to a single, is tested with is_finite before it becomes a
    Variant or is handed to a function that makes one; the untested side must not build the value."""
    prog = ctx.prog
    n = 0
    helpers = {}

    def guarded_param(g, i):
        """g wraps its parameter i into a Variant only under is_finite(param)"""
        key = (g.id, i)
        if key in helpers:
            return helpers[key]
        helpers[key] = False
        vs = _move_closure(g.body, {i + 1})
        sinks = _sinks(g, vs)
        ok = bool(sinks) and all(kind == "agg" and _finite_guarded(g.body, vs, b) for kind, b, _t in sinks)
        helpers[key] = ok
        return ok

    def _sinks(f, vs):
        out = []
        for b, blk in enumerate(f.body.blocks):
            if blk.get("c"):
                continue
            for st in blk["s"]:
                r = st.get("r", {})
                if st["k"] == "assign" and r.get("k") == "agg" and (r.get("adt") or "").endswith("::Variant") \
                        and r.get("variant") in ("VSingle", "VDouble"):
                    if any(mir.op_place(o) is not None and mir.op_place(o)[0] in vs for o in r["ops"]):
                        out.append(("agg", b, None))
            t = blk["t"]
            if t["k"] == "call":
                g = prog.fns.get(t.get("res") or mir.callee_of(t))
                if g is None or g.crate not in ("rusty_variant", "rusty_linter"):
                    continue
                for j, a in enumerate(t["args"]):
                    pl = mir.op_place(a)
                    if pl is not None and pl[0] in vs and "Variant" in g.body.locals[0]["ty"]:
                        out.append(("call", b, (g, j)))
        return out

    fns = [f for f in prog.fns.values() if f.crate == "rusty_variant" and f.kind != "const"]
    casts = [f for f in prog.fns.values() if f.crate == "rusty_linter" and "qb_casting" in f.id and f.kind != "const"]
    for f in sorted(fns + casts, key=lambda f: f.id):
        body = f.body
        for b, blk in enumerate(body.blocks):
            if blk.get("c"):
                continue
            for st in blk["s"]:
                if st["k"] != "assign" or st["p"][1]:
                    continue
                r = st["r"]
                ty = body.locals[st["p"][0]]["ty"]
                what = None
                if r["k"] == "bin" and r.get("op") in ("Add", "Sub", "Mul", "Div") and ty in ("f32", "f64"):
                    if mir.op_place(r["a"]) is None or mir.op_place(r["b"]) is None:
                        if r["op"] in ("Add", "Sub"):
                            continue        # x + c / x - c of a finite x stays finite
                    what = "float %s" % r["op"]
                elif r["k"] == "cast" and r.get("ck") == "FloatToFloat" and r.get("ty") == "f32":
                    what = "narrowing of a double to a single"
                if what is None:
                    continue
                vs = _move_closure(body, {st["p"][0]})
                sinks = _sinks(f, vs)
                # a narrowing whose result is returned (the conversion functions)
                returned = r["k"] == "cast" and (0 in vs or any(
                    s2["k"] == "assign" and s2["p"][0] == 0 and any(
                        mir.op_place(o) is not None and mir.op_place(o)[0] in vs for o in s2["r"].get("ops", []))
                    for bl2 in body.blocks for s2 in bl2["s"]))
                if not sinks and not returned:
                    continue
                n += 1
                bad = []
                for kind, sb, extra in sinks:
                    if _finite_guarded(body, vs, sb):
                        continue
                    if kind == "call" and guarded_param(*extra):
                        continue
                    bad.append((kind, sb))
                if returned and not sinks:
                    ok_blocks = [b2 for b2, bl2 in enumerate(body.blocks) for s2 in bl2["s"]
                                 if s2["k"] == "assign" and s2["p"][0] == 0 and s2["r"].get("k") == "agg"
                                 and any(mir.op_place(o) is not None and mir.op_place(o)[0] in vs for o in s2["r"].get("ops", []))]
                    if not ok_blocks or not all(_finite_guarded(body, vs, b2) for b2 in ok_blocks):
                        bad.append(("return", b))
                name = f.path.split("::", 1)[1]
                ctx.decide(not bad, rule, "%s:%s:%s@%s" % (rule, name, what.replace(" ", "-"), _ordinal(f, st)), "%s:%s" % (f.file, st.get("ln")),
                           "tested with is_finite before it becomes a value",
                           "the result of a %s in %s becomes a value without an is_finite test: the operation "
                           "yields infinity instead of failing, so `x# = x# * 10` in a loop ends with inf stored in a "
                           "DOUBLE (and `s! = 1D+60` with inf in a SINGLE) where Overflow (6) is prescribed" % (what, name))
    ctx.analysed_units(rule, float_results=n)
    ctx.require(rule, 20)


def _ordinal(f, st):
    k = 0
    for blk in f.body.blocks:
        for s2 in blk["s"]:
            if s2 is st:
                return k
            if s2["k"] == "assign" and s2["r"].get("k") == st["r"].get("k") and s2["r"].get("op") == st["r"].get("op"):
                k += 1
    return k


def r13_integer_results_of_builtins_fit(ctx, rule="C06.R13"):
    """`a whole number in -32768..32767`: the built-in functions that hand back an INTEGER build it
    from a machine-size count or address with `n as i32`.  That cast keeps 60000 as 60000: LEN of a
    record of 60000 bytes, VARPTR behind a large array, become INTEGER values outside the INTEGER
    range.  Every narrowing of a size to i32 in the VM's value code is dominated by a comparison of
    that size with a bound (the audited exceptions say why the size is small)."""
    import json
    import os
    from ..core import VERIF
    prog = ctx.prog
    tab_path = os.path.join(VERIF, "tables", "small_sizes.json")
    audited = json.load(open(tab_path))["audited"] if os.path.exists(tab_path) else {}
    n = 0
    for f in sorted(prog.fns.values(), key=lambda f: f.id):
        if f.crate != "rusty_basic" or f.kind == "const" or "interpreter" not in f.id or "::screen" in f.id:
            continue
        body = f.body
        pv = None
        for b, blk in enumerate(body.blocks):
            if blk.get("c"):
                continue
            for st in blk["s"]:
                r = st.get("r", {})
                if st["k"] != "assign" or r.get("k") != "cast" or r.get("ck") != "IntToInt" or r.get("ty") != "i32":
                    continue
                pl = mir.op_place(r["o"])
                sty = body.locals[pl[0]]["ty"] if pl is not None and not pl[1] else ((r["o"].get("k") or {}).get("ty") or "")
                if sty not in ("usize", "u64", "i64", "u32", "isize"):
                    continue
                pv = pv or mir.Prov(body)
                src = mir.strip_all(pv.of_operand(r["o"]))
                guarded = False
                for d in range(body.nblocks):
                    t = body.term(d)
                    if t["k"] != "switch" or t.get("ty") != "bool" or not body.dominates(d, b) or d == b:
                        continue
                    o = pv.of_operand(t["o"])
                    if o[0] == "bin" and o[1] in ("Gt", "Ge", "Lt", "Le") and any(mir.strip_all(x) == src for x in o[2:4]):
                        guarded = True
                    if o[0] == "call" and o[1].split("::")[-1] in ("contains",) and mir.origin_mentions(o, lambda z: z == src):
                        guarded = True
                n += 1
                name = f.path.split("::", 1)[1]
                key = "%s:%s" % (rule, name)
                if guarded:
                    ctx.ok(rule, key, "%s:%s" % (f.file, st.get("ln")), "range-tested before the narrowing")
                elif name in audited:
                    ctx.ok(rule, key, "%s:%s" % (f.file, st.get("ln")), "audited: " + audited[name])
                else:
                    ctx.violation(rule, key, "%s:%s" % (f.file, st.get("ln")),
                                  "%s narrows a %s to i32 without a range test and hands it on as an INTEGER: a size "
                                  "or address above 32767 (LEN of a large record, VARPTR behind a large array) is stored in "
                                  "an INTEGER variable instead of raising Overflow" % (name, sty))
    ctx.ok(rule, rule + ":analysed", "rusty_basic/src/interpreter", "%d narrowings of a size to i32 in the VM's value code" % n)
    ctx.analysed_units(rule, narrowings=n)
    ctx.require(rule, 1)


def r14_floats_from_outside_are_finite(ctx, rule="C06.R14", crate="rusty_basic", module="::interpreter::", floor=3):
    """`a finite single or a finite double`: besides arithmetic (R12) a float enters the VM from text
    (`str::parse::<f32 / f64>` accepts "inf", "nan" and rounds 1e400 to infinity), from bytes
    (`from_bits` / `from_le_bytes` / the byte decoder of the value crate) and from the digit-by-digit
    accumulation of VAL.  A function of the VM's built-ins that obtains a float this way tests it with
    is_finite: the argument of some is_finite call in the function is that value (the call result, looked at
    through `?` / match, or a local the arithmetic result moves through)."""
    prog = ctx.prog
    n = 0
    for f in sorted(prog.fns.values(), key=lambda f: f.id):
        if f.crate != crate or module not in "::" + f.id or f.body is None or f.kind == "const":
            continue
        body = f.body
        pv = mir.Prov(body)
        sources = []      # (kind, block or local, line)
        for b, t in body.calls():
            cp = t.get("cpath") or ""
            last = cp.split("::")[-1]
            dty = body.locals[t["d"][0]]["ty"] if t.get("d") else ""
            if last == "parse" and "str" in cp and ("f32" in dty or "f64" in dty):
                sources.append(("text", b, t.get("ln")))
            elif last in ("from_bits", "from_le_bytes", "from_be_bytes", "from_ne_bytes", "bytes_to_f64", "bytes_to_f32") and \
                    dty in ("f32", "f64"):
                sources.append(("bytes", b, t.get("ln")))
        for b, blk in enumerate(body.blocks):
            if blk.get("c"):
                continue
            for st in blk["s"]:
                if st["k"] == "assign" and not st["p"][1] and st["r"]["k"] == "bin" and st["r"].get("op") in ("Mul", "Div") \
                        and body.locals[st["p"][0]]["ty"] in ("f32", "f64") \
                        and mir.op_place(st["r"]["a"]) is not None:
                    sources.append(("arith", st["p"][0], st.get("ln")))
        if not sources:
            continue
        tests = []
        for b, t in body.calls():
            if (t.get("cpath") or "").split("::")[-1] == "is_finite" and t["args"]:
                tests.append(pv.of_operand(t["args"][0]))
        # closures of this function count as part of it (`.and_then(|v| if v.is_finite() ..)`)
        closure_tests = any((t.get("cpath") or "").split("::")[-1] == "is_finite"
                            for c in prog.closures_of(f) for _b, t in c.body.calls())
        name = f.path.split("::", 1)[1]
        kinds = sorted({k for k, _x, _l in sources})
        for kind in kinds:
            ss = [(x, l) for k, x, l in sources if k == kind]
            ok = False
            if kind in ("text", "bytes"):
                ok = closure_tests or any(mir.origin_mentions(o, lambda z: z[0] == "call" and len(z) > 3 and z[3] in {x for x, _l in ss})
                                          for o in tests)
            else:
                accum = set()
                for x, _l in ss:
                    accum |= _move_closure(body, {x})
                # the accumulated value: any local of the same float type that an arithmetic result is moved into
                ok = closure_tests or any(mir.op_place(t["args"][0]) is not None and
                                          (mir.op_place(t["args"][0])[0] in accum or body.locals[mir.op_place(t["args"][0])[0]]["ty"] in ("f32", "f64", "&f32", "&f64"))
                                          for _b, t in body.calls() if (t.get("cpath") or "").split("::")[-1] == "is_finite" and t["args"])
                if not ok:
                    # the accumulated value is handed to a private helper of the same file that tests it
                    for _b, t in body.calls():
                        g = prog.fns.get(t.get("res") or mir.callee_of(t))
                        if g is None or g.file != f.file or g.body is None or g.id == f.id:
                            continue
                        for k2, a in enumerate(t["args"]):
                            pl = mir.op_place(a)
                            if pl is None or pl[1] or body.locals[pl[0]]["ty"] not in ("f32", "f64"):
                                continue
                            gvs = _move_closure(g.body, {k2 + 1})
                            if any((t2.get("cpath") or "").split("::")[-1] == "is_finite" and t2["args"] and
                                   mir.op_place(t2["args"][0]) is not None and mir.op_place(t2["args"][0])[0] in gvs
                                   for _b2, t2 in g.body.calls()):
                                ok = True
            n += 1
            ctx.decide(ok, rule, "%s:%s:%s" % (rule, name, kind), "%s:%s" % (f.file, ss[0][1]),
                       "the float obtained from %s is tested with is_finite" % kind,
                       "%s obtains a float from %s (line %s) and never tests it with is_finite: %s, so a SINGLE / DOUBLE variable "
                       "holds a value that is not a finite number where Overflow (6) is prescribed"
                       % (name, {"text": "str::parse", "bytes": "a byte decoder", "arith": "a multiplication / division"}[kind], ss[0][1],
                          {"text": "`INPUT A!` fed 1e39 or inf stores inf", "bytes": "CVD of the bytes of an infinity returns it",
                           "arith": "VAL of a 400-digit string is inf"}[kind]))
    ctx.analysed_units(rule, sources=n)
    ctx.require(rule, floor)


def r15_payload_written_in_place(ctx, rule="C06.R15"):
    """`an INTEGER variable holds a value in -32768..32767`: besides building a new value (R3) the VM can write
    the payload of an existing VInteger / VLong through a mutable reference (`*i = ..` after `match self {
    VInteger(i) => ..}`; POKE does).  What is written there is a value that some conversion function returned
    (whose range is that function's obligation) or a copy - never the result of arithmetic or bit operations
    computed on the spot, which no range test stands behind (`(*i & !m) | (v << 8)` on the i32 payload gives
    65535 where the 16-bit pattern means -1)."""
    prog = ctx.prog
    n = 0
    for f in sorted(prog.fns.values(), key=lambda f: f.id):
        if f.crate not in ("rusty_basic", "rusty_variant") or f.body is None or f.kind == "const":
            continue
        body = f.body
        pv = None
        for b, blk in enumerate(body.blocks):
            if blk.get("c"):
                continue
            for st in blk["s"]:
                if st["k"] != "assign" or "*" not in st["p"][1]:
                    continue
                base = st["p"][0]
                if body.locals[base]["ty"] not in ("&mut i32", "&mut i64"):
                    continue
                pv = pv or mir.Prov(body)
                # the reference: `&mut (*self as VInteger).0`, bound by the pattern of a match arm
                whole = [d for d in body.defs().get(base, []) if d[1] != "T" and not d[2]["p"][1]]
                is_payload = any(d[2]["r"].get("k") == "ref" and any(isinstance(e, dict) and e.get("d") in ("VInteger", "VLong")
                                                                     for e in d[2]["r"]["p"][1]) for d in whole)
                if not is_payload:
                    continue
                n += 1
                r = st["r"]
                direct = r.get("k") in ("bin", "un")
                src = pv._of_rvalue(r, 0)
                computed = direct or mir.strip_all(src)[0] in ("bin", "un")
                name = f.path.split("::", 1)[1]
                k = sum(1 for x in ctx.obs if x.key.startswith("%s:%s" % (rule, name)))
                ctx.decide(not computed, rule, "%s:%s%s" % (rule, name, "#%d" % k if k else ""), "%s:%s" % (f.file, st.get("ln")),
                           "the payload receives %s" % mir.short_origin(src),
                           "%s writes the result of an operation computed on the spot (%s) into the payload of an INTEGER / LONG "
                           "value: nothing tests its range - POKE to the high byte of an INTEGER leaves 32768..65535 in it"
                           % (name, mir.short_origin(src)))
    if not n:
        raise CheckError("%s: no in-place write of an integer payload found (POKE writes one)" % rule)
    ctx.analysed_units(rule, payload_writes=n)
    ctx.require(rule, 1)


def r17_narrowing_to_single_is_checked(ctx, rule="C06.R17"):
    """`S! = <DOUBLE value>` raises Overflow (6) when the value is beyond the SINGLE range, however the value is
    written.  `f64 as f32` turns such a value into infinity without a word, so every narrowing float cast of the
    linter, the generator, the VM and the value crates has to be followed - in the same function, on every path from
    the cast - by an `is_finite` test of its result (the checked conversion QBNumberCast<f32> for f64 is the one
    instance today).  The parser's casts are C10.R7's business."""
    prog = ctx.prog
    n = 0
    for fn in sorted(prog.fns.values(), key=lambda f: f.id):
        if fn.body is None or fn.kind == "const" or fn.crate in ("rusty_parser", "rusty_pc"):
            continue
        body = fn.body
        for b, blk in enumerate(body.blocks):
            if body.is_cleanup(b):
                continue
            for st in blk["s"]:
                r = st.get("r", {})
                if not (st["k"] == "assign" and r.get("k") == "cast" and r.get("ck") == "FloatToFloat"
                        and body.locals[st["p"][0]]["ty"] == "f32"):
                    continue
                n += 1
                tests = [b2 for b2, t in body.calls() if mir.callee_path(t).endswith("f32::is_finite")
                         or (t.get("callee") or "").endswith("::is_finite")]
                exits = [e for e in body.exits() if not body.is_cleanup(e)]
                ok = bool(tests) and all(body.every_path_passes(b, {e}, set(tests)) for e in exits if e in body.reachable(b))
                owner = prog.enclosing_fn(fn) or fn
                short = owner.path.split("::", 1)[1]
                ctx.decide(ok, rule, "%s:%s:f64-as-f32" % (rule, short), "%s:%s" % (fn.file, st.get("ln")),
                           "the narrowed value is tested with is_finite on every path",
                           "%s narrows a DOUBLE to a SINGLE with `as f32` and does not test the result with is_finite: a value "
                           "beyond the SINGLE range is stored as infinity instead of raising Overflow (`S! = 1E+300#` style "
                           "literals, constants, arguments)" % short)
    if not n:
        raise CheckError("%s: no f64 -> f32 narrowing found at all (the checked conversion has gone or the detector is blind)" % rule)
    ctx.analysed_units(rule, narrowing_casts=n)
    ctx.require(rule, 1)


def run(ctx):
    common.install(ctx)
    T = ot.OpTables(ctx.prog)
    r1_static_vs_dynamic(ctx, T)
    r2_store_routes(ctx)
    r3_integer_constructors(ctx)
    r4_cast_table(ctx, T)
    from . import c04
    c04.r4_allocation(ctx, "C06.R5")
    c04.r8_casting_emitter(ctx, "C06.R6")
    r7_guard_tests_converted_value(ctx)
    from . import c12
    c12.r4_by_ref_exact(ctx, T, "C06.R8")
    r9_range_constants_exact(ctx)
    r10_integer_arithmetic_is_direct(ctx)
    r11_builtin_results_have_their_static_type(ctx, T)
    r12_float_results_are_finite(ctx)
    r13_integer_results_of_builtins_fit(ctx)
    r14_floats_from_outside_are_finite(ctx)
    r15_payload_written_in_place(ctx)
    # a by-reference argument gets back the value its own parameter held (of its own type, C12.R4): the pending
    # write-backs of a call are not mixed up with those of a call made while they are written back
    from . import c03
    c03.r9_queue_not_reentered(ctx, "C06.R16")
    c03.r3_fifo(ctx, "C06.R16")
    r17_narrowing_to_single_is_checked(ctx)
