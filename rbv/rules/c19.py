"""C19 - bit-level primitives: the clauses that are tables and shapes, not arithmetic over bit patterns (C19.R1-R5).

The property as a whole (agreement with two's complement and IEEE-754 for every bit pattern) is not decided here:
that is bit-vector reasoning.  What is decided: the element-wise boolean function of AND / OR (a truth table of four
rows, read from the code), that both operands are read at the same index, NOT as the linear function -n - 1, the byte
order tables of the writers against the reader's walk, the order of the bits inside a byte on both sides, and the
layout constants of the double format on the encoding and the decoding side."""
import re

from .. import mir
from ..core import CheckError
from . import common

LEVEL = "other"
EXPLANATION = (
    "Tables and shapes of the bit-level primitives: (R1) BitVec AND / OR push, for every index, a boolean function of the "
    "two operands' bits at that same index whose truth table - read from the branch structure of the loop body - is that "
    "of AND (F,F,F,T) / OR (F,T,T,T); (R2) NOT on INTEGER and LONG is the linear function -n - 1 of the payload (the "
    "two's-complement identity), read as a linear form from the provenance of the result; (R3) the byte tables of the "
    "writers: element k of the array i32_to_bytes / f64_to_bytes return is made from the bits [(n-1-k)*8, (n-k)*8) of the "
    "most-significant-first bit vector (low byte first), every element through the same bits-to-byte routine; (R4) the "
    "reader walks the bytes from the last to the first and the bits of a byte from the mask 0x80 downwards by one - the "
    "same order, most significant first, in which the bits-to-byte routine of the writers fills a byte; (R5) the layout "
    "constants of the double format: the bias the decoder subtracts and the bias the encoder adds are both 1023, the "
    "exponent width both sides use is 11, the significand width 52, and 1 + 11 + 52 is the 64 bits the byte table covers; "
    "(R6) PEEK and POKE on an INTEGER take byte `address` - the parameter itself - of the array the word encoder makes of "
    "the payload, and POKE stores the word decoder's result of the changed bytes back; (R7) the encoder of doubles compares "
    "the value with the constants of its algorithm only (0, 0.5, 1, 2): no epsilon or tolerance decides what is encoded as zero; "
    "(R8) every path of qb_and / qb_or goes through the bit vectors or is a shortcut on an operand 0 / -1 whose result is "
    "what the algebra prescribes (x AND 0 = 0, x AND -1 = x, x OR 0 = x, x OR -1 = -1).")
NOT_DECIDED = [
    "that the encoder's halving / doubling and the decoder's summing of powers of two agree for every finite double "
    "(subnormals, rounding of the 53rd bit): arithmetic over bit patterns, solver territory",
    "that From<i32> for BitVec and bits_to_i32 are inverse for all 65536 values (loops over shifted values)",
    "PEEK / POKE address arithmetic"]
ASSUMPTIONS = ["Index::index of BitVec returns the bit at the index it is given (its body is `self.v.get(index)`)"]


def _fn(prog, path):
    f = prog.fn_opt(path)
    if f is None:
        raise CheckError("missing anchor function %s" % path)
    return f


def _bitops(prog):
    out = {}
    for f in prog.fns.values():
        if f.crate != "rusty_bit_vec" or f.impl is None or f.kind == "closure":
            continue
        tr = f.impl.get("trait_ref") or ""
        if f.name == "bitand" and "BitAnd" in tr:
            out["AND"] = f
        if f.name == "bitor" and "BitOr" in tr:
            out["OR"] = f
    return out


def _branch_table(body, source, out_local, stop_block):
    """truth table (f(0,0), f(0,1), f(1,0), f(1,1)) of the value assigned to out_local: a branch on one operand's bit, and on
    each side one assignment of a constant or of the other operand's bit"""
    sw = None
    for b, blk in enumerate(body.blocks):
        t = blk["t"]
        if t["k"] == "switch" and not blk.get("c"):
            s_ = source(t["o"])
            if isinstance(s_, tuple):
                sw = (b, t, s_[1])
    if sw is None:
        return None
    assigns = [(b, source(s["r"]["o"])) for b, blk in enumerate(body.blocks) for s in blk["s"]
               if s["k"] == "assign" and s["p"] == [out_local, []] and s["r"]["k"] == "use"]
    b, t, first = sw
    zero = [tg for val, tg in t["ts"] if val == 0]
    if not zero:
        return None
    stop = {stop_block} if stop_block is not None else set()
    rz = body.reachable(zero[0], avoid={t["else"]} | stop) | {zero[0]}
    rn = body.reachable(t["else"], avoid={zero[0]} | stop) | {t["else"]}
    vz = [v for bb, v in assigns if bb in rz and bb not in rn]
    vn = [v for bb, v in assigns if bb in rn and bb not in rz]
    if len(vz) != 1 or len(vn) != 1 or vz[0] is None or vn[0] is None:
        return None
    rows = []
    for a in (0, 1):
        for b_ in (0, 1):
            bits = (a, b_)
            branch = vn[0] if bits[first] else vz[0]
            rows.append(bits[branch[1]] if isinstance(branch, tuple) else branch)
    return tuple(rows)


def r1_elementwise(ctx, rule="C19.R1"):
    prog = ctx.prog
    ops = _bitops(prog)
    want = {"AND": (0, 0, 0, 1), "OR": (0, 1, 1, 1)}
    for name in ("AND", "OR"):
        key = "%s:%s" % (rule, name)
        f = ops.get(name)
        if f is None:
            raise CheckError("%s: BitVec has no Bit%s impl" % (rule, name.capitalize()))
        body = f.body
        pv = mir.Prov(body)
        idx = []
        for b, t in body.calls():
            if mir.callee_path(t).endswith("Index::index") or (t.get("callee") or "").endswith("Index::index"):
                recv = mir.strip_refs(pv.of_operand(t["args"][0]))
                idx.append((b, t, recv, str(pv.of_operand(t["args"][1]))))
        params = sorted({r[1] for _b, _t, r, _i in idx if r[0] == "param"})
        if len(idx) != 2 or params != [0, 1]:
            # the iterator spelling: a.v.iter().zip(b.v.iter()).map(|(x, y)| ..)
            zips = [(b, t) for b, t in body.calls() if (mir.callee_path(t) or "").endswith("Iterator::zip") and len(t["args"]) == 2]
            maps = [(b, t) for b, t in body.calls() if (mir.callee_path(t) or "").endswith("Iterator::map") and len(t["args"]) == 2]
            clos = None
            if len(zips) == 1 and len(maps) == 1:
                o = mir.strip_refs(pv.of_operand(maps[0][1]["args"][1]))
                if o[0] == "agg" and o[1] == "closure":
                    clos = prog.fns.get(o[2])
            if clos is None:
                ctx.unknown(rule, key, f.loc, "Bit%s reads its operands neither through Index::index at an index nor through a zip of "
                            "the two bit vectors" % name.capitalize())
                continue
            za = [mir.show_origin(pv.of_operand(a)) for a in zips[0][1]["args"]]
            sides = ["arg0" in za[0] and "arg1" not in za[0], "arg1" in za[1] and "arg0" not in za[1]]
            sides_sw = ["arg1" in za[0] and "arg0" not in za[0], "arg0" in za[1] and "arg1" not in za[1]]
            straight = not any(w in x for x in za for w in ("rev(", "skip(", "step_by(", "take(", "chain("))
            ctx.decide((all(sides) or all(sides_sw)) and straight, rule, key + ":same-index", f.loc,
                       "zip of the two operands' bits, both from the front",
                       "Bit%s zips %s with %s: the two operands are not walked together from the front, the operation is not "
                       "element-wise" % (name.capitalize(), za[0][:50], za[1][:50]))
            cb = clos.body
            # the closure gets a pair of references: which local is the bit of which side
            side_of = {}
            for blk in cb.blocks:
                for st in blk["s"]:
                    if st["k"] == "assign" and not st["p"][1] and st["r"]["k"] == "use":
                        pl_ = mir.op_place(st["r"]["o"])
                        if pl_ is not None and pl_[0] == 2 and len(pl_[1]) == 1 and isinstance(pl_[1][0], dict) and "f" in pl_[1][0]:
                            side_of[st["p"][0]] = pl_[1][0]["f"]

            def csrc(op):
                k_ = op.get("k") if isinstance(op, dict) else None
                if k_ and "int" in k_:
                    return int(bool(k_["int"]))
                p_ = mir.op_place(op)
                if p_ is not None and p_[1] == ["*"] and p_[0] in side_of:
                    return ("bit", side_of[p_[0]])
                if p_ is not None and not p_[1]:
                    d_ = cb.single_def(p_[0])
                    if d_ and d_[1] != "T" and d_[2]["r"]["k"] == "use":
                        return csrc(d_[2]["r"]["o"])
                return None
            table = _branch_table(cb, csrc, 0, None)
            if table is None:
                ctx.unknown(rule, key, f.loc, "the closure of Bit%s is not a branch on one bit with a constant / the other bit on each side"
                            % name.capitalize())
            else:
                ctx.decide(table == want[name], rule, key + ":truth-table", f.loc, "truth table %s" % (table,),
                           "Bit%s maps the operand bits (0,0) (0,1) (1,0) (1,1) to %s; %s is %s" % (name.capitalize(), table, name, want[name]))
            continue
        ctx.decide(idx[0][3] == idx[1][3], rule, key + ":same-index", f.loc, "both operands are read at %s" % idx[0][3][:60],
                   "Bit%s combines bit %s of one operand with bit %s of the other: the operation is not element-wise"
                   % (name.capitalize(), idx[0][3][:50], idx[1][3][:50]))
        # the pushed value
        pushes = [(b, t) for b, t in body.calls() if mir.callee_path(t).endswith("::push") and len(t["args"]) == 2]
        if len(pushes) != 1:
            ctx.unknown(rule, key, f.loc, "%d pushes in the loop" % len(pushes))
            continue
        pl = mir.op_place(pushes[0][1]["args"][1])
        if pl is None or pl[1]:
            ctx.unknown(rule, key, f.loc, "the pushed value is not a plain local")
            continue
        V = pl[0]
        res_local = {}
        for b, t, recv, _i in idx:
            res_local[t["d"][0]] = recv[1]

        def source(op):
            """0 / 1 for a constant, ('bit', k) for the bit of operand k"""
            k = op.get("k") if isinstance(op, dict) else None
            if k and "int" in k:
                return int(bool(k["int"]))
            p = mir.op_place(op)
            if p is not None and p[1] == ["*"] and p[0] in res_local:
                return ("bit", res_local[p[0]])
            if p is not None and not p[1]:
                d = body.single_def(p[0])
                if d and d[1] != "T" and d[2]["r"]["k"] == "use":
                    return source(d[2]["r"]["o"])
            return None
        # the switch on the first operand's bit
        sw = None
        for b, blk in enumerate(body.blocks):
            t = blk["t"]
            if t["k"] == "switch" and not blk.get("c"):
                s_ = source(t["o"])
                if isinstance(s_, tuple):
                    sw = (b, t, s_[1])
        assigns = [(b, source(s["r"]["o"])) for b, blk in enumerate(body.blocks) for s in blk["s"]
                   if s["k"] == "assign" and s["p"] == [V, []] and s["r"]["k"] == "use"]
        table = None
        if sw is None and len(assigns) == 1 and False:
            pass
        if sw is not None:
            b, t, first = sw
            zero = [tg for val, tg in t["ts"] if val == 0]
            if zero:
                rz = body.reachable(zero[0], avoid={t["else"], pushes[0][0]}) | {zero[0]}
                rn = body.reachable(t["else"], avoid={zero[0], pushes[0][0]}) | {t["else"]}
                vz = [v for bb, v in assigns if bb in rz and bb not in rn]
                vn = [v for bb, v in assigns if bb in rn and bb not in rz]
                if len(vz) == 1 and len(vn) == 1 and vz[0] is not None and vn[0] is not None:
                    def val(v, a, b_):
                        if isinstance(v, tuple):
                            return (a, b_)[v[1]]
                        return v
                    rows = []
                    for a in (0, 1):
                        for b_ in (0, 1):
                            bits = (a, b_)
                            branch = vn[0] if bits[first] else vz[0]
                            rows.append(val(branch, a, b_))
                    table = tuple(rows)
        if table is None:
            ctx.unknown(rule, key, f.loc, "the boolean function of Bit%s is not a branch on one operand's bit with a constant / the "
                        "other bit on each side" % name.capitalize())
        else:
            ctx.decide(table == want[name], rule, key + ":truth-table", f.loc, "truth table %s" % (table,),
                       "Bit%s pushes, for the operand bits (0,0) (0,1) (1,0) (1,1), the values %s; %s is %s"
                       % (name.capitalize(), table, name, want[name]))
    ctx.require(rule, 2, max_unknown=2)


def _lin_payload(o, variant, depth=0):
    if depth > 12:
        return None
    k = o[0]
    if k in ("ref", "deref", "clone"):
        return _lin_payload(o[1], variant, depth + 1)
    if k == "field" and o[2] in ("0", 0) and o[1][0] in ("bin",):
        return _lin_payload(o[1], variant, depth + 1)
    if k == "const":
        m = re.fullmatch(r"(-?\d+)(_[iu](\d+|size))?", str(o[1]))
        return {"1": int(m.group(1))} if m else None
    if k == "un" and o[1] == "Neg":
        x = _lin_payload(o[2], variant, depth + 1)
        return None if x is None else {kk: -v for kk, v in x.items()}
    if k == "bin" and o[1] in ("Add", "AddWithOverflow", "Sub", "SubWithOverflow"):
        x, y = _lin_payload(o[2], variant, depth + 1), _lin_payload(o[3], variant, depth + 1)
        if x is None or y is None:
            return None
        sign = 1 if o[1].startswith("Add") else -1
        out = dict(x)
        for kk, v in y.items():
            out[kk] = out.get(kk, 0) + sign * v
        return {kk: v for kk, v in out.items() if v}
    if k in ("field", "downcast", "param") and ("as %s)" % variant) in str(o):
        return {"n": 1}
    return None


def r2_not(ctx, rule="C19.R2"):
    prog = ctx.prog
    f = ctx.anchor_method("Variant", "unary_not")
    body = f.body
    pv = mir.Prov(body)
    sws = [s for s in mir.enum_switches(prog, body) if s.adt.endswith("::Variant")]
    if not sws:
        raise CheckError("%s: unary_not does not match on Variant" % rule)
    sw = max(sws, key=lambda s: len(s.arms))
    for v in ("VInteger", "VLong"):
        key = "%s:%s" % (rule, v)
        via_negate = [t for _b, t in body.calls() if mir.callee_path(t).endswith("Variant::negate")
                      or mir.callee_path(t).endswith("Variant::minus") or mir.callee_path(t).endswith("Variant::plus")]
        if v not in sw.arms:
            ctx.violation(rule, key, f.loc, "unary_not has no arm of its own for %s" % v)
            continue
        region = mir.arm_region(body, sw.bb, sw.arms[v])
        forms = []
        for _b, s in mir.region_aggregates(body, region):
            r = s["r"]
            if r.get("a") == "adt" and (r.get("adt") or "").endswith("::Variant") and r.get("variant") == v and r["ops"]:
                forms.append(_lin_payload(pv.of_operand(r["ops"][0]), v))
        if len(forms) != 1 or forms[0] is None:
            if via_negate:
                ctx.violation(rule, key, f.loc,
                              "NOT on %s is computed through %s of Variant: these check the range of their own result, and the "
                              "negation of the sign-bit-only word (%s) is not representable, so NOT of it raises Overflow instead "
                              "of giving %s - the complement is -n - 1 computed directly, which always fits"
                              % (v, " / ".join(sorted({mir.callee_path(t).split("::")[-1] for t in via_negate})),
                                 "-32768" if v == "VInteger" else "-2147483648", "32767" if v == "VInteger" else "2147483647"))
            else:
                ctx.unknown(rule, key, f.loc, "the result of NOT on %s is not a linear expression of the payload" % v)
            continue
        ctx.decide(forms[0] == {"n": -1, "1": -1}, rule, key, f.loc, "NOT n = -n - 1",
                   "NOT on %s computes %s: the bitwise complement of a two's-complement word is -n - 1" % (
                       v, " + ".join("%d*%s" % (c, k) for k, c in sorted(forms[0].items()))))
    ctx.require(rule, 2, max_unknown=2)


def _byte_table(prog, f):
    """[(start, end, maker)] per element of the array aggregate f returns"""
    body = f.body
    pv = mir.Prov(body)
    for blk in body.blocks:
        for s in blk["s"]:
            if s["k"] == "assign" and s["r"]["k"] == "agg" and s["r"].get("a") == "array" and len(s["r"]["ops"]) >= 2:
                rows = []
                for o in s["r"]["ops"]:
                    org = pv.of_operand(o)
                    txt = str(org)
                    m = re.search(r"Range::Range\{(\d+)_usize, (\d+)_usize\}", txt)
                    maker = org[1] if org[0] == "call" else None
                    rows.append((int(m.group(1)), int(m.group(2)), maker) if m else (None, None, maker))
                return rows
    return None


def r3_writer_tables(ctx, rule="C19.R3"):
    prog = ctx.prog
    makers = set()
    widths = {}
    for path, n in (("rusty_variant::bits::i32_to_bytes", 2), ("rusty_variant::bits::f64_to_bytes", 8)):
        f = _fn(prog, path)
        rows = _byte_table(prog, f)
        short = path.split("::")[-1]
        if rows is None or any(r[0] is None for r in rows):
            ctx.unknown(rule, "%s:%s" % (rule, short), f.loc, "%s does not return an array of bytes made from constant bit ranges" % short)
            continue
        ctx.decide(len(rows) == n, rule, "%s:%s:length" % (rule, short), f.loc, "%d bytes" % n,
                   "%s returns %d bytes, not %d" % (short, len(rows), n))
        widths[short] = 8 * len(rows)
        for k, (a, b, mk) in enumerate(rows):
            makers.add(mk)
            wa = (len(rows) - 1 - k) * 8
            ctx.decide(a == wa and b == wa + 8, rule, "%s:%s:byte%d" % (rule, short, k), f.loc,
                       "byte %d = bits [%d, %d) of the msb-first vector" % (k, a, b),
                       "%s: byte %d is made from bits [%s, %s) of the most-significant-first bit vector; low byte first means "
                       "bits [%d, %d)" % (short, k, a, b, wa, wa + 8))
    ctx.decide(len(makers) == 1 and None not in makers, rule, rule + ":one-bits-to-byte-routine", "-",
               "all bytes through %s" % sorted(str(m).split("::")[-1] for m in makers),
               "the bytes are made by different routines (%s)" % sorted(str(m) for m in makers))
    ctx.require(rule, 10, max_unknown=2)
    return makers, widths


def _masks(body):
    """locals initialised with the constant 0x80 and how each is updated: [(local, [update descriptions])]"""
    out = []
    for blk in body.blocks:
        for s in blk["s"]:
            if s["k"] == "assign" and not s["p"][1] and s["r"]["k"] == "use":
                k = s["r"]["o"].get("k") if isinstance(s["r"]["o"], dict) else None
                if k and k.get("int") == 128 and k.get("ty") == "u8":
                    out.append(s["p"][0])
    res = []
    for L in sorted(set(out)):
        ups = []
        for blk in body.blocks:
            if blk.get("c"):
                continue
            for s in blk["s"]:
                if s["k"] == "assign" and s["p"] == [L, []] and s["r"]["k"] == "bin":
                    r = s["r"]
                    kb = r["b"].get("k") if isinstance(r["b"], dict) else None
                    ups.append((r["op"], kb.get("int") if kb else None))
        res.append((L, ups))
    return res


def r4_reader_walk(ctx, makers, rule="C19.R4"):
    prog = ctx.prog
    reader = _fn(prog, "rusty_variant::bits::lsb_bytes_to_msb_bits")
    body = reader.body
    pv = mir.Prov(body)
    # the byte index: initialised from len(), decremented by one, used to index the bytes
    idx_ok = False
    why = "no byte index that starts at the length and is decremented by one"
    for blk in body.blocks:
        if blk.get("c"):
            continue
        for s in blk["s"]:
            if s["k"] == "assign" and s["r"]["k"] == "bin" and s["r"]["op"] in ("Sub", "SubWithOverflow"):
                kb = s["r"]["b"].get("k") if isinstance(s["r"]["b"], dict) else None
                pa = mir.op_place(s["r"]["a"])
                if kb and kb.get("int") == 1 and pa is not None and not pa[1]:
                    L = pa[0]
                    inits = [s2 for blk2 in body.blocks for s2 in blk2["s"] if s2["k"] == "assign" and s2["p"] == [L, []]
                             and s2["r"]["k"] == "use" and mir.op_place(s2["r"]["o"]) is not None]
                    init_call = [t for _b, t in body.calls() if t.get("d") == [L, []] and mir.callee_path(t).endswith("::len")]
                    from_len = bool(init_call) or any("len(" in str(pv.of_operand(s2["r"]["o"])) for s2 in inits)
                    def is_L(x):
                        if x == L:
                            return True
                        d_ = body.single_def(x)
                        if d_ and d_[1] != "T" and d_[2]["r"]["k"] == "use":
                            px = mir.op_place(d_[2]["r"]["o"])
                            return px is not None and px == [L, []]
                        return False
                    used = any(isinstance(e, dict) and "i" in e and is_L(e["i"]) for blk3 in body.blocks for s3 in blk3["s"]
                               if s3["k"] == "assign" for pl in _places_of(s3) for e in pl[1])
                    if from_len and used:
                        idx_ok = True
                    elif not from_len:
                        why = "the byte index that is decremented does not start at the length of the byte array"
    calls = [mir.callee_path(t) or "" for _b, t in body.calls()]
    rev = any(c.endswith("::rev") for c in calls)
    iterates = any(c.endswith(("::iter", "IntoIterator>::into_iter", "::into_iter")) for c in calls)
    # a forward walk positively recognised: an index that starts at 0 and is incremented by one, or an iterator without rev
    fwd_index = False
    for blk in body.blocks:
        if blk.get("c"):
            continue
        for s_ in blk["s"]:
            if s_["k"] == "assign" and s_["r"]["k"] == "bin" and s_["r"]["op"] in ("Add", "AddWithOverflow"):
                kb = s_["r"]["b"].get("k") if isinstance(s_["r"]["b"], dict) else None
                pa = mir.op_place(s_["r"]["a"])
                if kb and kb.get("int") == 1 and pa is not None and not pa[1]:
                    L = pa[0]
                    zero_init = any(s2["k"] == "assign" and s2["p"] == [L, []] and s2["r"]["k"] == "use"
                                    and isinstance(s2["r"]["o"], dict) and (s2["r"]["o"].get("k") or {}).get("int") == 0
                                    for blk2 in body.blocks for s2 in blk2["s"])
                    indexes = any(isinstance(e, dict) and "i" in e and (e["i"] == L or (
                        body.single_def(e["i"]) and body.single_def(e["i"])[1] != "T"
                        and body.single_def(e["i"])[2]["r"]["k"] == "use"
                        and mir.op_place(body.single_def(e["i"])[2]["r"]["o"]) == [L, []]))
                        for blk3 in body.blocks for s3 in blk3["s"] if s3["k"] == "assign" for pl in _places_of(s3) for e in pl[1])
                    if zero_init and indexes:
                        fwd_index = True
    backward = idx_ok or rev
    forward = fwd_index or (iterates and not rev)
    key_ = rule + ":reader:last-byte-first"
    if backward:
        ctx.ok(rule, key_, reader.loc, "bytes[len-1] ... bytes[0]" if idx_ok else "the bytes are walked through rev()")
    elif forward:
        ctx.violation(rule, key_, reader.loc,
                      "lsb_bytes_to_msb_bits walks the bytes from the first to the last - the writers put the low byte first, so the "
                      "most significant bits are in the last byte and have to come first in the bit vector")
    else:
        ctx.unknown(rule, key_, reader.loc, "the order in which the reader walks the bytes is not recognised (%s)" % why)
    for who, f in [("reader", reader)] + [("writer", prog.fns.get(m) or _by_path(prog, m)) for m in sorted(makers) if m]:
        if f is None:
            ctx.unknown(rule, "%s:%s:mask" % (rule, who), "-", "the bits-to-byte routine is not a workspace function")
            continue
        ms = _masks(f.body)
        good = [L for L, ups in ms if ups and all(op == "Shr" and k == 1 for op, k in ups)]
        ctx.decide(bool(good), rule, "%s:%s:%s:mask-0x80-downwards" % (rule, who, f.name), f.loc, "mask 0x80, then >> 1",
                   "%s does not walk the bits of a byte from the mask 0x80 downwards by one (masks and their updates: %s): the "
                   "order of the bits inside a byte differs between the writer and the reader" % (f.name, ms))
    ctx.require(rule, 3, max_unknown=1)


def _by_path(prog, path):
    fs = prog.by_path.get(path, [])
    return fs[0] if len(fs) == 1 else None


def _places_of(s):
    out = [s["p"]]
    r = s["r"]
    for kk in ("o", "a", "b"):
        if kk in r and isinstance(r[kk], dict):
            p = mir.op_place(r[kk])
            if p is not None:
                out.append(p)
    if "p" in r and isinstance(r["p"], list):
        out.append(r["p"])
    return out


def _named_consts(fns):
    """{const_def: value} of the named constants the functions use (debug assertions excluded)"""
    out = {}

    def look(o, mx):
        k = o.get("k") if isinstance(o, dict) else None
        if k and k.get("const_def") and "int" in k and not mx:
            out[k["const_def"]] = k["int"]
    for f in fns:
        for body in [f.body] + list(f.promoted):
            for blk in body.blocks:
                for s in blk["s"]:
                    if s["k"] != "assign":
                        continue
                    mx = any("assert" in m for m in (s.get("mx") or []))
                    r = s["r"]
                    for kk in ("o", "a", "b"):
                        if kk in r:
                            look(r[kk], mx)
                    for o in r.get("ops", []):
                        look(o, mx)
                t = blk["t"]
                if t["k"] == "call":
                    mx = any("assert" in m for m in (t.get("mx") or []))
                    for a in t["args"]:
                        look(a, mx)
    return out


def r5_layout_constants(ctx, widths, rule="C19.R5"):
    prog = ctx.prog
    bits_fns = [f for f in prog.fns.values() if f.crate == "rusty_variant" and "::bits::" in f.path and f.kind != "const"]
    enc = [f for f in bits_fns if prog.enclosing_fn(f).name.startswith("f64_") or prog.enclosing_fn(f).name == "f64_to_bytes"]
    dec = [f for f in bits_fns if prog.enclosing_fn(f).name == "bytes_to_f64"]
    if not enc or not dec:
        raise CheckError("%s: encoder / decoder of doubles not found in rusty_variant::bits" % rule)

    def role_values(fns):
        """(bias candidates, width candidates): i32 constants added to / subtracted from an exponent; usize constants"""
        bias, usz = set(), set()
        for f in fns:
            for blk in f.body.blocks:
                for s in blk["s"]:
                    if s["k"] != "assign" or any("assert" in m for m in (s.get("mx") or [])):
                        continue
                    r = s["r"]
                    for kk in ("a", "b", "o"):
                        k = r.get(kk, {}).get("k") if isinstance(r.get(kk), dict) else None
                        if k and k.get("const_def") and "int" in k:
                            (bias if k.get("ty") == "i32" else usz).add((k["const_def"].split("::")[-1], k["int"]))
                t = blk["t"]
                if t["k"] == "call" and not any("assert" in m for m in (t.get("mx") or [])):
                    for a in t["args"]:
                        k = a.get("k") if isinstance(a, dict) else None
                        if k and k.get("const_def") and "int" in k:
                            (bias if k.get("ty") == "i32" else usz).add((k["const_def"].split("::")[-1], k["int"]))
        return bias, usz
    eb, eu = role_values(enc)
    db, du = role_values(dec)
    ctx.decide({v for _n, v in eb} == {1023}, rule, rule + ":bias:encoder", enc[0].loc, "encoder bias %s" % sorted(eb),
               "the encoder of doubles uses the exponent bias %s; binary64 has the bias 1023" % sorted(eb))
    ctx.decide({v for _n, v in db} == {1023}, rule, rule + ":bias:decoder", dec[0].loc, "decoder bias %s" % sorted(db),
               "the decoder of doubles uses the exponent bias %s; binary64 has the bias 1023" % sorted(db))
    ev, dv = {v for _n, v in eu}, {v for _n, v in du}
    ctx.decide(11 in ev and 11 in dv, rule, rule + ":exponent-width", enc[0].loc, "11 exponent bits on both sides",
               "the exponent width used by the encoder is %s and by the decoder %s; binary64 has 11 exponent bits on both sides"
               % (sorted(eu), sorted(du)))
    ctx.decide(52 in ev, rule, rule + ":significand-width", enc[0].loc, "52 significand bits",
               "the encoder takes %s significand bits; binary64 has 52" % sorted(eu))
    total = widths.get("f64_to_bytes")
    ctx.decide(total == 64 and 1 + 11 + 52 == total, rule, rule + ":total-width", enc[0].loc, "1 + 11 + 52 = 64 = 8 bytes",
               "the byte table of f64_to_bytes covers %s bits; sign, exponent and significand are 64" % total)
    ctx.require(rule, 5)


def r6_peek_poke_use_the_word_codec(ctx, rule="C19.R6"):
    """PEEK reads, and POKE rewrites, byte `address` of the two bytes i32_to_bytes makes of the INTEGER payload: the
    index handed to get / get_mut is the address parameter itself, the bytes come from the encoder applied to the
    payload, and POKE stores the decoder's result of those same bytes back into the payload."""
    prog = ctx.prog
    for trait, name, getter in (("PeekByte", "peek_byte", "get"), ("PokeByte", "poke_byte", "get_mut")):
        fs = [f for f in prog.fns.values() if f.name == name and f.impl is not None and f.crate == "rusty_basic"
              and trait in (f.impl.get("trait_ref") or "") and (f.impl.get("self_ty") or "").endswith("Variant")]
        if len(fs) != 1:
            raise CheckError("%s: %d implementations of %s for Variant" % (rule, len(fs), trait))
        f = fs[0]
        body = f.body
        pv = mir.Prov(body)
        enc = [(b, t) for b, t in body.calls() if mir.callee_path(t).endswith("::i32_to_bytes")]
        # locals that hold a reference to the payload of the VInteger arm (`Self::VInteger(i)` on a &mut self)
        payload_refs = {st["p"][0] for blk in body.blocks for st in blk["s"]
                        if st["k"] == "assign" and not st["p"][1] and st["r"]["k"] == "ref"
                        and any(isinstance(e, dict) and e.get("d") == "VInteger" for e in st["r"]["p"][1])}

        def is_payload(op):
            if "as VInteger" in str(pv.of_operand(op)):
                return True
            pl_ = mir.op_place(op)
            for _ in range(3):
                if pl_ is None:
                    return False
                if pl_[1] == ["*"] and pl_[0] in payload_refs:
                    return True
                if pl_[1]:
                    return False
                d_ = body.single_def(pl_[0])
                if not d_ or d_[1] == "T" or d_[2]["r"]["k"] != "use":
                    return False
                pl_ = mir.op_place(d_[2]["r"]["o"])
            return False
        ok_enc = len(enc) == 1 and is_payload(enc[0][1]["args"][0])
        ctx.decide(ok_enc, rule, "%s:%s:bytes-of-the-payload" % (rule, name), f.loc, "i32_to_bytes(payload)",
                   "%s does not take the bytes of the INTEGER payload through i32_to_bytes" % name)
        gets = [(b, t) for b, t in body.calls() if re.search(r"(slice|array)[^:]*::<impl \[T\]>::%s$|\[T\]>::%s$|::%s$" % (getter, getter, getter), mir.callee_path(t))
                and len(t["args"]) == 2 and "i32_to_bytes" in str(pv.of_operand(t["args"][0]))]
        key = "%s:%s:index-is-the-address" % (rule, name)
        if len(gets) != 1:
            ctx.unknown(rule, key, f.loc, "%s does not pick the byte with %s on the encoder's array (%d candidates)" % (name, getter, len(gets)))
        else:
            o = mir.strip_all(pv.of_operand(gets[0][1]["args"][1]))
            ctx.decide(o == ("param", 1), rule, key, f.loc, "%s(address)" % getter,
                       "%s picks the byte at %s, not at the address it was given: low and high byte are exchanged or shifted"
                       % (name, mir.show_origin(pv.of_operand(gets[0][1]["args"][1]))[:60]))
        if name == "poke_byte":
            dec = [(b, t) for b, t in body.calls() if mir.callee_path(t).endswith("::bytes_to_i32")]
            wb = False
            for b, t in dec:
                d = t.get("d")
                # the destination (or a copy of it) is stored into the payload
                for blk in body.blocks:
                    for st in blk["s"]:
                        if st["k"] == "assign" and ("VInteger" in str(st["p"]) or (st["p"][1] == ["*"] and st["p"][0] in payload_refs)) \
                                and st["r"]["k"] == "use":
                            src = mir.op_place(st["r"]["o"])
                            if src is not None and d is not None and src[0] == d[0]:
                                wb = True
                if d is not None and "VInteger" in str(d):
                    wb = True
            ctx.decide(wb, rule, "%s:%s:written-back-through-the-decoder" % (rule, name), f.loc, "payload = bytes_to_i32(bytes)",
                       "poke_byte does not store bytes_to_i32 of the changed bytes back into the INTEGER payload")
    ctx.require(rule, 4, max_unknown=2)


def r7_no_tolerance_in_the_encoder(ctx, rule="C19.R7"):
    """MKD$ encodes every finite double exactly.  The encoder's halving / doubling compares the value with the constants
    that belong to the algorithm only - 0, 0.5, 1, 2 (is it negative, does the next fraction bit carry, is it
    normalised): a comparison with any other constant (an epsilon, a tolerance, a `small enough` threshold) makes a
    whole range of non-zero values encode as something else."""
    prog = ctx.prog
    fns = [f for f in prog.fns.values() if f.crate == "rusty_variant" and "::bits::" in f.path and f.kind != "const"
           and (prog.enclosing_fn(f) or f).name.startswith("f64_")]
    if not fns:
        raise CheckError("%s: the encoder functions of rusty_variant::bits were not found" % rule)
    allowed = {0.0, 0.5, 1.0, 2.0}
    n = 0
    for f in sorted(fns, key=lambda x: x.id):
        for blk in f.body.blocks:
            if blk.get("c"):
                continue
            for st in blk["s"]:
                if st["k"] != "assign" or st["r"]["k"] != "bin" or st["r"]["op"] not in ("Lt", "Le", "Gt", "Ge", "Eq", "Ne"):
                    continue
                if any("assert" in m for m in (st.get("mx") or [])):
                    continue
                for side in ("a", "b"):
                    k = st["r"][side].get("k") if isinstance(st["r"][side], dict) else None
                    if not k or k.get("ty") != "f64":
                        continue
                    n += 1
                    txt = str(k.get("s"))
                    val = None
                    m = re.fullmatch(r"(-?[0-9.]+(?:[eE][-+]?\d+)?)f64", txt)
                    if m and not k.get("const_def"):
                        try:
                            val = float(m.group(1))
                        except ValueError:
                            val = None
                    owner = (prog.enclosing_fn(f) or f).name
                    ctx.decide(val in allowed, rule, "%s:%s:%s" % (rule, owner, txt), "%s:%s" % (f.file, st.get("ln")),
                               "compares with %s" % txt,
                               "the encoder of doubles (%s) compares the value with %s: magnitudes on one side of that threshold are "
                               "not encoded by the algorithm (non-zero values below an epsilon become eight zero bytes, CVD(MKD$(x)) = 0)"
                               % (owner, k.get("const_def") or txt))
    ctx.analysed_units(rule, comparisons_with_float_constants=n)
    ctx.require(rule, 3)


def r8_shortcuts_follow_the_algebra(ctx, rule="C19.R8"):
    """qb_and / qb_or either go through the bit vectors (C19.R1 decides what happens there) or take a shortcut for an
    operand that is all zeros (0) or all ones (-1).  Every path of the two functions is walked with what the switches on
    the operands say about them; a result that does not come from the bit vectors has to be what the algebra prescribes:
    x AND 0 = 0, x AND -1 = x, x OR 0 = x, x OR -1 = -1.  A shortcut on any other operand value is not decided."""
    prog = ctx.prog
    for name, op in (("qb_and", "AND"), ("qb_or", "OR")):
        f = _fn(prog, "rusty_variant::bits::" + name)
        body = f.body
        pv = mir.Prov(body)

        def operand_param(o, depth=0):
            """which parameter (0 / 1) an origin is a plain copy of, else None"""
            o = mir.strip_all(o)
            if o[0] == "param":
                return o[1]
            if o[0] == "field" and o[1][0] == "agg" and o[1][1] == "tuple" and str(o[2]).isdigit() and depth < 3:
                k = int(o[2])
                if k < len(o[1][3]):
                    return operand_param(o[1][3][k], depth + 1)
            return None

        def classify(op_):
            k = op_.get("k") if isinstance(op_, dict) else None
            if k and "int" in k:
                v = k["int"]
                if v >= 1 << 31:
                    v -= 1 << 32 if v < (1 << 32) else (1 << 128 if v >= (1 << 127) else 0)
                return ("k", v)
            pi = operand_param(pv.of_operand(op_))
            if pi is not None:
                return ("p", pi)
            return None
        results = []      # (facts, result)
        budget = [0]

        def walk(b, facts, res, seen):
            budget[0] += 1
            if budget[0] > 5000 or b in seen or body.is_cleanup(b):
                return
            seen = seen | {b}
            blk = body.blocks[b]
            for st in blk["s"]:
                if st["k"] == "assign" and st["p"] == [0, []]:
                    res = classify(st["r"]["o"]) if st["r"]["k"] == "use" else ("other",)
            t = blk["t"]
            if t["k"] == "return":
                results.append((dict(facts), res))
            elif t["k"] == "switch":
                pi = operand_param(pv.of_operand(t["o"]))
                vals = []
                for val, tg in t["ts"]:
                    v = val
                    if v >= 1 << 31:
                        v = v - (1 << 32) if v < (1 << 32) else v - (1 << 128)
                    vals.append(v)
                    nf = dict(facts)
                    if pi is not None:
                        nf[pi] = v
                    walk(tg, nf, res, seen)
                nf = dict(facts)
                if pi is not None:
                    nf.setdefault(("not", pi), set())
                    nf[("not", pi)] = set(nf[("not", pi)]) | set(vals)
                walk(t["else"], nf, res, seen)
            elif t["k"] == "call":
                if t.get("d") == [0, []]:
                    cp = mir.callee_path(t) or ""
                    res = ("vec",) if ("BitVec" in cp or cp.endswith("::into") or cp.endswith("::from")) else ("other",)
                if t.get("t") is not None:
                    walk(t["t"], facts, res, seen)
            else:
                for x in body.succ(b):
                    walk(x, facts, res, seen)
        walk(0, {}, None, frozenset())
        if not results:
            raise CheckError("%s: no path of %s reaches a return" % (rule, name))
        bad, unk = [], []
        for facts, res in results:
            a, b_ = facts.get(0), facts.get(1)
            if res == ("vec",):
                continue

            def val(x):
                if x is None:
                    return None
                if x[0] == "k":
                    return x
                if x[0] == "p":
                    return ("k", facts[x[1]]) if x[1] in facts else x
                return None
            if op == "AND":
                exp = ("k", 0) if (a == 0 or b_ == 0) else (("p", 1) if a == -1 else (("p", 0) if b_ == -1 else None))
            else:
                exp = ("k", -1) if (a == -1 or b_ == -1) else (("p", 1) if a == 0 else (("p", 0) if b_ == 0 else None))
            what = "a = %s, b = %s" % (a if a is not None else "any", b_ if b_ is not None else "any")
            if exp is None or res is None or res[0] == "other":
                unk.append("%s -> %s" % (what, res))
            elif val(res) != val(exp):
                show = lambda x: {"k": lambda y: str(y[1]), "p": lambda y: "ab"[y[1]]}[x[0]](x)
                bad.append("for %s the result is %s; %s prescribes %s" % (what, show(res), op, show(val(exp))))
        key = "%s:%s" % (rule, name)
        if bad:
            ctx.violation(rule, key, f.loc, "%s takes a shortcut that is not %s: %s" % (name, op, "; ".join(sorted(set(bad))[:3])))
        elif unk:
            ctx.unknown(rule, key, f.loc, "%s has a path that neither goes through the bit vectors nor is a shortcut on 0 / -1: %s" % (name, unk[:2]))
        else:
            ctx.ok(rule, key, f.loc, "%d path(s): through the bit vectors, or a shortcut the algebra prescribes" % len(results))
    ctx.require(rule, 1, max_unknown=2)


def run(ctx):
    common.install(ctx)
    r1_elementwise(ctx)
    r2_not(ctx)
    makers, widths = r3_writer_tables(ctx)
    r4_reader_walk(ctx, makers)
    r5_layout_constants(ctx, widths)
    r6_peek_poke_use_the_word_codec(ctx)
    r7_no_tolerance_in_the_encoder(ctx)
    r8_shortcuts_follow_the_algebra(ctx)
