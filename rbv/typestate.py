"""P7: typestate walker for the parser-combinator contract (C20).

A TagFlow engine whose traces carry an extra finite state:
  pos      : ENTRY | MOVED  - is the input position known to equal the position at entry
  posobjs  : values returned by get_position -> ENTRY | MID
  soft     : abstract error objects -> SOFT | FATAL | UNKNOWN
  origin   : error object -> ('child', n) | ('derived', id) | ('default',) | ('field', name)
  children : child errors seen on this path
Effects happen at intrinsic calls (InputTrait / Parser::parse of a child / ParserErrorTrait).
Summaries are not memoised (calls have effects); every call returns (value, state) pairs."""
import copy
import re

from . import mir, tagflow as tf

ENTRY, MOVED, MID = "ENTRY", "MOVED", "MID"
SOFT, FATAL, UNKNOWN = "SOFT", "FATAL", "UNKNOWN"
MAX_TRACES = 40000


def new_state():
    return {"pos": ENTRY, "posobjs": {}, "soft": {}, "origin": {}, "children": [],
            "rewound": False, "m_viol": [], "moved_once": False, "cut": False,
            "dirty": False, "r_viol": [], "parsed": 0, "later_child_failed": None}


def errobj(i):
    return ("errobj", i)


class TSEngine(tf.Engine):
    def __init__(self, prog, error_fields=None, decorator_impl=None):
        super().__init__(prog)
        self.counter = 0
        self.error_fields = error_fields or {}
        self.decorator_impl = decorator_impl     # impl record of the MapDecorator implementor
        self.traces = 0
        self.unknown_calls = []

    def fresh(self):
        self.counter += 1
        return self.counter

    def new_error(self, ts, softness, origin):
        i = self.fresh()
        ts["soft"][i] = softness
        ts["origin"][i] = origin
        return errobj(i)

    # ------------------------------------------------------------------ running
    def run_ts(self, fn, body, args, ts, depth=0):
        """-> list of (return value, state)"""
        results = []
        stack = [(0, dict(args), {}, ts)]
        while stack:
            b, env, visits, ts = stack.pop()
            self.traces += 1
            if self.traces > MAX_TRACES:
                ts["cut"] = True
                results.append((tf.TOP, ts))
                break
            while True:
                v = visits.get(b, 0)
                if v >= tf.MAX_VISITS:
                    ts["cut"] = True
                    results.append((tf.TOP, ts))
                    break
                visits = dict(visits)
                visits[b] = v + 1
                blk = body.blocks[b]
                self.mutably_borrowed = set()
                for s in blk["s"]:
                    if s["k"] == "assign":
                        dl = s["p"][0] if not s["p"][1] else None
                        val = self.rvalue(fn, body, env, s["r"], dl)
                        self.write(env, s["p"], val)
                    elif s["k"] == "setdiscr":
                        self.write(env, s["p"], tf.TOP)
                t = blk["t"]
                k = t["k"]
                if k == "return":
                    results.append((tf.truncate(env.get(0, tf.Tup(())), 6), ts))
                    break
                if k in ("goto", "drop", "assert"):
                    b = t["t"]
                    continue
                if k == "switch":
                    nxt = self.do_switch_ts(fn, body, env, t, ts)
                    if not nxt:
                        break
                    for nb, nenv, nts in nxt[1:]:
                        stack.append((nb, nenv, visits, nts))
                    b, env, ts = nxt[0]
                    continue
                if k == "call":
                    if t.get("t") is None:
                        break
                    outs = self.do_call_ts(fn, body, env, t, ts, depth)
                    if not outs:
                        break
                    for rv, nts in outs[1:]:
                        e2 = dict(env)
                        self.write(e2, t["d"], rv)
                        stack.append((t["t"], e2, visits, nts))
                    rv, ts = outs[0]
                    self.write(env, t["d"], rv)
                    b = t["t"]
                    continue
                break
        return results

    def do_switch_ts(self, fn, body, env, t, ts):
        nxt = self.do_switch(fn, body, env, t)
        out = []
        for i, (nb, nenv) in enumerate(nxt):
            out.append((nb, nenv, ts if i == 0 else copy.deepcopy(ts)))
        return out

    # ------------------------------------------------------------------ calls
    def do_call_ts(self, fn, body, env, t, ts, depth):
        args = [self.operand(fn, body, env, a) for a in t["args"]]
        r = self.ts_intrinsic(fn, t, args, ts, depth)
        if r is not None:
            return r
        r = self.std_model_ts(fn, t, args, ts, depth)
        if r is not None:
            return r
        callee = self.prog.fns.get(mir.callee_of(t))
        if callee is None and t.get("callee") is None:
            f = tf.deref(self.operand(fn, body, env, t["f"]))
            return self.call_value_ts(f, args, ts, depth)
        if callee is not None and callee.kind != "const":
            return self.call_fn_ts(callee, args, ts, depth)
        self.unknown_calls.append(t.get("cpath"))
        return [(tf.TOP, ts)]

    def call_fn_ts(self, callee, args, ts, depth):
        if depth > 12:
            ts["cut"] = True
            return [(tf.TOP, ts)]
        env = {i + 1: a for i, a in enumerate(args)}
        return self.run_ts(callee, callee.body, env, ts, depth + 1)

    def call_value_ts(self, f, args, ts, depth):
        f = tf.deref(f)
        if f[0] == "closure":
            cf = self.prog.fns.get(f[1])
            if cf is not None:
                return self.call_fn_ts(cf, [f] + list(args), ts, depth)
        if f[0] == "fn":
            cf = self.prog.fns.get(f[1])
            if cf is not None:
                return self.call_fn_ts(cf, list(args), ts, depth)
            vals = self.call_value(f, args)
            return [(v, ts if i == 0 else copy.deepcopy(ts)) for i, v in enumerate(vals)]
        # a closure / function stored in a field of the parser (user code): unknown result
        return [(("external",), ts)]

    def std_model_ts(self, fn, t, args, ts, depth):
        cp = t.get("cpath") or ""
        if re.match(r"std::ops::Fn(Once|Mut)?::call(_once|_mut)?$", cp):
            f = args[0]
            tup = tf.deref(args[1]) if len(args) > 1 else tf.Tup(())
            cargs = list(tup[1]) if tup[0] == "tup" else [tf.TOP]
            return self.call_value_ts(f, cargs, ts, depth)
        m = re.match(r"std::result::Result::<T, E>::(\w+)$", cp)
        if m and m.group(1) in ("map", "map_err", "and_then", "or_else"):
            name = m.group(1)
            r = tf.deref(args[0])
            if r[0] == "external":
                return [(r, ts)]
            variants = [r] if (r[0] == "tag" and r[2] in ("Ok", "Err")) else [
                tf.Tag("core::result::Result", "Ok", [tf.TOP]), tf.Tag("core::result::Result", "Err", [tf.TOP])]
            out = []
            for i, v in enumerate(variants):
                vts = ts if i == 0 else copy.deepcopy(ts)
                payload = v[3][0] if v[3] else tf.TOP
                hit = (v[2] == "Ok") == (name in ("map", "and_then"))
                if not hit:
                    out.append((v, vts))
                    continue
                for x, xts in self.call_value_ts(args[1], [payload], vts, depth):
                    if name == "map":
                        out.append((tf.Tag("core::result::Result", "Ok", [x]), xts))
                    elif name == "map_err":
                        out.append((tf.Tag("core::result::Result", "Err", [x]), xts))
                    else:
                        out.append((x, xts))
            return out
        if cp == "std::clone::Clone::clone":
            return [(tf.deref(args[0]) if args else tf.TOP, ts)]
        vals = self.std_model(fn, t, args)
        if vals is None:
            return None
        return [(v, ts if i == 0 else copy.deepcopy(ts)) for i, v in enumerate(vals)]

    # ------------------------------------------------------------------ intrinsics
    def ts_intrinsic(self, fn, t, args, ts, depth):
        cp = t.get("cpath") or ""
        ctrait = t.get("ctrait") or ""
        name = cp.split("::")[-1]
        if ctrait.endswith("parser::InputTrait"):
            if name == "get_position":
                i = self.fresh()
                ts["posobjs"][i] = ENTRY if ts["pos"] == ENTRY else MID
                return [(("posobj", i), ts)]
            if name == "set_position":
                p = tf.deref(args[1]) if len(args) > 1 else tf.TOP
                if p[0] == "posobj" and p[1] in ts["posobjs"]:
                    if ts.get("dirty"):
                        # the position is put back after a child failed (clause P looks at what is returned then)
                        ts["rewound_after_child_error"] = t.get("ln")
                    ts["dirty"] = False
                    if ts["posobjs"][p[1]] == ENTRY:
                        ts["later_child_failed"] = None
                    if ts["posobjs"][p[1]] == ENTRY:
                        if ts["pos"] == MOVED:
                            ts["rewound"] = True
                        ts["pos"] = ENTRY
                    else:
                        ts["pos"] = MOVED
                else:
                    ts["m_viol"].append(t.get("ln"))
                    ts["pos"] = MOVED
                return [(tf.Tup(()), ts)]
            if name == "read":
                ts["pos"] = MOVED
                ts["moved_once"] = True
                return [(tf.TOP, ts)]
            return [(tf.TOP, ts)]
        if ctrait.endswith("parser::Parser") and ctrait.startswith("rusty_pc"):
            if name == "parse":
                if ts.get("dirty"):
                    # another child is tried after a child failed, without restoring the position:
                    # relies on the failed child having restored it (clause R)
                    ts["r_viol"].append(t.get("ln"))
                ts["parsed"] = ts.get("parsed", 0) + 1
                ts["rewound_after_child_error"] = None      # what is returned from here on is this child's answer
                ok_ts = copy.deepcopy(ts)
                ok_ts["pos"] = MOVED
                ok_ts["moved_once"] = True
                err_ts = ts
                # a child that is not the first one parsed in this invocation fails (clause L)
                err_ts["later_child_failed"] = t.get("ln") if ts["parsed"] > 1 else None
                n = self.fresh()
                e = self.new_error(err_ts, UNKNOWN, ("child", n))
                err_ts["children"].append(e[1])
                err_ts["dirty"] = True
                return [(tf.Tag("core::result::Result", "Ok", [tf.TOP]), ok_ts),
                        (tf.Tag("core::result::Result", "Err", [e]), err_ts)]
            if name == "set_context":
                return [(tf.Tup(()), ts)]
        if ctrait.endswith("parser::ParserErrorTrait"):
            e = tf.deref(args[0]) if args else tf.TOP
            if e[0] == "errobj":
                if name in ("is_soft", "is_fatal"):
                    s = ts["soft"].get(e[1], UNKNOWN)
                    if s != UNKNOWN:
                        return [(tf.K(int((s == SOFT) == (name == "is_soft"))), ts)]
                    a = copy.deepcopy(ts)
                    a["soft"][e[1]] = SOFT
                    b = ts
                    b["soft"][e[1]] = FATAL
                    return [(tf.K(int(name == "is_soft")), a), (tf.K(int(name == "is_fatal")), b)]
                if name == "to_fatal":
                    return [(self.new_error(ts, FATAL, ("derived", e[1])), ts)]
            return None
        if cp == "rusty_pc::parser::default_parse_error":
            return [(tf.Tag("core::result::Result", "Err", [self.new_error(ts, SOFT, ("default",))]), ts)]
        if cp == "std::default::Default::default":
            st = t.get("self_ty") or ""
            if st in ("E", "_E") or st.endswith("::Error"):
                return [(self.new_error(ts, SOFT, ("default",)), ts)]
            return [(tf.TOP, ts)]
        if ctrait.endswith("map_decorator::MapDecorator") and self.decorator_impl is not None:
            tr = self.prog.traits[ctrait]
            fid = self.prog.effective_method(self.decorator_impl, tr, name)
            f = self.prog.fns.get(fid)
            if name == "decorated":
                return [(tf.TOP, ts)]
            if f is not None:
                return self.call_fn_ts(f, args, ts, depth)
        return None

    # ------------------------------------------------------------------ concrete errors
    def softness_of(self, ts, e, error_impl_is_fatal=None):
        e = tf.deref(e)
        if e[0] == "errobj":
            return ts["soft"].get(e[1], UNKNOWN)
        if e[0] == "tag" and error_impl_is_fatal is not None:
            rs = {tf.shape(x) for x in self.summary(error_impl_is_fatal, (tf.Ref(e),))}
            if rs == {"1"}:
                return FATAL
            if rs == {"0"}:
                return SOFT
        return UNKNOWN
