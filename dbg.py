import sys, os
sys.path.insert(0, os.path.dirname(os.path.abspath(__file__)))
from rbv import facts, mir
def load():
    crates = facts.load_workspace()
    return mir.Program(crates)
