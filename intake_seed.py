#!/usr/bin/env python3
"""maintenance helper (not used by checks): take a sub-agent's delivery (<dir> with patch.diff, demo, notes) into
seeded/<Cxx-N>/, confirm it in a scratch worktree of /repo HEAD (verify_seed.sh) and run the property's check on
a scratch copy (seeded_check.py).  usage: intake_seed.py <Cxx> <delivery dir> "<summary>" "<needs to manifest>" """
import glob, json, os, shutil, subprocess, sys
V = os.path.dirname(os.path.abspath(__file__))
prop, src, summary, needs = sys.argv[1:5]
n = 1 + max([int(os.path.basename(d).split('-')[1]) for d in glob.glob(os.path.join(V, 'seeded', prop + '-*'))] or [0])
sid = '%s-%d' % (prop, n)
dst = os.path.join(V, 'seeded', sid)
shutil.copytree(src, dst)
head = subprocess.check_output(['git', '-C', '/repo', 'rev-parse', '--short', 'HEAD']).decode().strip()
meta = {"id": sid, "property": prop, "summary": summary, "needs_to_manifest": needs,
        "what_i_ran": "verify_seed.sh in a scratch worktree of /repo HEAD: build, demo and whole test suite with the change, "
                      "demo without it (verify.log)", "detected_by": [], "verified_on": "%s (scratch worktree of /repo HEAD)" % head}
json.dump(meta, open(os.path.join(dst, 'meta.json'), 'w'), indent=1)
subprocess.run([os.path.join(V, 'verify_seed.sh'), dst, 'vs-' + sid], stdout=subprocess.DEVNULL, stderr=subprocess.DEVNULL)
log = open(os.path.join(dst, 'verify.log')).read()
print('==== %s verify.log (abridged)' % sid)
for l in log.splitlines():
    if 'test result: ok. 0 passed' in l:
        continue
    print('  ' + l[:220])
r = subprocess.run([os.path.join(V, 'seeded_check.py'), sid], stdout=subprocess.PIPE, stderr=subprocess.STDOUT, text=True)
print('==== check:', r.stdout.strip()[:600])
