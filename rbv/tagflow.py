"""P6 TagFlow: trace-partitioned abstract interpretation of MIR over enum tags and literal
constants (DESIGN.md section 3).  No path conditions, no solver: a SwitchInt on a known tag /
constant follows one edge, on an unknown value forks the trace (refining the scrutinee to the
variant of each edge).  Calls into workspace functions go through memoised summaries keyed by the
abstract arguments; a fixed list of std callees is modelled; clients may add intrinsics (e.g. the
VM's registers).  Everything else is TOP."""
import re

from . import mir

TOP = ("top",)
UNINIT = ("uninit",)
MAX_TRACES = 6000
MAX_VISITS = 3
MAX_DEPTH = 40


def K(i):
    return ("k", i)


def Tag(adt, variant, fields=()):
    return ("tag", adt, variant, tuple(fields))


def Ref(v):
    return ("ref", v)


def Tup(vs):
    return ("tup", tuple(vs))


def is_top(v):
    return v[0] in ("top", "uninit")


def Box(v):
    return ("box", v)


def deref(v):
    while v[0] in ("ref", "box"):
        v = v[1]
    return v


def truncate(v, depth=4):
    """Cut structure below `depth` to TOP (keeps summaries finite)."""
    k = v[0]
    if k in ("top", "k", "str", "fn", "uninit", "errobj", "posobj", "external"):
        return v
    if depth <= 0:
        return TOP
    if k in ("ref", "box"):
        return (k, truncate(v[1], depth))
    if k == "tag":
        return ("tag", v[1], v[2], tuple(truncate(f, depth - 1) for f in v[3]))
    if k == "tup":
        return ("tup", tuple(truncate(f, depth - 1) for f in v[1]))
    if k == "closure":
        return ("closure", v[1], tuple(truncate(f, depth - 1) for f in v[2]))
    return TOP


def shape(v, depth=2):
    """Constructor tree as text: Ok(VInteger), Err(TypeMismatch), true, ⊤ ..."""
    v = deref(v)
    k = v[0]
    if k == "k":
        return str(v[1])
    if k == "str":
        return '"%s"' % v[1]
    if k == "tag":
        name = v[2]
        if depth <= 0 or not v[3]:
            return name
        inner = [shape(f, depth - 1) for f in v[3]]
        if all(x == "⊤" for x in inner):
            return name
        return "%s(%s)" % (name, ", ".join(inner))
    if k == "tup":
        return "(%s)" % ", ".join(shape(f, depth - 1) for f in v[1])
    return "⊤"


class Engine:
    def __init__(self, prog, intrinsics=None, follow=None):
        self.prog = prog
        self.intrinsics = intrinsics or (lambda eng, t, args: None)
        self.trunc_depth = 4
        self._div_stack = []
        self.memo_div = {}
        self.follow = follow or (lambda fn: True)
        self.memo = {}
        self.in_progress = set()
        self.imprecise = []        # notes: (fn path, why)
        self.adt_cache = {}
        self.depth = 0

    # ------------------------------------------------------------ adt helpers
    def variant_by_discr(self, adt_id, val):
        a = self.prog.adts.get(adt_id)
        if a is None:
            return None
        for v in a["variants"]:
            d = v.get("discr", v["idx"])
            if d == val or (d - val) % (1 << 64) == 0 or (d - val) % (1 << 128) == 0:
                return v
        return None

    def variant_named(self, adt_id, name):
        a = self.prog.adts.get(adt_id)
        if a is None:
            return None
        for v in a["variants"]:
            if v["name"] == name:
                return v
        return None

    def make(self, adt_id, name, known=None):
        """Tag with TOP fields except `known` {index: value}; Box-typed fields are wrapped."""
        var = self.variant_named(adt_id, name)
        if var is None:
            raise KeyError("%s::%s" % (adt_id, name))
        fs = []
        for i, f in enumerate(var["fields"]):
            val = (known or {}).get(i, TOP)
            if f.get("ty", "").startswith("std::boxed::Box<") and val[0] not in ("box", "top"):
                val = Box(val)
            fs.append(val)
        return Tag(adt_id, name, fs)

    def fresh_tag(self, adt_id, name):
        v = self.variant_named(adt_id, name)
        n = len(v["fields"]) if v else 0
        return Tag(adt_id, name, [TOP] * n)

    # ------------------------------------------------------------ places
    def read(self, env, place):
        v = env.get(place[0], UNINIT)
        for e in place[1]:
            v = self.project(v, e)
        return v

    def project(self, v, e):
        if e == "*":
            if v[0] in ("ref", "box"):
                return v[1]
            return v
        if isinstance(e, str):
            return TOP
        if "f" in e:
            i = e["f"]
            if v[0] == "box":
                # Box<T>.0 (Unique<T>) .pointer (NonNull<T>) .pointer (*const T): same pointee
                return v
            if v[0] == "tag":
                return v[3][i] if i < len(v[3]) else TOP
            if v[0] == "tup":
                return v[1][i] if i < len(v[1]) else TOP
            if v[0] == "closure":
                return v[2][i] if i < len(v[2]) else TOP
            return TOP
        if "d" in e:
            if v[0] == "tag":
                return v
            return TOP
        return TOP

    def update(self, v, proj, new, adt_hint=None):
        """Functional update of value v at projection path proj."""
        if not proj:
            return new
        e, rest = proj[0], proj[1:]
        if e == "*":
            if v[0] in ("ref", "box"):
                return (v[0], self.update(v[1], rest, new))
            return self.update(v, rest, new)
        if isinstance(e, dict) and "f" in e:
            i = e["f"]
            if v[0] == "tag":
                fs = list(v[3])
                while len(fs) <= i:
                    fs.append(TOP)
                fs[i] = self.update(fs[i], rest, new)
                return ("tag", v[1], v[2], tuple(fs))
            if v[0] == "tup":
                fs = list(v[1])
                while len(fs) <= i:
                    fs.append(TOP)
                fs[i] = self.update(fs[i], rest, new)
                return ("tup", tuple(fs))
            return TOP
        if isinstance(e, dict) and "d" in e:
            return self.update(v, rest, new)
        return TOP

    def write(self, env, place, val):
        local, proj = place
        if not proj:
            env[local] = val
            return
        cur = env.get(local, UNINIT)
        env[local] = self.update(cur, list(proj), val)

    # ------------------------------------------------------------ operands / rvalues
    def operand(self, fn, body, env, op):
        p = mir.op_place(op)
        if p is not None:
            return self.read(env, p)
        k = op.get("k")
        if k is None:
            return TOP
        if k.get("fn"):
            return ("fn", k["fn"], tuple(k.get("gargs") or ()))
        if "promoted" in k:
            return self.eval_promoted(fn, k["promoted"])
        if "int" in k:
            return K(k["int"])
        s = k.get("s", "")
        m = re.match(r'^"(.*)"$', s, re.S)
        if m and k.get("ty", "").startswith("&"):
            return Ref(("str", m.group(1)))
        if k.get("const_def"):
            cfn = self.prog.fns.get(k["const_def"])
            if cfn is not None:
                rs = self.summary(cfn, ())
                if len(rs) == 1:
                    return next(iter(rs))
            return TOP
        # unit-like ADT constants printed as paths
        adt = k.get("adt")
        if adt and adt in self.prog.adts:
            m = re.search(r"(\w+)$", s)
            if m and self.variant_named(adt, m.group(1)):
                return self.fresh_tag(adt, m.group(1))
        if k.get("ty") == "()":
            return Tup(())
        return TOP

    def eval_promoted(self, fn, idx):
        if idx >= len(fn.promoted):
            return TOP
        body = fn.promoted[idx]
        rs = self.run(fn, body, {})
        if len(rs) == 1:
            return next(iter(rs))
        return TOP

    def rvalue(self, fn, body, env, r, dest_local):
        k = r["k"]
        if k == "use":
            return self.operand(fn, body, env, r["o"])
        if k == "ref" or k == "rawptr":
            v = self.read(env, r["p"])
            out = Ref(v)
            if r.get("mut") and not any(e == "*" for e in r["p"][1]):
                # the pointee may be mutated through the borrow: forget it
                self.mutably_borrowed.add(r["p"][0])
            return out
        if k == "copyderef":
            return self.read(env, r["p"])
        if k == "discr":
            v = deref(self.read(env, r["p"]))
            if v[0] == "tag":
                a = self.variant_named(v[1], v[2])
                if a is not None:
                    return K(a.get("discr", a["idx"]))
            return ("discr_of", tuple([r["p"][0], _freeze(r["p"][1])]), r.get("adt"))
        if k == "agg":
            ops = [self.operand(fn, body, env, o) for o in r["ops"]]
            if r["a"] == "adt":
                return Tag(r["adt"], r["variant"], ops)
            if r["a"] == "tuple":
                return Tup(ops)
            if r["a"] == "closure":
                return ("closure", r["def"], tuple(ops))
            return TOP
        if k == "bin":
            a = deref(self.operand(fn, body, env, r["a"]))
            b = deref(self.operand(fn, body, env, r["b"]))
            return self.binop(r["op"], a, b)
        if k == "un":
            a = deref(self.operand(fn, body, env, r["o"]))
            if a[0] == "k" and r["op"] == "Not":
                ty = body.locals[dest_local]["ty"] if dest_local is not None else ""
                if ty == "bool":
                    return K(0 if a[1] else 1)
            if a[0] == "k" and r["op"] == "Neg":
                return K(-a[1])
            return TOP
        if k == "cast":
            a = self.operand(fn, body, env, r["o"])
            ck = r["ck"]
            if ck.startswith("PointerCoercion") or ck in ("Transmute", "PtrToPtr"):
                return a
            if ck == "IntToInt" and a[0] == "k":
                return a
            return TOP
        return TOP

    def binop(self, op, a, b):
        if a[0] == "k" and b[0] == "k":
            x, y = a[1], b[1]
            if op == "Eq":
                return K(int(x == y))
            if op == "Ne":
                return K(int(x != y))
            if op == "Lt":
                return K(int(x < y))
            if op == "Le":
                return K(int(x <= y))
            if op == "Gt":
                return K(int(x > y))
            if op == "Ge":
                return K(int(x >= y))
            if op in ("Add", "AddUnchecked"):
                return K(x + y)
            if op in ("Sub", "SubUnchecked"):
                return K(x - y)
            if op in ("Mul", "MulUnchecked"):
                return K(x * y)
            if op == "BitAnd":
                return K(x & y)
            if op == "BitOr":
                return K(x | y)
            if op == "BitXor":
                return K(x ^ y)
            if op in ("AddWithOverflow", "SubWithOverflow", "MulWithOverflow"):
                v = x + y if op[0] == "A" else (x - y if op[0] == "S" else x * y)
                return Tup([K(v), K(0)])
        if op in ("AddWithOverflow", "SubWithOverflow", "MulWithOverflow"):
            return Tup([TOP, K(0)])
        return TOP

    # ------------------------------------------------------------ running a body
    def run(self, fn, body, args, start=0):
        """Return the set of abstract return values of body for the given {local: value} args."""
        results = set()
        env0 = dict(args)
        stack = [(start, env0, {})]
        traces = 0
        saved_mb = getattr(self, "mutably_borrowed", set())
        self.mutably_borrowed = set()
        while stack:
            b, env, visits = stack.pop()
            traces += 1
            if traces > MAX_TRACES:
                self.imprecise.append((fn.path, "trace budget exhausted"))
                results.add(TOP)
                break
            # straight-line execution until a fork
            while True:
                v = visits.get(b, 0)
                if v >= MAX_VISITS:
                    self.imprecise.append((fn.path, "loop bound reached"))
                    results.add(TOP)
                    break
                visits = dict(visits)
                visits[b] = v + 1
                blk = body.blocks[b]
                for s in blk["s"]:
                    if s["k"] == "assign":
                        dl = s["p"][0] if not s["p"][1] else None
                        val = self.rvalue(fn, body, env, s["r"], dl)
                        self.write(env, s["p"], val)
                    elif s["k"] == "setdiscr":
                        self.write(env, s["p"], TOP)
                t = blk["t"]
                k = t["k"]
                if k == "return":
                    results.add(truncate(env.get(0, Tup(())), self.trunc_depth))
                    break
                if k == "goto":
                    b = t["t"]
                    continue
                if k in ("drop", "assert"):
                    b = t["t"]
                    continue
                if k == "switch":
                    nxt = self.do_switch(fn, body, env, t)
                    if len(nxt) == 1:
                        b, env = nxt[0]
                        continue
                    for nb, nenv in nxt[1:]:
                        stack.append((nb, nenv, visits))
                    if not nxt:
                        break
                    b, env = nxt[0]
                    continue
                if k == "call":
                    if t.get("t") is None:
                        if self._div_stack:
                            self._div_stack[-1].add((fn.path, t.get("ln")))
                        break          # diverges (panic)
                    rets = self.do_call(fn, body, env, t)
                    for lcl in list(self.mutably_borrowed):
                        env[lcl] = TOP
                    self.mutably_borrowed.clear()
                    if not rets:
                        break
                    rets = list(rets)
                    for rv in rets[1:]:
                        e2 = dict(env)
                        self.write(e2, t["d"], rv)
                        stack.append((t["t"], e2, visits))
                    self.write(env, t["d"], rets[0])
                    b = t["t"]
                    continue
                # unreachable / resume / other
                break
        self.mutably_borrowed = saved_mb
        return results

    def do_switch(self, fn, body, env, t):
        v = deref(self.operand(fn, body, env, t["o"]))
        targets = t["ts"]
        other = t["else"]
        other_live = not mir.block_is_unreachable(body, other)
        if v[0] == "k":
            for val, tgt in targets:
                if val == v[1] or (isinstance(val, int) and (val - v[1]) % (1 << 128) == 0):
                    return [(tgt, env)]
            return [(other, env)] if other_live else []
        out = []
        if v[0] == "discr_of":
            place = [v[1][0], _thaw(v[1][1])]
            adt = v[2]
            cur = deref(self.read(env, place))
            seen_names = set()
            for val, tgt in targets:
                var = self.variant_by_discr(adt, val) if adt else None
                e2 = dict(env)
                if var is not None:
                    seen_names.add(var["name"])
                    if cur[0] != "tag":
                        self.refine(e2, place, self.fresh_tag(adt, var["name"]))
                out.append((tgt, e2))
            if other_live:
                a = self.prog.adts.get(adt) if adt else None
                rest = [x["name"] for x in a["variants"] if x["name"] not in seen_names] if a else []
                if len(rest) == 1 and cur[0] != "tag":
                    e2 = dict(env)
                    self.refine(e2, place, self.fresh_tag(adt, rest[0]))
                    out.append((other, e2))
                elif rest or a is None:
                    # one trace per remaining variant keeps later matches on the same value precise
                    if a is not None and cur[0] != "tag" and len(rest) <= 12:
                        for name in rest:
                            e2 = dict(env)
                            self.refine(e2, place, self.fresh_tag(adt, name))
                            out.append((other, e2))
                    else:
                        out.append((other, dict(env)))
            return out
        # unknown scalar (bool or int)
        p = mir.op_place(t["o"])
        for val, tgt in targets:
            e2 = dict(env)
            if p is not None and not p[1]:
                e2[p[0]] = K(val)
            out.append((tgt, e2))
        if other_live:
            e2 = dict(env)
            if p is not None and not p[1] and t.get("ty") == "bool" and len(targets) == 1:
                e2[p[0]] = K(1 - targets[0][0])
            out.append((other, e2))
        return out

    def refine(self, env, place, newval):
        local, proj = place
        cur = env.get(local, TOP)
        if cur[0] == "uninit":
            cur = TOP
        env[local] = self._refine(cur, list(proj), newval)

    def _refine(self, v, proj, new):
        if not proj:
            if v[0] in ("ref", "box"):
                return (v[0], self._refine(v[1], proj, new))
            return new
        e, rest = proj[0], proj[1:]
        if e == "*":
            if v[0] in ("ref", "box"):
                return (v[0], self._refine(v[1], rest, new))
            return self._refine(v, rest, new)
        if isinstance(e, dict) and "f" in e:
            i = e["f"]
            if v[0] == "tag":
                fs = list(v[3])
                while len(fs) <= i:
                    fs.append(TOP)
                fs[i] = self._refine(fs[i], rest, new)
                return ("tag", v[1], v[2], tuple(fs))
            if v[0] == "tup":
                fs = list(v[1])
                while len(fs) <= i:
                    fs.append(TOP)
                fs[i] = self._refine(fs[i], rest, new)
                return ("tup", tuple(fs))
            if v[0] in ("ref", "box"):
                return (v[0], self._refine(v[1], proj if v[0] == "ref" else rest, new))
            return v
        if isinstance(e, dict) and "d" in e:
            return self._refine(v, rest, new)
        return v

    # ------------------------------------------------------------ calls
    def do_call(self, fn, body, env, t):
        args = [self.operand(fn, body, env, a) for a in t["args"]]
        r = self.intrinsics(self, t, args)
        if r is not None:
            return r
        r = self.std_model(fn, t, args)
        if r is not None:
            return r
        callee = self.prog.fns.get(mir.callee_of(t))
        if callee is None and t.get("callee") is None:
            # indirect call through a fn pointer / closure value held in a local
            f = deref(self.operand(fn, body, env, t["f"]))
            return self.call_value(f, args)
        if callee is not None and callee.kind != "const" and self.follow(callee):
            return self.summary(callee, tuple(args))
        return [TOP]

    def call_value(self, f, args):
        f = deref(f)
        if f[0] == "fn":
            cf = self.prog.fns.get(f[1])
            if cf is not None:
                return self.summary(cf, tuple(args))
            m = re.search(r"::(\w+)::\{constructor#0\}$", f[1])
            if m:
                adt = f[1].rsplit("::", 2)[0]
                if adt in self.prog.adts:
                    return [Tag(adt, m.group(1), args)]
            g = f[2] if len(f) > 2 else ()
            if f[1] == "core::convert::From::from" and len(g) == 2 and args:
                return self.convert(g[1], g[0], args[0])
            if f[1] == "core::convert::Into::into" and len(g) == 2 and args:
                return self.convert(g[0], g[1], args[0])
            return [TOP]
        if f[0] == "closure":
            cf = self.prog.fns.get(f[1])
            if cf is not None:
                return self.summary(cf, tuple([f] + list(args)))
        return [TOP]

    def summary(self, callee, args):
        args = tuple(truncate(a, self.trunc_depth) for a in args)
        key = (callee.id, args)
        if key in self.memo:
            if self._div_stack:
                self._div_stack[-1] |= self.memo_div.get(key, set())
            return self.memo[key]
        if key in self.in_progress or self.depth > MAX_DEPTH:
            self.imprecise.append((callee.path, "recursion cut"))
            return [TOP]
        self.in_progress.add(key)
        self.depth += 1
        self._div_stack.append(set())
        try:
            env = {}
            for i, a in enumerate(args):
                env[i + 1] = a
            rs = self.run(callee, callee.body, env)
        finally:
            self.depth -= 1
            self.in_progress.discard(key)
            div = self._div_stack.pop()
            if self._div_stack:
                self._div_stack[-1] |= div
        out = sorted(rs, key=repr)
        self.memo[key] = out
        self.memo_div[key] = div
        return out

    def divergences(self, callee, args):
        """panic sites met while summarising callee(args) (the paths that return nothing)"""
        self.summary(callee, args)
        key = (callee.id, tuple(truncate(a, self.trunc_depth) for a in args))
        return self.memo_div.get(key, set())

    # ------------------------------------------------------------ std models
    def std_model(self, fn, t, args):
        cp = t.get("cpath") or ""
        name = cp.split("::")[-1]
        a0 = deref(args[0]) if args else TOP
        if cp in ("std::cmp::PartialEq::eq", "std::cmp::PartialEq::ne"):
            x, y = deref(args[0]), deref(args[1])
            r = self.abstract_eq(x, y)
            if r is None:
                # a user-written PartialEq in the workspace is summarised like any other fn
                callee = self.prog.fns.get(mir.callee_of(t))
                if callee is not None and not _is_derive(callee):
                    return None
                return [K(0), K(1)]
            return [K(int(r) if name == "eq" else int(not r))]
        if cp == "std::clone::Clone::clone" or cp == "std::borrow::ToOwned::to_owned":
            return [a0]
        if cp in ("std::ops::Deref::deref", "std::ops::DerefMut::deref_mut", "std::convert::AsRef::as_ref",
                  "std::borrow::Borrow::borrow"):
            callee = self.prog.fns.get(mir.callee_of(t))
            if callee is not None and callee.crate in ("rusty_common",):
                return None
            return [Ref(a0)]
        if re.match(r"std::boxed::Box::<T(, A)?>::new$", cp):
            return [Box(args[0])]
        if cp in ("std::convert::From::from", "std::convert::Into::into"):
            callee = self.prog.fns.get(mir.callee_of(t))
            if callee is not None:
                return None
            g = (t["f"].get("k") or {}).get("gargs") or []
            if len(g) == 2:
                src, dst = (g[0], g[1]) if name == "into" else (g[1], g[0])
                return self.convert(src, dst, args[0])
            return [TOP]
        if cp == "std::ops::Try::branch":
            v = a0
            if v[0] == "tag" and v[2] in ("Ok", "Some"):
                return [Tag("core::ops::control_flow::ControlFlow", "Continue", [v[3][0] if v[3] else Tup(())])]
            if v[0] == "tag" and v[2] in ("Err", "None"):
                return [Tag("core::ops::control_flow::ControlFlow", "Break", [v])]
            return [Tag("core::ops::control_flow::ControlFlow", "Continue", [TOP]),
                    Tag("core::ops::control_flow::ControlFlow", "Break", [TOP])]
        if cp == "std::ops::FromResidual::from_residual":
            v = a0
            if v[0] == "tag" and v[2] == "Err":
                inner = v[3][0] if v[3] else TOP
                conv = self.convert_error(t, inner)
                return [Tag("core::result::Result", "Err", [c]) for c in conv]
            if v[0] == "tag" and v[2] == "None":
                return [Tag("core::option::Option", "None", [])]
            return [Tag("core::result::Result", "Err", [TOP])]
        m = re.match(r"std::result::Result::<T, E>::(\w+)$", cp)
        if m:
            return self.result_model(m.group(1), args)
        m = re.match(r"std::option::Option::<T>::(\w+)$", cp)
        if m:
            return self.option_model(m.group(1), args)
        if re.match(r"std::ops::Fn(Once|Mut)?::call(_once|_mut)?$", cp):
            f = args[0]
            tup = deref(args[1]) if len(args) > 1 else Tup(())
            cargs = list(tup[1]) if tup[0] == "tup" else [TOP]
            return self.call_value(f, cargs)
        if cp.startswith("std::cmp::Ordering::") and name == "reverse":
            if a0[0] == "tag":
                rev = {"Less": "Greater", "Greater": "Less", "Equal": "Equal"}[a0[2]]
                return [Tag(a0[1], rev, [])]
            return [Tag("core::cmp::Ordering", n, []) for n in ("Less", "Equal", "Greater")]
        if cp in ("std::cmp::Ord::cmp", "std::cmp::PartialOrd::partial_cmp") or cp.endswith("::total_cmp"):
            callee = self.prog.fns.get(mir.callee_of(t))
            if callee is not None:
                return None
            x, y = deref(args[0]), deref(args[1])
            if x[0] == "k" and y[0] == "k":
                n = "Less" if x[1] < y[1] else ("Greater" if x[1] > y[1] else "Equal")
                return [Tag("core::cmp::Ordering", n, [])]
            return [Tag("core::cmp::Ordering", n, []) for n in ("Less", "Equal", "Greater")]
        return None

    def find_from_impl(self, src, dst):
        """Workspace fn implementing `impl From<src> for dst` (types compared by last segment)."""
        key = ("from", src, dst)
        if key in self.adt_cache:
            return self.adt_cache[key]
        found = None
        for imp in self.prog.impls.values():
            tr = imp.get("trait_ref") or ""
            m = re.search(r"std::convert::From<(.+)>>$", tr)
            if not m:
                continue
            if _type_tail(m.group(1)) == _type_tail(src) and _type_tail(imp["self_ty"]) == _type_tail(dst):
                for it in imp["items"]:
                    if it["name"] == "from" and it["id"] in self.prog.fns:
                        found = self.prog.fns[it["id"]]
        self.adt_cache[key] = found
        return found

    def convert(self, src, dst, value):
        if _strip_ty(src) == _strip_ty(dst):
            return [value]
        f = self.find_from_impl(src, dst)
        if f is not None:
            return self.summary(f, (value,))
        return [TOP]

    def convert_error(self, t, inner):
        """`?` converts the error with From::from: source and target error types are the last
        generic argument of the two Result types the call is instantiated with."""
        g = (t["f"].get("k") or {}).get("gargs") or []
        if len(g) == 2:
            dst = _last_generic(g[0])
            src = _last_generic(g[1])
            if src and dst:
                return self.convert(src, dst, inner)
        return [TOP]

    def result_model(self, name, args):
        r = deref(args[0])
        known = r[0] == "tag" and r[2] in ("Ok", "Err")
        variants = [r] if known else [Tag("core::result::Result", "Ok", [TOP]),
                                      Tag("core::result::Result", "Err", [TOP])]
        out = []
        for v in variants:
            payload = v[3][0] if v[3] else TOP
            if name == "map":
                if v[2] == "Ok":
                    for x in self.call_value(args[1], [payload]):
                        out.append(Tag("core::result::Result", "Ok", [x]))
                else:
                    out.append(v)
            elif name == "map_err":
                if v[2] == "Err":
                    for x in self.call_value(args[1], [payload]):
                        out.append(Tag("core::result::Result", "Err", [x]))
                else:
                    out.append(v)
            elif name == "and_then":
                if v[2] == "Ok":
                    out.extend(self.call_value(args[1], [payload]))
                else:
                    out.append(v)
            elif name == "or_else":
                if v[2] == "Err":
                    out.extend(self.call_value(args[1], [payload]))
                else:
                    out.append(v)
            elif name == "ok":
                out.append(Tag("core::option::Option", "Some" if v[2] == "Ok" else "None",
                               [payload] if v[2] == "Ok" else []))
            elif name == "unwrap_or_else":
                if v[2] == "Ok":
                    out.append(payload)
                else:
                    out.extend(self.call_value(args[1], [payload]))
            elif name == "map_or":
                if v[2] == "Ok":
                    out.extend(self.call_value(args[2], [payload]))
                else:
                    out.append(args[1])
            elif name in ("is_ok_and", "is_err_and"):
                if (v[2] == "Ok") == (name == "is_ok_and"):
                    out.extend(self.call_value(args[1], [payload]))
                else:
                    out.append(K(0))
            elif name in ("is_ok", "is_err"):
                out.append(K(int((v[2] == "Ok") == (name == "is_ok"))))
            elif name in ("unwrap", "expect", "unwrap_or_default"):
                if v[2] == "Ok":
                    out.append(payload)
                elif name == "unwrap_or_default":
                    out.append(TOP)
            elif name == "unwrap_or":
                out.append(payload if v[2] == "Ok" else args[1])
            else:
                return None
        return _dedup(out)

    def option_model(self, name, args):
        r = deref(args[0])
        known = r[0] == "tag" and r[2] in ("Some", "None")
        variants = [r] if known else [Tag("core::option::Option", "Some", [TOP]),
                                      Tag("core::option::Option", "None", [])]
        out = []
        for v in variants:
            payload = v[3][0] if v[3] else TOP
            some = v[2] == "Some"
            if name == "map":
                if some:
                    for x in self.call_value(args[1], [payload]):
                        out.append(Tag("core::option::Option", "Some", [x]))
                else:
                    out.append(v)
            elif name == "and_then":
                if some:
                    out.extend(self.call_value(args[1], [payload]))
                else:
                    out.append(v)
            elif name == "ok_or":
                out.append(Tag("core::result::Result", "Ok", [payload]) if some
                           else Tag("core::result::Result", "Err", [args[1]]))
            elif name == "ok_or_else":
                if some:
                    out.append(Tag("core::result::Result", "Ok", [payload]))
                else:
                    for x in self.call_value(args[1], []):
                        out.append(Tag("core::result::Result", "Err", [x]))
            elif name == "filter":
                if some:
                    for keep in self.call_value(args[1], [Ref(payload)]):
                        k = deref(keep)
                        if k[0] == "k":
                            out.append(v if k[1] else Tag("core::option::Option", "None", []))
                        else:
                            out.append(v)
                            out.append(Tag("core::option::Option", "None", []))
                else:
                    out.append(v)
            elif name in ("is_some_and", "is_none_or"):
                if some:
                    out.extend(self.call_value(args[1], [payload]))
                else:
                    out.append(K(int(name == "is_none_or")))
            elif name == "map_or":
                if some:
                    out.extend(self.call_value(args[2], [payload]))
                else:
                    out.append(args[1])
            elif name == "map_or_else":
                out.extend(self.call_value(args[2], [payload]) if some else self.call_value(args[1], []))
            elif name == "unwrap_or_else":
                if some:
                    out.append(payload)
                else:
                    out.extend(self.call_value(args[1], []))
            elif name == "or":
                out.append(v if some else args[1])
            elif name == "or_else":
                if some:
                    out.append(v)
                else:
                    out.extend(self.call_value(args[1], []))
            elif name in ("is_some", "is_none"):
                out.append(K(int(some == (name == "is_some"))))
            elif name in ("unwrap", "expect"):
                if some:
                    out.append(payload)
            elif name == "unwrap_or":
                out.append(payload if some else args[1])
            elif name in ("as_ref", "as_mut", "as_deref", "cloned", "copied", "take"):
                out.append(v if name not in ("as_ref", "as_mut", "as_deref") else
                           (Tag(v[1], v[2], [Ref(payload)]) if some else v))
            else:
                return None
        return _dedup(out)

    def abstract_eq(self, x, y):
        """True/False when decidable on the abstract values, else None."""
        if x[0] == "k" and y[0] == "k":
            return x[1] == y[1]
        if x[0] == "str" and y[0] == "str":
            return x[1] == y[1]
        if x[0] == "tag" and y[0] == "tag" and x[1] == y[1]:
            if x[2] != y[2]:
                return False
            if not x[3] and not y[3]:
                return True
            sub = [self.abstract_eq(deref(a), deref(b)) for a, b in zip(x[3], y[3])]
            if any(s is False for s in sub):
                return False
            if all(s is True for s in sub):
                return True
        return None


def _dedup(vals):
    out = []
    for v in vals:
        if v not in out:
            out.append(v)
    return out


def _freeze(proj):
    return tuple(("*" if e == "*" else (e if isinstance(e, str) else tuple(sorted(e.items())))) for e in proj)


def _thaw(fp):
    return [e if isinstance(e, str) else dict(e) for e in fp]


def _type_tail(s):
    return re.sub(r"<.*", "", s).split("::")[-1]


def _is_derive(fn):
    for blk in fn.body.blocks:
        t = blk["t"]
        if any("derive" in m for m in t.get("mx", [])):
            return True
        for s in blk["s"]:
            if any("derive" in m for m in s.get("mx", [])):
                return True
    return False


def _strip_ty(s):
    return re.sub(r"^(&'?\w* ?(mut )?)+", "", s.strip())


def _last_generic(s):
    """Last top-level generic argument of `Path<A, B>`."""
    i = s.find("<")
    if i < 0 or not s.endswith(">"):
        return None
    inner = s[i + 1:-1]
    depth = 0
    last = 0
    for j, ch in enumerate(inner):
        if ch in "<([":
            depth += 1
        elif ch in ">)]":
            depth -= 1
        elif ch == "," and depth == 0:
            last = j + 1
    return inner[last:].strip()
