"""C07 - parsing and checking any text ends with a program or a located error (C07.R1-R3)."""
from .. import mir
from ..core import CheckError
from . import common, panics

LEVEL = "other"
EXPLANATION = (
    "(R1) explicit-panic audit of everything reachable from parse_main_str / parse_main_file / lint: "
    "each explicit panic site (panic!/unreachable!/unimplemented!/todo!/assert!, unwrap/expect, "
    "Index on Vec/HashMap) is keyed by function, kind and ordinal and must be locally discharged, "
    "audited, a known finding, or in the frozen baseline - a new reachable site is a violation; the "
    "same audit covers the implicit sites rustc inserts for slice/array indexing (bounds check) and "
    "integer / and % (zero check): each must be proved from the comparisons that dominate it (zone "
    "domain over the dominating switch edges and `for` range items, with a redefinition check) or "
    "be audited / in the baseline, so a weakened guard (i <= len - 1 before a[i + 1]) is reported; (R3) "
    "the position attached to a parse error is read from the same reader the parser ran on; "
    "StringView::position indexes its table only behind the !is_eof() guard and the end-of-text "
    "position behind a non-empty guard; the program parser ends in demand_eof.")
NOT_DECIDED = [
    "absence of arithmetic-overflow panics (debug profile only) and of stack overflow on deep nesting",
    "C07.R2 termination of repetition (nullability of many/delimited element parsers): not built in this revision",
    "that the reported row/column lies inside the text (value-level)",
]


def r3_error_position(ctx, rule="C07.R3"):
    prog = ctx.prog
    fs = [f for f in prog.fns.values() if f.name == "program_parser" and f.crate == "rusty_parser" and f.kind == "fn"]
    if len(fs) != 1:
        raise CheckError("anchor program_parser")
    f = fs[0]
    pv = mir.Prov(f.body)
    parse_reader = pos_reader = None
    for b, t in f.body.calls():
        cp = t.get("cpath") or ""
        if (t.get("ctrait") or "").endswith("parser::Parser") and cp.endswith("::parse"):
            parse_reader = mir.strip_all(pv.of_operand(t["args"][1]))
        if cp.endswith("StringView::position"):
            pos_reader = mir.strip_all(pv.of_operand(t["args"][0]))
    ctx.decide(parse_reader is not None and parse_reader == pos_reader, rule, rule + ":position-from-same-reader", f.loc,
               "Err(err.at_pos(reader.position())) for the reader that was parsed",
               "the parse error position is not read from the reader the parser ran on")
    at = [1 for g in [f] + prog.closures_of(f) for _b, t in g.body.calls() if (t.get("cpath") or "").endswith("AtPos::at_pos")]
    ctx.decide(bool(at), rule, rule + ":error-is-positioned", f.loc, "parse errors are wrapped with at_pos",
               "program_parser returns parse errors without a position")
    pos = ctx.anchor_method("StringView", "position")
    body = pos.body
    eof_bb = [b for b, t in body.calls() if (t.get("cpath") or "").endswith("is_eof")]
    ok = False
    if len(eof_bb) == 1:
        sw = body.term(body.term(eof_bb[0])["t"])
        if sw["k"] == "switch":
            false_t = [tg for v, tg in sw["ts"] if v == 0]
            idx_blocks = [b for b, blk in enumerate(body.blocks) if not blk.get("c") and
                          (any(isinstance(e, dict) and "i" in e for s in blk["s"] if s["k"] == "assign"
                               for e in (s["r"].get("p") or [0, []])[1] + (mir.op_place(s["r"].get("o", {})) or [0, []])[1])
                           or (blk["t"]["k"] == "call" and (blk["t"].get("cpath") or "").endswith("Index::index")))]
            ok = bool(false_t) and bool(idx_blocks) and all(body.dominates(false_t[0], b) for b in idx_blocks)
    ctx.decide(ok, rule, rule + ":index-behind-not-eof", pos.loc, "row_col[index] only when !is_eof()",
               "StringView::position indexes row_col without the !is_eof() guard dominating it")
    e = ctx.anchor_method("StringView", "eof_row_col")
    guards = [b for b, t in e.body.calls() if (t.get("cpath") or "").endswith("is_empty")]
    ctx.decide(len(guards) == 1, rule, rule + ":eof-position-non-empty-guard", e.loc, "is_empty() guard",
               "eof_row_col no longer guards the empty text")
    pp = [g for g in prog.fns.values() if g.name == "program_parser_p" and g.crate == "rusty_parser" and g.kind == "fn"]
    if len(pp) != 1:
        raise CheckError("anchor program_parser_p")
    names = [mir.callee_path(t).split("::")[-1] for _b, t in pp[0].body.calls()]
    ctx.decide("demand_eof" in names, rule, rule + ":demands-eof", pp[0].loc, "program parser ends in demand_eof",
               "program_parser_p no longer demands end of input: trailing garbage is silently ignored")
    ctx.require(rule, 5)


def run(ctx):
    common.install(ctx)
    panics.r_audit(ctx, "C07.R1", scope="frontend")
    r3_error_position(ctx)
