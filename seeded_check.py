#!/usr/bin/env python3
"""Run every kept seeded change (seeded/<id>/patch.diff) against the checks, on a scratch copy of /repo
(never on /repo itself).  usage: seeded_check.py [--all-props] [id ...]"""
import json, os, shutil, subprocess, sys, tempfile
from concurrent.futures import ThreadPoolExecutor
VERIF = os.path.dirname(os.path.abspath(__file__))


def run_one(sid, all_props=False):
    d = os.path.join(VERIF, "seeded", sid)
    meta = json.load(open(os.path.join(d, "meta.json")))
    if meta.get("obsolete"):
        return {"id": sid, "status": "obsolete", "property": meta["property"]}
    tmp = tempfile.mkdtemp(prefix="rbv-seeded-")
    try:
        subprocess.run(["rsync", "-a", "--exclude", "target", "--exclude", ".git", os.environ.get("PATCH_CHECK_REPO", "/repo").rstrip("/") + "/", tmp + "/"], check=True)
        r = subprocess.run(["patch", "-p1", "-s", "-d", tmp, "-i", os.path.join(d, "patch.diff")],
                           stdout=subprocess.PIPE, stderr=subprocess.STDOUT, text=True)
        if r.returncode != 0:
            return {"id": sid, "status": "patch-failed", "out": r.stdout[-300:]}
        props = list(meta.get("checks") or [meta["property"]])
        if all_props:
            props = [json.loads(l)["id"] for l in open(os.path.join(VERIF, "properties.jsonl"))]
            props = [p for p in props if os.path.exists(os.path.join(VERIF, "rbv", "rules", p.lower() + ".py"))]
        res = {}
        for p in props:
            env = dict(os.environ, RBV_REPO=tmp, RBV_EVIDENCE_DIR=os.path.join(tmp, "_evidence"))
            r = subprocess.run([os.path.join(VERIF, "check"), p], env=env, stdout=subprocess.PIPE,
                               stderr=subprocess.STDOUT, text=True)
            viol = [l.strip()[:200] for l in r.stdout.splitlines() if "[" in l and "]" in l and not l.startswith(("KNOWN", "VIOLATION", "PASS", "FAIL"))]
            res[p] = {"rc": r.returncode, "new": viol[:3]}
        wanted = meta.get("checks") or [meta["property"]]
        rcs = [res[p]["rc"] for p in wanted]
        status = "detected" if 1 in rcs else ("check-error" if 2 in rcs else "missed")
        return {"id": sid, "property": meta["property"], "status": status, "checks": res,
                "by": [p for p in wanted if res[p]["rc"] == 1]}
    finally:
        shutil.rmtree(tmp, ignore_errors=True)


if __name__ == "__main__":
    args = [a for a in sys.argv[1:] if not a.startswith("--")]
    allp = "--all-props" in sys.argv
    ids = args or sorted(os.listdir(os.path.join(VERIF, "seeded")))
    with ThreadPoolExecutor(max_workers=int(os.environ.get("RBV_JOBS", "4"))) as ex:
        for r in ex.map(lambda s: run_one(s, allp), ids):
            own = {}
            for p in r.get("by") or [r.get("property")]:
                own = r.get("checks", {}).get(p, {})
                break
            print(r["id"], r["status"], "|", "; ".join(own.get("new", []))[:230])
            if allp:
                others = [p for p, v in r.get("checks", {}).items() if v["rc"] == 1 and p != r["property"]]
                print("    also:", others)
