"""P8: emission events of the instruction generator (DESIGN.md section 3).

An emission event is a call, inside a generator function (first parameter `&mut
InstructionGenerator`), to push/label/jump/jump_if_false/mark_statement_address or to another
generator function.  At MIR level every call terminates its block, so events map 1:1 to blocks.
"""
import re

from . import mir

GEN_TY = "InstructionGenerator"
STATEMENTS_TRAIT_REF = "Visitor<std::vec::Vec<rusty_common::Positioned<rusty_parser::Statement>>>"
STATEMENT_TRAIT_REF = "Visitor<rusty_common::Positioned<rusty_parser::Statement>>"


class Ev:
    __slots__ = ("kind", "instr", "name", "callee", "bb", "line", "args", "payload")

    def __init__(self, kind, bb, line, instr=None, name=None, callee=None, args=(), payload=()):
        self.kind = kind      # push | label | jump | jump_if_false | mark | BLOCK | STMT | EXPR | gen
        self.instr = instr    # Instruction variant for push (None when not a literal aggregate)
        self.name = name      # constant label prefix, or None when computed
        self.callee = callee  # Fn for gen/EXPR/BLOCK/STMT
        self.bb = bb
        self.line = line
        self.args = args      # origins of the call arguments
        self.payload = payload  # origins of the Instruction aggregate's operands

    def is_emission(self):
        return self.kind != "mark"

    def show(self):
        if self.kind == "push":
            return "push(%s)" % (self.instr or "?")
        if self.kind in ("label", "jump", "jump_if_false"):
            return "%s(%s)" % (self.kind, self.name if self.name is not None else "<computed>")
        if self.kind in ("gen", "EXPR"):
            return "%s:%s" % (self.kind, self.callee.name)
        return self.kind

    def __repr__(self):
        return "<Ev %s @bb%d>" % (self.show(), self.bb)


def is_generator_fn(fn):
    if fn.crate != "rusty_basic" or fn.kind == "const":
        return False
    ls = fn.body.locals
    if fn.kind == "closure":
        return False
    return fn.argc >= 1 and len(ls) > 1 and ls[1]["ty"].endswith("InstructionGenerator") \
        and ls[1]["ty"].startswith("&mut")


def generator_fns(prog):
    return [f for f in prog.fns.values() if is_generator_fn(f)]


def const_str(o):
    """The literal of a &str-valued origin: '"text"' constants, looking through refs."""
    o = mir.strip_refs(o)
    if o[0] == "const":
        m = re.match(r'^"(.*)"$', o[1], re.S)
        if m:
            return m.group(1)
    return None


def str_returning_helper(prog, o):
    """labels::end_select() style helpers: a call to a local fn whose body returns one literal."""
    o = mir.strip_refs(o)
    if o[0] != "call":
        return None
    path = o[1]
    fs = prog.by_path.get(path, [])
    if len(fs) != 1:
        return None
    fn = fs[0]
    if fn.argc != 0:
        return None
    pv = mir.Prov(fn.body)
    vals = set()
    for b in fn.body.exits():
        pass
    r = pv.of_local(0)
    return const_str(r)


def label_name(prog, o):
    s = const_str(o)
    if s is not None:
        return s
    return str_returning_helper(prog, o)


def _instruction_alternatives(body, pv, op):
    """[(block, Instruction variant, payload origins)] when the operand is a local that is assigned
    an Instruction aggregate in several blocks (match arms) - else []."""
    p = mir.op_place(op)
    if p is None or p[1]:
        return []
    l = p[0]
    seen = set()
    while l not in seen:
        seen.add(l)
        ds = [d for d in body.defs().get(l, []) if not body.is_cleanup(d[0])]
        if len(ds) == 1 and ds[0][1] != "T" and ds[0][2]["r"]["k"] == "use":
            q = mir.op_place(ds[0][2]["r"]["o"])
            if q is not None and not q[1]:
                l = q[0]
                continue
        break
    ds = [d for d in body.defs().get(l, []) if not body.is_cleanup(d[0])]
    if len(ds) < 2:
        return []
    out = []
    for b, i, st in ds:
        if i == "T":
            return []
        r = st["r"]
        if r.get("k") != "agg" or not (r.get("adt") or "").endswith("::Instruction"):
            return []
        out.append((b, r.get("variant"), tuple(pv.of_operand(o) for o in r.get("ops", []))))
    return out


def events(prog, fn):
    """bb -> Ev for the generator function fn."""
    out = {}
    body = fn.body
    pv = mir.Prov(body)
    for b, t in body.calls():
        callee_id = mir.callee_of(t)
        cfn = prog.fns.get(callee_id)
        name = callee_id.split("::")[-1] if callee_id else ""
        args = tuple(pv.of_operand(a) for a in t["args"])
        line = t.get("ln")
        if cfn is None or not (is_generator_fn(cfn)):
            continue
        # the receiver must be the generator itself
        if name == "push":
            o = args[1] if len(args) > 1 else None
            instr = None
            payload = ()
            if o is not None and o[0] == "agg" and o[1] == "adt" and o[2].startswith("Instruction::"):
                instr = o[2].split("::", 1)[1]
                payload = o[3]
            if instr is None and len(t["args"]) > 1:
                # `let i = match .. { A => Instruction::X, B => Instruction::Y }; self.push(i, pos)`:
                # the instruction is chosen in the arms and pushed once after them.  The push is
                # attributed to each arm's assignment (every path runs exactly one of them, and
                # nothing is emitted between the assignment and the push).
                alts = _instruction_alternatives(body, pv, t["args"][1])
                if alts and not any(ab in out for ab, _i, _p in alts):
                    for ab, ai, ap in alts:
                        out[ab] = Ev("push", ab, line, instr=ai, args=args, payload=ap)
                    continue
            out[b] = Ev("push", b, line, instr=instr, args=args, payload=payload)
        elif name in ("label", "jump", "jump_if_false"):
            out[b] = Ev(name, b, line, name=label_name(prog, args[1]) if len(args) > 1 else None,
                        args=args)
        elif name == "mark_statement_address":
            out[b] = Ev("mark", b, line, args=args)
        else:
            tr = (cfn.impl or {}).get("trait_ref") or ""
            if STATEMENTS_TRAIT_REF in tr:
                kind = "BLOCK"
            elif STATEMENT_TRAIT_REF in tr:
                kind = "STMT"
            elif name.startswith("generate_expression_instructions"):
                kind = "EXPR"
            else:
                kind = "gen"
            out[b] = Ev(kind, b, line, callee=cfn, args=args)
    return out


def first_events_after(body, evs, start_bb, stop=lambda e: True):
    """Walk forward from the successors of start_bb; return the list of (event, path) first met on
    each path for which stop(event) is true, plus a flag whether some path reaches return without
    meeting one.  Events for which stop() is false are passed through."""
    found = []
    reaches_return = False
    seen = set()
    st = [(s, (start_bb,)) for s in body.succ(start_bb)]
    while st:
        b, path = st.pop()
        if b in seen:
            continue
        seen.add(b)
        e = evs.get(b)
        if e is not None and stop(e):
            found.append((e, path + (b,)))
            continue
        succ = body.succ(b)
        if body.term(b)["k"] == "return":
            reaches_return = True
        for s in succ:
            st.append((s, path + (b,)))
    return found, reaches_return


def linear_paths(body, evs, max_paths=4000, unroll=2):
    """Enumerate event sequences along CFG paths entry->return with each block visited at most
    `unroll` times.  Returns list of tuples of Ev."""
    out = []
    count = [0]

    def rec(b, visits, seq):
        if count[0] > max_paths:
            return
        v = visits.get(b, 0)
        if v >= unroll:
            return
        visits = dict(visits)
        visits[b] = v + 1
        e = evs.get(b)
        if e is not None:
            seq = seq + (e,)
        if body.term(b)["k"] == "return":
            out.append(seq)
            count[0] += 1
            return
        for s in body.succ(b):
            rec(s, visits, seq)
    rec(0, {}, ())
    return out
