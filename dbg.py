"""debug helper: python3 -i dbg.py  -> prog"""
import sys
sys.path.insert(0, '/verif')
from rbv import facts, mir
prog = mir.Program(facts.load_workspace())
