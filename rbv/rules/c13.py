"""C13 - name resolution (C13.R1-R5)."""
import re
from .. import mir, tagflow as tf
from ..core import CheckError
from . import common

LEVEL = "other"
EXPLANATION = (
    "(R1) all name tables are keyed by the case-folding string type (shared with C09: Hash/Eq fold "
    "the same way; no raw String-keyed table of program names).  (R2) SHARED gate: every route by "
    "which a SUB/FUNCTION sees a *variable* of the global scope passes require_shared / only_shared, "
    "routes that yield a constant do not.  (R3) default type table: all 26 entries start as SINGLE, "
    "are written only through fill_ranges with the DEFtype's qualifier, and are read and written "
    "through the same letter-folding index function.  (R4) one kind per base name: inserting a "
    "compact variable into a constant/extended entry is an error path and constants are inserted only "
    "after the clash check.  (R5) the current scope is consulted before the global scope in every "
    "two-level lookup (local shadows global); (R6) and the global scope is consulted exactly when that "
    "same lookup missed locally - no other predicate decides the fallback.  (R7) extended vs compact: "
    "both VarType::is_extended implementations (DIM types, parameter types) answer the stated table on "
    "every variant, arrays following their element type.  (R9) where the default type of a bare name is computed and existing entries of the name are separated into suffix-style and AS-style ones, a suffix-style entry is taken for the bare name only after its type was compared with the default type."
    " (R12) every place of the declaration rules that makes the type of a new variable is dominated by a call that reaches the lookup collecting the entries of the name in the current scope and the SHARED ones of the module level in every style: a declaration in a SUB cannot take a name away from a SHARED variable."
    " (R13) wherever a context holding the DEFtype letter table is built the table is a fresh one: every pass over the program starts from the default table."
    " (R14) among the checks the declaration rules run against the table of functions one is strict: a DIM cannot take the name of a FUNCTION."
    " (R15) every comparison of two texts in the front end and the VM either folds letter case or is tabled as comparing run-time data (shared with C09.R2): the FIELD / LSET lookup of a variable by the text of its name included."
    " (R16) wherever the checker files a variable (a VariableInfo is built), the SHARED flag it stores is the flag of the declaration being filed - a parameter, a constant, or the flag of an entry being copied - never the outcome of a lookup of other names.")
NOT_DECIDED = ["the resolution outcome for arbitrary combinations of declarations (run of the converter)"]

NAMES = "Names"


def _names_methods(prog):
    return [f for f in prog.fns.values() if f.crate == "rusty_linter" and "names::names_outer" in f.id
            and f.impl is not None and f.impl["self_ty"].endswith("Names") and f.kind != "closure"]


def _calls_in(prog, fn, with_closures=True):
    out = []
    fs = [fn] + (prog.closures_of(fn) if with_closures else [])
    for f in fs:
        for b in f.body.rpo():
            t = f.body.term(b)
            if t["k"] == "call":
                out.append((f, b, t))
    return out


def r2_shared_gate(ctx, rule="C13.R2"):
    prog = ctx.prog
    n = 0
    for fn in sorted(_names_methods(prog), key=lambda f: f.id):
        calls = _calls_in(prog, fn)
        names = [mir.callee_path(t).split("::")[-1] for _f, _b, t in calls]
        if "global_names" not in names or fn.name == "global_names":
            continue
        n += 1
        yields_variable = any(x in names for x in ("get_compact", "get_extended", "collect_var_info"))
        yields_const = "get_const_value" in names
        key = "%s:%s" % (rule, fn.name)
        if yields_variable:
            gated = "require_shared" in names
            if not gated:
                # the gate written in place: the lookup's result is filtered on the entry's own `shared` field
                reads_shared = any(isinstance(e, dict) and e.get("n") == "shared"
                                   for g_ in [fn] + prog.closures_of(fn) for blk_ in g_.body.blocks for st_ in blk_["s"]
                                   if st_["k"] == "assign" for pl_ in ([st_["r"].get("p")] if isinstance(st_["r"].get("p"), list) else []) +
                                   [mir.op_place(st_["r"][kk]) for kk in ("o", "a", "b") if isinstance(st_["r"].get(kk), dict)]
                                   if pl_ for e in pl_[1])
                filters = any(mir.callee_path(t_).split("::")[-1] in ("filter", "take_if", "and_then", "is_some_and")
                              for _f, _b, t_ in calls)
                gated = reads_shared and filters
            if not gated and "collect_var_info" in names:
                # the flag variant: the global lookup passes only_shared = true
                for f, b, t in calls:
                    if mir.callee_path(t).split("::")[-1] == "collect_var_info":
                        pv = mir.Prov(f.body)
                        recv = mir.short_origin(pv.of_operand(t["args"][0]))
                        k = t["args"][-1].get("k") or {}
                        if "global" in recv and k.get("int") == 1:
                            gated = True
            ctx.decide(gated, rule, key + ":variables-gated", fn.loc,
                       "global variables pass the SHARED gate",
                       "%s looks variables up in the global scope without require_shared / "
                       "only_shared: a non-SHARED global leaks into subprograms" % fn.name)
        if yields_const and not yields_variable:
            ctx.decide("require_shared" not in names, rule, key + ":constants-not-gated", fn.loc,
                       "global constants are visible without SHARED",
                       "%s applies the SHARED gate to constants" % fn.name)
    rs = [f for f in _names_methods(prog) if f.name == "require_shared"]
    if not rs:
        # the gate has no function of its own (written in place at every lookup): its two cells are not decided here
        ctx.unknown(rule, "%s:require_shared:shared=1" % rule, "-", "the SHARED gate is written in place: not evaluated as a function")
        ctx.unknown(rule, "%s:require_shared:shared=0" % rule, "-", "the SHARED gate is written in place: not evaluated as a function")
        ctx.analysed_units(rule, two_level_lookups=n)
        ctx.require(rule, 3, max_unknown=2)
        return
    if len(rs) != 1:
        raise CheckError("anchor Names::require_shared")
    eng = tf.Engine(prog)
    vi = [a for a in prog.adts if a.endswith("::VariableInfo") and a.startswith("rusty_linter")]
    if len(vi) != 1:
        raise CheckError("VariableInfo ADT")
    fields = [f["name"] for f in prog.adts[vi[0]]["variants"][0]["fields"]]
    si = fields.index("shared")
    for shared, want in ((1, "Some"), (0, "None")):
        val = tf.Tag(vi[0], "VariableInfo", [tf.K(shared) if i == si else tf.TOP for i in range(len(fields))])
        arg = tf.Tag("core::option::Option", "Some", [tf.Ref(val)])
        got = {tf.deref(x)[2] if tf.deref(x)[0] == "tag" else "?" for x in eng.summary(rs[0], (arg,))}
        ctx.decide(got == {want}, rule, "%s:require_shared:shared=%d" % (rule, shared), rs[0].loc, want,
                   "require_shared(Some(info with shared=%d)) yields %s" % (shared, sorted(got)))
    ctx.analysed_units(rule, two_level_lookups=n)
    ctx.require(rule, 5)


def _norm(o, subst):
    """origin without refs / casts / block ids, with the parameters of a helper replaced by the
    origins of the call's arguments"""
    o = mir.strip_all(o)
    k = o[0]
    if k == "param":
        return subst.get(o[1], o)
    if k == "call":
        return ("call", o[1], tuple(_norm(a, subst) for a in o[2]))
    if k in ("field", "downcast"):
        return (k, _norm(o[1], subst)) + tuple(o[2:])
    if k in ("index",):
        return (k, _norm(o[1], subst))
    return o


def _show(o):
    try:
        return mir.short_origin(mir.Origin(o)) if not isinstance(o, mir.Origin) else mir.short_origin(o)
    except Exception:
        return str(o)


def _letter_field(o):
    """('Range', 1) for index(<letter range as Range>.1), else None"""
    if o[0] != "call" or not o[1].endswith(_INDEX_FN_NAME[0]) or len(o[2]) != 1:
        return None
    a = o[2][0]
    if a[0] == "field" and a[1][0] == "downcast":
        try:
            return (a[1][2], int(a[2]))
        except (TypeError, ValueError):
            return None
    return None


def _range_of_iteration(o):
    """(lo, hi, inclusive) when o is the item `Some(i)` yielded by Iterator::next over a..=b / a..b"""
    o = mir.strip_all(o)
    if o[0] != "field":
        return None
    o = mir.strip_all(o[1])
    if o[0] != "downcast" or o[2] != "Some":
        return None
    o = mir.strip_all(o[1])
    if o[0] != "call" or o[1].split("::")[-1] != "next" or not o[2]:
        return None
    it = mir.strip_all(o[2][0])
    while it[0] == "call" and it[1].split("::")[-1] in ("into_iter", "iter", "by_ref") and it[2]:
        it = mir.strip_all(it[2][0])
    if it[0] == "call" and it[1].endswith("RangeInclusive::<Idx>::new") and len(it[2]) == 2:
        return it[2][0], it[2][1], True
    if it[0] == "agg" and (it[2] or "").endswith("Range") and not (it[2] or "").endswith("RangeInclusive") and len(it[3]) == 2:
        return it[3][0], it[3][1], False
    return None


def _table_writes(prog, fn, region, subst, depth):
    """[(lo, hi, inclusive, value)] for every write to `ranges` in the blocks `region` of fn
    (None = all) and in the helpers it calls there."""
    body = fn.body
    pv = mir.Prov(body)
    out = []
    blocks = range(body.nblocks) if region is None else sorted(region)
    defs = body.defs()

    def base_local(l):
        seen = set()
        while l not in seen:
            seen.add(l)
            ds = [d for d in defs.get(l, []) if not body.is_cleanup(d[0])]
            if len(ds) == 1 and ds[0][1] != "T" and ds[0][2]["r"]["k"] == "use":
                p = mir.op_place(ds[0][2]["r"]["o"])
                if p is not None and not p[1]:
                    l = p[0]
                    continue
            break
        return l

    for b in blocks:
        if body.is_cleanup(b):
            continue
        for st in body.blocks[b]["s"]:
            if st["k"] != "assign":
                continue
            proj = st["p"][1]
            if not any(isinstance(e, dict) and e.get("n") == "ranges" for e in proj):
                continue
            idx = [e for e in proj if isinstance(e, dict) and "i" in e]
            if not idx:
                continue
            val = _norm(pv.of_operand(st["r"]["o"]), subst) if st["r"]["k"] == "use" else ("unknown",)
            x = base_local(idx[0]["i"])
            ds = [d for d in defs.get(x, []) if not body.is_cleanup(d[0])]
            if len(ds) == 1:
                raw = mir.strip_all(pv.of_local(x))
                rng = _range_of_iteration(raw)
                if rng is not None:
                    # `for i in a..=b` / `for i in a..b`: the index is the item of the range's iterator
                    out.append((_norm(rng[0], subst), _norm(rng[1], subst), rng[2], val))
                    continue
                o = _norm(raw, subst)
                out.append((o, o, True, val))
                continue
            # counting loop: init from a call / value, increment by one, guard x <= y or x < y
            init = [d for d in ds if not (d[1] != "T" and d[2]["r"]["k"] == "use" and "m" in d[2]["r"]["o"]
                                           and d[2]["r"]["o"]["m"][1])]
            lo = None
            for d in init:
                lo = _norm(pv._of_call(d[2], d[0], 0) if d[1] == "T" else pv._of_rvalue(d[2]["r"], 0), subst)
            hi, inc = None, None
            for b2 in range(body.nblocks):
                t2 = body.term(b2)
                if t2["k"] != "switch" or not body.dominates(b2, b):
                    continue
                for s2 in body.blocks[b2]["s"]:
                    r2 = s2.get("r", {})
                    if s2["k"] == "assign" and r2.get("k") == "bin" and r2["op"] in ("Le", "Lt"):
                        pa = mir.op_place(r2["a"])
                        if pa is not None and base_local(pa[0]) == x:
                            hi = _norm(pv.of_operand(r2["b"]), subst)
                            inc = r2["op"] == "Le"
            out.append((lo or ("unknown",), hi or ("unknown",), bool(inc), val))
        t = body.blocks[b]["t"]
        if t["k"] != "call":
            continue
        cp = t.get("cpath") or ""
        if cp.endswith("<impl [T]>::fill") and len(t["args"]) == 2:
            recv = mir.strip_all(pv.of_operand(t["args"][0]))
            if recv[0] == "call" and recv[1].split("::")[-1] in ("index_mut", "get_mut") and len(recv[2]) == 2 \
                    and mir.origin_mentions(recv[2][0], lambda z: z[0] == "field" and z[2] == "ranges"):
                rng = mir.strip_all(recv[2][1])
                val = _norm(pv.of_operand(t["args"][1]), subst)
                if rng[0] == "call" and rng[1].endswith("RangeInclusive::<Idx>::new"):
                    out.append((_norm(rng[2][0], subst), _norm(rng[2][1], subst), True, val))
                elif rng[0] == "agg" and (rng[2] or "").endswith("Range") and len(rng[3]) == 2:
                    out.append((_norm(rng[3][0], subst), _norm(rng[3][1], subst), False, val))
                elif rng[0] == "agg" and (rng[2] or "").endswith("RangeInclusive"):
                    out.append((_norm(rng[3][0], subst), _norm(rng[3][1], subst), True, val))
                else:
                    out.append((("unknown",), ("unknown",), False, val))
            continue
        g = prog.fns.get(mir.callee_of(t))
        if g is not None and depth < 3 and "type_resolver_impl" in g.id and g.name != _INDEX_FN_NAME[0]:
            sub = {i: _norm(pv.of_operand(a), subst) for i, a in enumerate(t["args"])}
            out += _table_writes(prog, g, None, sub, depth + 1)
    return out



_INDEX_FN_NAME = ["char_to_alphabet_index"]

def _letter_index_fn(prog):
    """the function of the DEFtype table's file that turns a letter into its table index: (char) -> usize,
    not a method (found by what it is, not by its name)"""
    c = [f for f in prog.fns.values() if f.crate == "rusty_linter" and "type_resolver_impl" in f.id and f.body is not None
         and f.kind == "fn" and f.argc == 1 and f.body.locals[1]["ty"] == "char" and f.body.locals[0]["ty"] == "usize"]
    return c[0] if len(c) == 1 else None


def r3_default_types(ctx, rule="C13.R3"):
    prog = ctx.prog
    _lf = _letter_index_fn(prog)
    if _lf is None:
        raise CheckError("%s: the function that maps a letter to its index in the DEFtype table was not found" % rule)
    _INDEX_FN_NAME[0] = _lf.name
    new = ctx.anchor_method("TypeResolverImpl", "new")
    init = None
    for blk in new.body.blocks:
        for s in blk["s"]:
            if s["k"] == "assign" and s["r"]["k"] == "repeat":
                k = s["r"]["o"]
                pv = mir.Prov(new.body)
                init = str(pv.of_operand(k))
    ctx.decide(init is not None and "BangSingle" in init, rule, rule + ":initial-table-is-SINGLE", new.loc,
               "every letter starts as SINGLE (!)", "TypeResolverImpl::new fills the table with %s" % init)
    # what DEFtype writes: for each LetterRange arm of TypeResolverImpl::set, the set of table slots
    # written (directly, or through helpers with the call's arguments substituted) must be exactly
    # [index(first letter), index(last letter)] - both ends included - with the DEFtype's qualifier.
    # The writes are recognised in either spelling: an indexed store inside a counting loop
    # (`while x <= y { ranges[x] = q; x += 1 }`) or a slice fill (`ranges[x..=y].fill(q)`).
    setf = ctx.anchor_method("TypeResolverImpl", "set")
    spv = mir.Prov(setf.body)
    lsw = [sw for sw in mir.enum_switches(prog, setf.body) if sw.adt.endswith("::LetterRange")]
    if len(lsw) != 1:
        raise CheckError("TypeResolverImpl::set: no match over LetterRange")
    lsw = lsw[0]
    for variant, want_fields in (("Single", (0, 0)), ("Range", (0, 1))):
        tgt = lsw.arms.get(variant, lsw.otherwise)
        region = mir.arm_region(setf.body, lsw.bb, tgt) if tgt is not None else set()
        entries = _table_writes(prog, setf, region, {}, 0)
        shown = [(_show(lo), _show(hi), "inclusive" if inc else "exclusive", _show(v)) for lo, hi, inc, v in entries]
        ok = len(entries) == 1
        if ok:
            lo, hi, inc, val = entries[0]
            ok = inc and _letter_field(lo) == (variant, want_fields[0]) and _letter_field(hi) == (variant, want_fields[1]) \
                and val[0] == "call" and val[1].split("::")[-1] == "qualifier"
        ctx.decide(ok, rule, "%s:deftype-writes:%s" % (rule, variant), setf.loc,
                   "LetterRange::%s fills [index(first), index(last)] inclusive with def_type.qualifier()" % variant,
                   "for LetterRange::%s TypeResolverImpl::set writes the table slots %s - not exactly the slots from "
                   "the first to the last letter (both included) with the DEFtype's qualifier: a letter of the range "
                   "(typically its last) keeps its old default type" % (variant, shown))
    fill = None
    for _b, t in setf.body.calls():
        g = prog.fns.get(mir.callee_of(t))
        if g is not None and "type_resolver_impl" in g.id and g.name != _INDEX_FN_NAME[0] and _table_writes(prog, g, None, {}, 0):
            fill = g
    writer = fill or setf
    # same index function on the read and on the write side, and it folds case
    idx = [f for f in [_letter_index_fn(prog)] if f is not None]
    if len(idx) != 1:
        raise CheckError("anchor: letter index function of the DEFtype table")
    read = [f for f in prog.fns.values() if f.name == "char_to_qualifier" and "type_resolver_impl" in f.id]
    if len(read) != 1:
        raise CheckError("anchor char_to_qualifier")
    r_uses = any(mir.callee_of(t) == idx[0].id for _b, t in read[0].body.calls())
    w_uses = sum(1 for _b, t in writer.body.calls() if mir.callee_of(t) == idx[0].id) >= 1
    ctx.decide(r_uses and w_uses, rule, rule + ":same-index-function", idx[0].loc,
               "char_to_qualifier and the DEFtype writer index through char_to_alphabet_index",
               "the DEFtype table is read and written through different index computations")
    folds = any((t.get("cpath") or "").endswith("to_ascii_uppercase") for _b, t in idx[0].body.calls())
    ctx.decide(folds, rule, rule + ":index-folds-case", idx[0].loc, "index computed from the upper-cased letter",
               "char_to_alphabet_index no longer folds the letter's case: `a` and `A` would index differently")
    ctx.require(rule, 5)


def r4_one_kind_per_name(ctx, rule="C13.R4"):
    prog = ctx.prog
    nii = [i for i in prog.impls.values() if i["self_ty"].endswith("NameInfoInner") and (i.get("trait") or "").endswith("SingleNameTrait")]
    if len(nii) != 1:
        raise CheckError("impl SingleNameTrait for NameInfoInner")
    fid = [it["id"] for it in nii[0]["items"] if it["name"] == "insert_compact"]
    fn = prog.fns[fid[0]]
    sws = [s for s in mir.enum_switches(prog, fn.body) if s.adt.endswith("NameInfoInner")]
    if not sws:
        raise CheckError("insert_compact: no match over NameInfoInner")
    sw = sws[0]
    for v in prog.variants(sw.adt):
        tgt = sw.arms.get(v, sw.otherwise)
        region = mir.arm_region(fn.body, sw.bb, tgt)
        panics = any(mir.is_panic_call(t) for _b, t in mir.region_calls(fn.body, region))
        inserts = any(mir.callee_path(t).split("::")[-1] == "insert_compact" for _b, t in mir.region_calls(fn.body, region))
        if v == "Compacts":
            ctx.decide(inserts and not panics, rule, "%s:insert_compact:%s" % (rule, v), fn.loc, "inserts",
                       "inserting a compact variable into a Compacts entry no longer inserts")
        else:
            ctx.decide(panics and not inserts, rule, "%s:insert_compact:%s" % (rule, v), fn.loc,
                       "refuses (internal error path)",
                       "a compact variable can now be inserted over a %s entry: a name would be both kinds" % v)
    # constants are only inserted after the clash check
    on_const = [f for f in prog.fns.values() if f.name == "on_const" and "const_rules" in f.id]
    if len(on_const) != 1:
        raise CheckError("anchor const_rules::on_const")
    oc = on_const[0]
    # found by what they do, in on_const itself or in private helpers of its file: the three
    # look-ups (names, subs, functions) and the call that inserts the constant
    def deep_names(t):
        out = {mir.callee_path(t).split("::")[-1]}
        g = prog.fns.get(t.get("res") or mir.callee_of(t))
        if g is not None and g.file == oc.file and g.id != oc.id:
            for h in [g] + prog.closures_of(g):
                out |= {mir.callee_path(t2).split("::")[-1] for _b2, t2 in h.body.calls()}
        return out
    sites = [(b, deep_names(t)) for b, t in oc.body.calls()]
    ins = [b for b, ns in sites if any(n.startswith("insert") for n in ns)]
    look = {"contains_any_locally_or_contains_extended_recursively": [b for b, ns in sites if "contains_any_locally_or_contains_extended_recursively" in ns],
            "contains_key": [b for b, ns in sites if "contains_key" in ns]}
    missing = [k for k, bs in look.items() if not bs]
    dom = bool(ins) and not missing and all(any(oc.body.dominates(b, i) for b in bs) for bs in look.values() for i in ins)
    ctx.decide(dom, rule, rule + ":const:clash-check-dominates-insert", oc.loc,
               "the look-ups of names, subs and functions dominate the insertion of the constant",
               "a CONST is inserted without the clash check on every path (look-ups missing: %s)" % missing)
    n_keys = sum(1 for b, t in oc.body.calls() for n in [0]
                 if "contains_key" in deep_names(t) and mir.callee_path(t).split("::")[-1] == "contains_key")
    helper_keys = 0
    for b, t in oc.body.calls():
        g = prog.fns.get(t.get("res") or mir.callee_of(t))
        if g is not None and g.file == oc.file and g.id != oc.id:
            helper_keys = max(helper_keys, sum(1 for h in [g] + prog.closures_of(g) for _b2, t2 in h.body.calls()
                                               if mir.callee_path(t2).split("::")[-1] == "contains_key"))
    ctx.decide(not missing and max(n_keys, helper_keys) >= 2, rule,
               rule + ":const:clash-check-covers-names-subs-functions", oc.loc,
               "checks variables/constants, subs and functions",
               "the CONST clash check does not consult names, subs and functions (%d contains_key look-ups)" % max(n_keys, helper_keys))
    ctx.require(rule, 5)


def r5_local_before_global(ctx, rule="C13.R5"):
    prog = ctx.prog
    n = 0
    for fn in sorted(_names_methods(prog), key=lambda f: f.id):
        seq = []
        for f in [fn] + prog.closures_of(fn):
            for b in f.body.rpo():
                t = f.body.term(b)
                if t["k"] == "call":
                    nm = mir.callee_path(t).split("::")[-1]
                    if nm in ("names", "global_names") and "Names" in mir.callee_path(t):
                        seq.append(("body" if f is fn else "closure", nm, b))
        if not any(x[1] == "global_names" for x in seq) or fn.name in ("global_names", "names"):
            continue
        if not any(x[1] == "names" for x in seq) and fn.kind != "closure":
            # a helper that consults the module level only (`the SHARED entry of the global table, if any`): it is
            # the fallback half; where it is called decides - every caller looks at the current scope first
            callers = [g for g in _names_methods(prog) if g.id != fn.id and any(
                (t.get("res") or mir.callee_of(t)) == fn.id for h in [g] + prog.closures_of(g) for _b, t in h.body.calls())]
            if callers:
                n += 1
                bad = []
                for g in callers:
                    gseq = []
                    for h in [g] + prog.closures_of(g):
                        for b in h.body.rpo():
                            t = h.body.term(b)
                            if t["k"] == "call":
                                nm = mir.callee_path(t).split("::")[-1]
                                if nm == "names" and "Names" in mir.callee_path(t):
                                    gseq.append(("body" if h is g else "closure", "names", b))
                                elif (t.get("res") or mir.callee_of(t)) == fn.id:
                                    gseq.append(("body" if h is g else "closure", "helper", b))
                    body_first = [x for x in gseq if x[0] == "body"]
                    ok_g = bool(body_first) and body_first[0][1] == "names"
                    if ok_g:
                        hb = [x for x in body_first if x[1] == "helper"]
                        lb = [x for x in body_first if x[1] == "names"]
                        if hb:
                            ok_g = g.body.dominates(lb[0][2], hb[0][2])
                    if not ok_g:
                        bad.append(g.name)
                ctx.decide(not bad, rule, "%s:%s" % (rule, fn.name), fn.loc,
                           "a fallback helper: every caller looks at the current scope first",
                           "%s (which consults the module level only) is called by %s before the current scope was looked at: a "
                           "local CONST/variable no longer shadows a global one of the same name" % (fn.name, bad))
                continue
        n += 1
        first_body = [x for x in seq if x[0] == "body"]
        ok = bool(first_body) and first_body[0][1] == "names"
        # the global lookup must come after (or lazily inside a closure of) the local one
        if ok:
            g_body = [x for x in first_body if x[1] == "global_names"]
            l_body = [x for x in first_body if x[1] == "names"]
            if g_body:
                ok = fn.body.dominates(l_body[0][2], g_body[0][2])
        ctx.decide(ok, rule, "%s:%s" % (rule, fn.name), fn.loc, "current scope first, global scope as fallback",
                   "%s consults the global scope before the current scope: a local CONST/variable no "
                   "longer shadows a global one of the same name" % fn.name)
    ctx.require(rule, 5)


def _early_return_fallback(prog, fn):
    """The same rule in its statement form: `if let Some(x) = self.names().M(..) { return Some(x) }`,
    then `self.global_names()` and the same M on what it yields.  The global scope is reached only on
    the None side of the test of the local look-up, and nothing else decides before it."""
    body = fn.body
    pv = mir.Prov(body)
    local = glob = None
    second = []
    for b, t in body.calls():
        nm = mir.callee_path(t).split("::")[-1]
        if nm == "global_names":
            glob = b
        if nm in ("get_compact", "get_extended", "get_const_value") and t["args"]:
            recv = mir.strip_refs(pv.of_operand(t["args"][0]))
            base = recv[1].split("::")[-1] if recv[0] == "call" else ""
            if base == "names" and local is None:
                local = (b, nm, t)
            else:
                second.append((b, nm, t))
    if local is None or glob is None or not second:
        return False, ""
    lb, m, lt = local
    # the switch on the discriminant of the local result
    nxt = lt["t"]
    sws = [sw for sw in mir.enum_switches(prog, body) if sw.adt.endswith("option::Option") and body.dominates(lb, sw.bb)
           and mir.origin_mentions(pv.of_place(sw.place), lambda z: z[0] == "call" and z[1].split("::")[-1] == m)]
    if not sws:
        return False, ""
    sw = sws[0]
    none_t = sw.arms.get("None", sw.otherwise)
    some_t = sw.arms.get("Some", sw.otherwise)
    if none_t is None or some_t is None or none_t == some_t:
        return False, ""
    only_on_none = glob in body.reachable(none_t, avoid={some_t}) and glob not in body.reachable(some_t, avoid={none_t})
    same_lookup = all(nm == m for _b, nm, _t in second) and all(b2 in body.reachable(glob) for b2, _n, _t in second)
    # nothing decides between entry and the local look-up
    first = body.every_path_passes(0, body.exits(), {lb})
    return bool(only_on_none and same_lookup and first), m


def r6_fallback_keyed_on_same_lookup(ctx, rule="C13.R6"):
    """The global scope is consulted exactly when the *same* lookup missed in the current scope:
    `names().M(..).or_else(|| global_names()...M(..))`."""
    prog = ctx.prog
    n = 0
    for fn in sorted(_names_methods(prog), key=lambda f: f.id):
        cl = prog.closures_of(fn)
        names_called = {mir.callee_path(t).split("::")[-1] for g in [fn] + cl for _b, t in g.body.calls()}
        if "global_names" not in names_called or fn.name == "global_names":
            continue
        if not (names_called & {"get_compact", "get_extended", "get_const_value"}):
            continue    # merging lookups (collect_var_info) are covered by R2
        n += 1
        pv = mir.Prov(fn.body)
        ok = False
        detail = ""
        for b, t in fn.body.calls():
            if not (t.get("cpath") or "").endswith("Option::<T>::or_else"):
                continue
            recv = mir.strip_refs(pv.of_operand(t["args"][0]))
            if recv[0] != "call" or not recv[2]:
                continue
            m = recv[1].split("::")[-1]
            base = mir.strip_refs(recv[2][0])
            local_first = base[0] == "call" and base[1].split("::")[-1] == "names"
            clo = mir.strip_refs(pv.of_operand(t["args"][1]))
            cid = clo[2] if clo[0] == "agg" and clo[1] == "closure" else None
            cfn = prog.fns.get(cid) if cid else None
            inner = set()
            if cfn is not None:
                for g in [cfn] + prog.closures_of(cfn):
                    for _b2, t2 in g.body.calls():
                        inner.add(mir.callee_path(t2).split("::")[-1])
            if local_first and "global_names" in inner and m in inner:
                # nothing else decides: the or_else call is reached on every path from entry
                ok = all(fn.body.every_path_passes(0, fn.body.exits(), {b}) for _ in [0])
                detail = m
        if not ok:
            ok, detail = _early_return_fallback(prog, fn)
        ctx.decide(ok, rule, "%s:%s" % (rule, fn.name), fn.loc,
                   "names().%s(..).or_else(global %s)" % (detail, detail),
                   "%s does not fall back to the global scope exactly when its own lookup misses locally "
                   "(another test decides, or the fallback uses a different lookup): a SHARED / global "
                   "entry is hidden by an unrelated local name" % fn.name)
    # `CONSTs are the same objects in every subprogram`: every lookup of a constant's value that the
    # scoped table (self type Names: inherent methods and trait impls) hands to its callers consults
    # the module level after the current scope - the plain reader and the ConstLookup used for
    # `CONST B = A * 2` / `STRING * A` inside a SUB must not disagree
    m = 0
    for fn in sorted(_names_methods(prog), key=lambda f: f.id):
        if "Variant" not in fn.body.locals[0]["ty"] or not fn.body.locals[0]["ty"].startswith("std::option::Option<"):
            continue
        called = {mir.callee_path(t).split("::")[-1] for g in [fn] + prog.closures_of(fn) for _b, t in g.body.calls()}
        if "get_const_value" not in called or "names" not in called:
            continue
        m += 1
        ctx.decide("global_names" in called, rule, "%s:%s:const-value-falls-back" % (rule, _qual(fn)), fn.loc,
                   "looks in the current scope, then in the module level",
                   "%s returns the value of a constant from the current scope only: inside a SUB or FUNCTION a "
                   "module-level CONST does not exist for this lookup (`CONST B = A * 2`, `DIM s AS STRING * A` are "
                   "rejected there) although plain reads of A find it" % _qual(fn))
    if m < 1:
        raise CheckError("%s: no constant-value lookup found on Names" % rule)
    ctx.require(rule, 4)


def _qual(fn):
    tr = (fn.impl or {}).get("trait_ref") or ""
    t = re.sub(r"<.*", "", tr.split(" as ")[-1]).split("::")[-1].rstrip(">") if tr else ""
    return ("%s::%s" % (t, fn.name)) if t else fn.name


def r7_extended_table(ctx, rule="C13.R7"):
    """Whether a declaration is *extended* (`AS type`: the bare name is reserved, every suffix is
    rejected) or *compact* decides which name table it goes into.  VarType::is_extended is
    implemented separately for DIM types and for parameter types; both are interpreted on every
    variant (arrays over every element variant) and compared with the one table that the property
    states: AS type / user type / STRING * n are extended, a sigil or nothing is compact, an array
    is what its element type is."""
    from .. import tagflow as tf
    prog = ctx.prog
    eng = tf.Engine(prog)
    eng.trunc_depth = 8
    STYLE = "rusty_parser::core::built_in_style::BuiltInStyle"
    n = 0
    for adt_id in ("rusty_parser::core::dim_type::DimType", "rusty_parser::core::param_name::ParamType"):
        short = adt_id.split("::")[-1]
        fs = [f for f in prog.fns.values() if f.name == "is_extended" and f.impl
              and f.impl["self_ty"].endswith(short) and "VarType" in (f.impl.get("trait_ref") or "")]
        if len(fs) != 1:
            raise CheckError("anchor <%s as VarType>::is_extended" % short)
        fn = fs[0]
        scalars = []
        for v in prog.variants(adt_id):
            if v == "Array":
                continue
            if v == "BuiltIn":
                for st, want in (("Compact", "0"), ("Extended", "1")):
                    scalars.append(("BuiltIn/%s" % st, eng.make(adt_id, "BuiltIn", {1: tf.Tag(STYLE, st)}), want))
            else:
                scalars.append((v, eng.make(adt_id, v), "0" if v == "Bare" else "1"))
        arr_field = [i for i, f in enumerate(eng.variant_named(adt_id, "Array")["fields"])
                     if f.get("ty", "").startswith("std::boxed::Box<")]
        if len(arr_field) != 1:
            raise CheckError("%s::Array: element type field not found" % short)
        cases = list(scalars) + [("Array of " + nm, eng.make(adt_id, "Array", {arr_field[0]: val}), want)
                                 for nm, val, want in scalars]
        for nm, val, want in cases:
            n += 1
            rs = sorted({tf.shape(x) for x in eng.summary(fn, (tf.Ref(val),))})
            key = "%s:%s:%s" % (rule, short, nm.replace(" ", "-"))
            if rs not in (["0"], ["1"]):
                ctx.unknown(rule, key, fn.loc, "abstract result %s" % rs)
                continue
            ctx.decide(rs == [want], rule, key, fn.loc, "is_extended=%s" % want,
                       "%s::is_extended is %s for `%s` (want %s): the declaration is filed in the %s name "
                       "table, so its bare name %s" % (
                           short, rs[0], nm, want, "compact" if rs[0] == "0" else "extended",
                           "resolves by the DEFtype of its first letter instead of the declared type and "
                           "other suffixes are accepted" if rs[0] == "0" else "is reserved although a sigil was given"))
    ctx.analysed_units(rule, cells=n)
    ctx.require(rule, 16)


def r8_function_name_writable_only_inside_it(ctx, rule="C13.R8"):
    """`a function's result name F is writable only inside the body of F`: the resolver that turns an
    assignment target into the function's result variable (AssignToFunction) accepts or answers
    Duplicate definition on a test that is keyed by the NAME being assigned - is the current scope
    the function of that name - not merely on `we are inside some function`."""
    prog = ctx.prog
    impls = [i for i in prog.impls.values() if i["self_ty"].endswith("AssignToFunction") and (i.get("trait") or "").endswith("VarResolve")]
    if len(impls) != 1:
        raise CheckError("%s: impl VarResolve for AssignToFunction: %d" % (rule, len(impls)))
    fid = [it["id"] for it in impls[0]["items"] if it["name"] == "resolve"]
    f = prog.fns.get(fid[0]) if fid else None
    if f is None:
        raise CheckError("%s: AssignToFunction::resolve not found" % rule)
    body = f.body
    pv = mir.Prov(body)
    errs = [b for b, blk in enumerate(body.blocks) for st in blk["s"]
            if st["k"] == "assign" and st["r"].get("k") == "agg" and (st["r"].get("adt") or "").endswith("LintError")
            and st["r"].get("variant") == "DuplicateDefinition"]
    if not errs:
        raise CheckError("%s: AssignToFunction::resolve never answers DuplicateDefinition" % rule)
    # the name parameter: the parameter of type Name
    name_params = [i for i in range(1, f.argc + 1) if body.locals[i]["ty"].endswith("Name")]
    ok = False
    why = "no test guards the DuplicateDefinition answer"
    for e in errs:
        for d in range(body.nblocks):
            t = body.term(d)
            if t["k"] != "switch" or t.get("ty") != "bool" or not body.dominates(d, e):
                continue
            succ = body.succ(d)
            if not any(body.dominates(s_, e) for s_ in succ if s_ != d):
                continue
            o = pv.of_operand(t["o"])
            keyed = mir.origin_mentions(o, lambda z: z[0] == "param" and (z[1] + 1) in name_params)
            if keyed:
                ok = True
            else:
                why = "the test `%s` does not look at the name being assigned" % mir.short_origin(o)
    ctx.decide(ok, rule, rule + ":AssignToFunction:keyed-by-the-assigned-name", f.loc,
               "accepted only when the current scope is the function of the assigned name",
               "AssignToFunction::resolve decides between `result variable` and Duplicate definition without "
               "looking at the name being assigned (%s): inside FUNCTION G an assignment to another function's name "
               "F is accepted and creates a local that shadows later calls of F" % why)
    ctx.require(rule, 1)


def r9_bare_name_selects_compact_entry_by_default_type(ctx, rule="C13.R9"):
    """`A bare name denotes the variable of its default type ... A%, A&, A!, A# and A$ are five
    different ones`: a function that computes the default type of a bare name (`qualify`) and then
    goes through the existing entries of that name, separating suffix-style (Compact) from AS-style
    (Extended) entries, may take a Compact entry for the bare name only after comparing the entry's
    type with the default type.  (Taking whatever Compact entry exists makes `REDIM Items(1 TO 5)`
    re-dimension `Items$`.)"""
    prog = ctx.prog
    n = 0
    for f in sorted(prog.fns.values(), key=lambda f: f.id):
        if f.crate != "rusty_linter" or f.kind == "const":
            continue
        body = f.body
        sws = [sw for sw in mir.enum_switches(prog, body) if sw.adt.endswith("::BuiltInStyle")]
        qcalls = [(b, t) for b, t in body.calls() if (t.get("cpath") or "").split("::")[-1] == "qualify"]
        if not sws or not qcalls:
            continue
        pv = mir.Prov(body)
        for sw in sws:
            n += 1
            name = f.path.split("::", 1)[1]
            ct = sw.arms.get("Compact", sw.otherwise)
            et = sw.arms.get("Extended", sw.otherwise)
            region = mir.arm_region(body, sw.bb, ct) if ct is not None else set()
            compares = False
            for b in sorted(region):
                t = body.term(b)
                if t["k"] == "call" and (t.get("cpath") or "").split("::")[-1] in ("eq", "ne"):
                    if any(mir.origin_mentions(pv.of_operand(a), lambda z: z[0] == "call" and z[1].split("::")[-1] == "qualify")
                           for a in t["args"]):
                        compares = True
                for st in body.blocks[b]["s"]:
                    r = st.get("r", {})
                    if st["k"] == "assign" and r.get("k") == "bin" and r.get("op") in ("Eq", "Ne"):
                        if any(mir.origin_mentions(pv.of_operand(r[x]), lambda z: z[0] == "call" and z[1].split("::")[-1] == "qualify")
                               for x in ("a", "b")):
                            compares = True
            ctx.decide(ct != et and compares, rule, "%s:%s" % (rule, name), f.loc,
                       "a Compact entry is taken only if its type equals the default type of the bare name",
                       "%s takes an existing suffix-style entry for a bare name without comparing its type with the "
                       "name's default type%s: `REDIM Items$(1 TO 3)` ... `REDIM Items(1 TO 5)` re-dimensions the string "
                       "array instead of creating Items!" % (name, " (Compact and Extended entries share one arm)" if ct == et else ""))
    ctx.analysed_units(rule, selectors=n)
    ctx.require(rule, 1)


_NAME_ADT = "rusty_parser::core::name::Name"
_INSPECT = ("qualifier", "is_bare", "is_qualified", "is_bare_or_of_type", "demand_bare", "demand_qualified")
_BARE_OF = ("to_bare_name", "as_bare_name", "demand_bare", "bare_name")


def _same_value(a, b):
    return mir.show_origin(mir.strip_all(a)) == mir.show_origin(mir.strip_all(b))


def _inspects_param(prog, fn, k, depth=3, seen=None):
    """fn looks at the qualifier of its k-th parameter (a Name), directly or in a callee."""
    seen = seen or set()
    if (fn.id, k) in seen or fn.body is None:
        return False
    seen.add((fn.id, k))
    for body in common.all_bodies(fn)[:1]:
        pv = mir.Prov(body)
        target = ("param", k)
        for b, t in body.calls():
            last = mir.callee_path(t).split("::")[-1]
            for j, a in enumerate(t["args"]):
                o = mir.strip_all(pv.of_operand(a))
                if tuple(o[:2]) != target:
                    continue
                if j == 0 and last in _INSPECT:
                    return True
                g = prog.fns.get(t.get("res") or mir.callee_of(t))
                if g is not None and depth and _inspects_param(prog, g, j, depth - 1, seen):
                    return True
        for sw in mir.enum_switches(prog, body):
            if sw.adt == _NAME_ADT:
                o = mir.strip_all(pv.of_place(sw.place))
                if tuple(o[:2]) == target:
                    return True
    return False


def _looked_at_before(prog, fn, body, pv, name_origin, site_block):
    """Some block that dominates site_block looks at the qualifier of the value name_origin."""
    for b, t in body.calls():
        if b == site_block or not body.dominates(b, site_block):
            continue
        last = mir.callee_path(t).split("::")[-1]
        for j, a in enumerate(t["args"]):
            if not _same_value(pv.of_operand(a), name_origin):
                continue
            if j == 0 and last in _INSPECT:
                return True
            g = prog.fns.get(t.get("res") or mir.callee_of(t))
            if g is not None and _inspects_param(prog, g, j):
                return True
    for sw in mir.enum_switches(prog, body):
        if sw.adt == _NAME_ADT and body.dominates(sw.bb, site_block) and _same_value(pv.of_place(sw.place), name_origin):
            return True
    return False


def r10_written_suffix_is_looked_at(ctx, rule="C13.R10"):
    """Where the checker builds a Name from the bare part of a name the programmer wrote (Name::new /
    bare / qualified over to_bare_name / as_bare_name / demand_bare of it), the suffix of the written
    name has been looked at first - in the function (a dominating qualifier() / is_bare() / match on the
    name, or a call of a function that does), or, for a parameter, at every call site.  Otherwise a
    wrong suffix is dropped without complaint (`A!(1)` for `DIM A(5) AS INTEGER`)."""
    prog = ctx.prog
    n = 0
    for f in sorted(prog.fns.values(), key=lambda x: x.id):
        if f.crate != "rusty_linter" or f.body is None or "/src/converter/" not in (f.file or ""):
            continue
        if common.is_test_fn(f) if hasattr(common, "is_test_fn") else False:
            continue
        body = f.body
        pv = mir.Prov(body)
        for b, t in body.calls():
            cp = mir.callee_path(t)
            if not (cp.split("::")[-1] in ("new", "bare", "qualified") and "::Name::" in "::" + cp) or not t["args"]:
                continue
            o = mir.strip_all(pv.of_operand(t["args"][0]))
            while o[0] == "clone":
                o = mir.strip_all(o[1])
            if not (o[0] == "call" and o[1].split("::")[-1] in _BARE_OF and o[2]):
                continue
            src = mir.strip_all(o[2][0])
            n += 1
            key = "%s:%s" % (rule, f.name)
            ok = _looked_at_before(prog, f, body, pv, src, b)
            how = "looked at in the function"
            if not ok and src[0] == "param":
                sites = []
                for g in prog.fns.values():
                    if g.body is None:
                        continue
                    for gb, gt in g.body.calls():
                        if (gt.get("res") or mir.callee_of(gt)) == f.id:
                            sites.append((g, gb, gt))
                if sites:
                    ok = True
                    for g, gb, gt in sites:
                        gpv = mir.Prov(g.body)
                        if src[1] >= len(gt["args"]):
                            ok = False
                            break
                        arg = gpv.of_operand(gt["args"][src[1]])
                        if not _looked_at_before(prog, g, g.body, gpv, arg, gb):
                            ok = False
                            break
                    how = "looked at before each of its %d call sites" % len(sites)
            ctx.decide(ok, rule, key, "%s:%s" % (f.file, t.get("ln")), "suffix of the written name " + how,
                       "%s builds a Name from the bare part of %s although nothing has looked at the suffix the "
                       "programmer wrote: a wrong suffix is dropped and the name resolves to the entry of another "
                       "type instead of being refused" % (f.name, mir.show_origin(src)[:60]))
    ctx.analysed_units(rule, name_constructions=n)
    ctx.require(rule, 2)


def r11_argument_position_resolves_like_any_value(ctx, rule="C13.R11"):
    """A name in argument position is a value like a name anywhere else in an expression: every
    resolver the converter offers for ExprContext::Default (existing variable, constant, built-in and
    user-defined function called without arguments) is also offered for ExprContext::Argument - on some
    path; the function's own result variable may take precedence inside the function.  Evaluated by walking
    the two `convert` functions that build the resolver list with the context fixed (TagFlow)."""
    from .. import tagflow as tf
    prog = ctx.prog
    ec = [a for a in prog.adts.values() if a["path"].endswith("::ExprContext")]
    if len(ec) != 1:
        raise CheckError("anchor ExprContext")
    EC = ec[0]["id"]
    POS = "rusty_common::positioned::Positioned"
    units = []
    for f in prog.fns.values():
        if f.crate != "rusty_linter" or f.body is None or "/converter/expr_rules/" not in (f.file or ""):
            continue
        pv = mir.Prov(f.body)
        pushes = [b for b, t in f.body.calls() if mir.callee_path(t).split("::")[-1] == "push" and len(t["args"]) > 1
                  and "VarResolve" in f.body.locals[mir.op_place(t["args"][0])[0]]["ty"]] if True else []
        if pushes:
            units.append(f)
    if len(units) < 2:
        raise CheckError("%s: %d functions build a list of VarResolve rules (expected the variable and the property converter)"
                         % (rule, len(units)))

    def pushed_type(body, pv, t):
        o = mir.strip_all(pv.of_operand(t["args"][1]))
        while o[0] == "call" and o[2] and o[1].split("::")[-1] == "new" and "Box" in o[1]:
            o = mir.strip_all(o[2][0])
        if o[0] == "call":
            t2 = body.term(o[3])
            return (t2.get("self_ty") or t2.get("cpath") or "?").split("::")[-1] + ":" + o[1].split("::")[-1]
        if o[0] == "agg":
            return str(o[2])
        return mir.show_origin(o)[:40]

    for f in sorted(units, key=lambda x: x.id):
        pv = mir.Prov(f.body)
        extra_local = [i for i in range(1, f.argc + 1) if "ExprContext" in f.body.locals[i]["ty"]]
        if len(extra_local) != 1:
            raise CheckError("%s: %s has no ExprContext parameter" % (rule, f.path))
        sets = {}
        for cname in ("Default", "Argument"):
            seen = []

            class E(tf.Engine):
                def do_call(eng, fn, body, env, t):
                    if fn.id == f.id and mir.callee_path(t).split("::")[-1] == "push" and len(t["args"]) > 1:
                        seen.append(pushed_type(body, pv, t))
                    return super().do_call(fn, body, env, t)
            e = E(prog, follow=lambda g: False)
            args = {i: tf.TOP for i in range(1, f.argc + 1)}
            args[1] = tf.Ref(tf.TOP)
            args[extra_local[0]] = e.make(POS, "Positioned", {0: tf.Tag(EC, cname)})
            e.run(f, f.body, args)
            sets[cname] = set(seen)
        if not sets["Default"]:
            raise CheckError("%s: no resolver seen for ExprContext::Default in %s" % (rule, f.path))
        missing = sorted(sets["Default"] - sets["Argument"])
        unit = "variable" if "variable" in f.file else ("property" if "property" in f.file else f.name)
        ctx.decide(not missing, rule, "%s:%s" % (rule, unit), f.loc,
                   "Argument offers the %d resolvers of Default" % len(sets["Default"]),
                   "%s: for a name in argument position the converter never offers %s, which it offers elsewhere "
                   "in an expression: `Bar Foo` / `PRINT LEN(Foo$)` with a parameterless FUNCTION Foo is refused "
                   "(Duplicate definition) although `x = Foo` is a call" % (f.path.split("::", 1)[1], missing))
    ctx.require(rule, 2)


def _module_level_shared_lookups(prog):
    """Functions of the scoped name table that collect the entries of a name in the current scope AND the
    SHARED ones of the module level, whatever their style: one collector called on the table of the current
    scope and on the module-level table (found by what they do)."""
    out = []
    for f in prog.fns.values():
        if f.crate != "rusty_linter" or f.body is None or "::names::" not in f.id or f.kind == "closure":
            continue
        pv = mir.Prov(f.body)
        by_callee = {}
        for b, t in f.body.calls():
            if not t["args"]:
                continue
            recv = mir.strip_all(pv.of_operand(t["args"][0]))
            src = None
            if mir.origin_mentions(recv, lambda x: x[0] == "call" and x[1].split("::")[-1] == "global_names"):
                src = "global"
            elif mir.origin_mentions(recv, lambda x: x[0] == "call" and x[1].split("::")[-1] == "names"):
                src = "local"
            if src:
                by_callee.setdefault(mir.callee_of(t), set()).add(src)
        if any(v == {"global", "local"} for v in by_callee.values()):
            out.append(f)
    return out


def r12_every_definition_looks_at_the_shared_names(ctx, rule="C13.R12"):
    """`Inside a SUB or FUNCTION a name refers to a local unless it ... was declared DIM SHARED` and `after
    DIM A AS type ... any other suffix on A is rejected`: a declaration may not create a variable that takes a
    name away from a SHARED variable of the module level.  Every place of the declaration rules that makes the
    type of a new variable (VarType::new_* / a fixed-length string type) is dominated by a call that reaches
    the lookup which collects the entries of the name in the current scope and the SHARED ones of the module
    level in every style.  A gate that only looks for extended entries up there lets `DIM Count AS INTEGER`
    in a SUB shadow `DIM SHARED Count%`."""
    prog = ctx.prog
    lookups = _module_level_shared_lookups(prog)
    if not lookups:
        raise CheckError("%s: no function of the name table collects local and module-level SHARED entries with one collector" % rule)
    lids = {f.id for f in lookups}
    memo = {}

    def reaches(fid, depth=3):
        if fid in lids:
            return True
        if depth == 0:
            return False
        k = (fid, depth)
        if k not in memo:
            memo[k] = False
            g = prog.fns.get(fid)
            if g is not None and g.body is not None and g.crate == "rusty_linter":
                memo[k] = any(reaches(c, depth - 1) for c in prog.call_edges(g))
        return memo[k]

    n = 0
    for f in sorted(prog.fns.values(), key=lambda f: f.id):
        if f.crate != "rusty_linter" or f.body is None or "dim_rules" not in f.id:
            continue
        body = f.body
        for b, t in body.calls():
            cp = mir.callee_path(t)
            last = cp.split("::")[-1]
            makes = ("VarType" in cp and last.startswith("new_")) or (last == "fixed_length_string" and "DimType" in cp)
            if not makes:
                continue
            n += 1
            doms = [mir.callee_path(t2).split("::")[-1] for b2, t2 in body.calls()
                    if b2 != b and body.dominates(b2, b) and reaches(t2.get("res") or mir.callee_of(t2))]
            if not doms:
                # a private helper that is handed what the look-up found: every call of it (in its file) is
                # dominated by the look-up in the caller
                sites = [(g, b3) for g in prog.fns.values() if g.body is not None and g.file == f.file and g.id != f.id
                         for b3, t3 in g.body.calls() if (t3.get("res") or mir.callee_of(t3)) == f.id]
                if sites and all(any(b4 != b3 and g.body.dominates(b4, b3) and reaches(t4.get("res") or mir.callee_of(t4))
                                     for b4, t4 in g.body.calls()) for g, b3 in sites):
                    doms = ["(in the callers: %s)" % sorted({g.name for g, _b in sites})]
            name = f.path.split("::", 1)[1]
            ctx.decide(bool(doms), rule, "%s:%s:%s" % (rule, name, last), "%s:%s" % (f.file, t.get("ln")),
                       "dominated by %s, which reaches %s" % (doms[:2], [x.name for x in lookups][:2]),
                       "%s makes the type of a new variable (%s) without first looking at the entries of the name in the current "
                       "scope and the SHARED entries of the module level in every style (no dominating call reaches %s): a "
                       "declaration in a SUB can take the name of a SHARED variable, which the SUB then no longer sees"
                       % (name, last, [x.name for x in lookups]))
    ctx.analysed_units(rule, lookups=[x.name for x in lookups], definition_sites=n)
    ctx.require(rule, 4)


def r13_every_pass_starts_from_the_default_letter_table(ctx, rule="C13.R13"):
    """`SINGLE unless a DEFINT/.../DEFSTR range covers its first letter`: a DEFtype statement applies from
    where it stands.  Each pass over the program (the pre-linter that collects signatures, the converter that
    resolves names) applies the DEFtype statements in program order as it meets them, so each must start from
    the default table.  Wherever a context that holds the letter table is built, the table is a fresh one
    (`new()` / `default()`), directly or handed in by a caller that makes a fresh one; a table taken over from
    another pass is the table as it stands at the END of the program: a bare name used before a later DEFINT
    gets the later type."""
    prog = ctx.prog
    n = 0

    def fresh(f, o, depth=1):
        so = mir.strip_all(o)
        if so[0] == "call":
            g = [x for x in prog.by_path.get(so[1], [])] if hasattr(prog, "by_path") else []
            last = so[1].split("::")[-1]
            return last in ("new", "default") and not so[2]
        if so[0] == "param" and depth:
            callers = [(c, t) for c in prog.fns.values() if c.body is not None and c.crate == "rusty_linter"
                       for _b, t in c.body.calls() if (t.get("res") or mir.callee_of(t)) == f.id]
            if not callers:
                return False
            return all(len(t["args"]) > so[1] and fresh(c, mir.Prov(c.body).of_operand(t["args"][so[1]]), depth - 1)
                       for c, t in callers)
        return False

    for f in sorted(prog.fns.values(), key=lambda f: f.id):
        if f.crate != "rusty_linter" or f.body is None:
            continue
        body = f.body
        pv = mir.Prov(body)
        for b, blk in enumerate(body.blocks):
            if body.is_cleanup(b):
                continue
            for st in blk["s"]:
                r = st.get("r", {})
                if not (st["k"] == "assign" and r.get("k") == "agg" and r.get("a") == "adt"):
                    continue
                if r["adt"].endswith("TypeResolverImpl"):
                    continue
                for op in r["ops"]:
                    pl = mir.op_place(op)
                    if pl is None or pl[1] and False:
                        continue
                    ty = body.locals[pl[0]]["ty"] if not pl[1] else ""
                    if not ty.endswith("TypeResolverImpl"):
                        continue
                    n += 1
                    o = pv.of_operand(op)
                    name = f.path.split("::", 1)[1]
                    ctx.decide(fresh(f, o), rule, "%s:%s:%s" % (rule, name, r["adt"].split("::")[-1]), "%s:%s" % (f.file, st.get("ln")),
                               "the letter table of the new %s is a fresh one" % r["adt"].split("::")[-1],
                               "%s builds a %s around a DEFtype letter table that is not fresh (%s): the pass starts from the "
                               "table another pass left behind, i.e. with every DEFtype statement of the program already applied - "
                               "a bare name in front of a later `DEFINT A-Z` is an INTEGER" % (name, r["adt"].split("::")[-1], mir.short_origin(o)))
    ctx.analysed_units(rule, contexts_built=n)
    ctx.require(rule, 2)


def r14_a_variable_cannot_take_the_name_of_a_function(ctx, rule="C13.R14"):
    """A DIM (or REDIM) may not declare a variable under the name of a FUNCTION: inside the function the bare name
    is its result, everywhere else it is a call - a variable of that name takes both away.  (A *parameter* of the
    function's own type is the one exception QBasic has.)  Among the checks that the declaration rules run
    against the table of functions, one is strict: wherever the name is found there, every path ends in an
    error.  Folding the strict check into the lenient one (`allowed when the types agree`) lets
    `DIM SHARED Twice` stand next to `FUNCTION Twice`."""
    prog = ctx.prog
    cands = []
    for f in sorted(prog.fns.values(), key=lambda f: f.id):
        if f.crate != "rusty_linter" or f.body is None or "dim_rules" not in f.id:
            continue
        body = f.body
        pv = mir.Prov(body)
        for b, t in body.calls():
            nm = mir.callee_path(t).split("::")[-1]
            found_t = other_t = None
            if nm == "contains_key" and t["args"] and mir.origin_mentions(pv.of_operand(t["args"][0]), lambda z: z[0] == "field" and z[2] == "functions"):
                sw = body.term(t["t"])
                if sw["k"] == "switch":
                    f0 = [tg for v, tg in sw["ts"] if v == 0]
                    found_t, other_t = sw["else"], (f0[0] if f0 else None)
            elif nm == "function_qualifier":
                for sw2 in mir.enum_switches(prog, body):
                    if sw2.adt.endswith("option::Option") and body.dominates(b, sw2.bb):
                        found_t, other_t = sw2.arms.get("Some", sw2.otherwise), sw2.arms.get("None", sw2.otherwise)
                        break
            if found_t is None:
                continue
            # every exit reachable on the `found` side builds an Err
            reach = body.reachable(found_t, avoid={other_t} if other_t is not None else ())
            ok_built = any(st["k"] == "assign" and st["r"].get("k") == "agg" and st["r"].get("a") == "adt"
                           and st["r"].get("adt") == "core::result::Result" and st["r"].get("variant") == "Ok"
                           for x in reach if not body.is_cleanup(x) for st in body.blocks[x]["s"])
            err_built = any(st["k"] == "assign" and st["r"].get("k") == "agg" and st["r"].get("a") == "adt"
                            and st["r"].get("adt") == "core::result::Result" and st["r"].get("variant") == "Err"
                            for x in reach if not body.is_cleanup(x) for st in body.blocks[x]["s"])
            cands.append((f, err_built and not ok_built))
    if not cands:
        raise CheckError("%s: no declaration rule consults the table of functions" % rule)
    strict = [f for f, s_ in cands if s_]
    ctx.decide(bool(strict), rule, rule + ":strict-check-exists", cands[0][0].loc,
               "%d checks against the function table, strict: %s" % (len(cands), sorted({f.path.split('::')[-1] + ' of ' + (f.impl or {}).get('self_ty', '?').split('::')[-1] for f in strict})),
               "of the %d checks the declaration rules run against the table of functions none rejects every name found "
               "there: a DIM / DIM SHARED / REDIM of a name that is also a FUNCTION of the same type is accepted, the "
               "variable then takes the name (`Twice(4)` indexes an array, assigning to Twice inside the function writes "
               "the variable)" % len(cands))
    ctx.require(rule, 1)


def r16_the_stored_shared_flag_is_the_declarations_own(ctx, rule="C13.R16"):
    """Whether a SUB / FUNCTION sees a module-level variable is decided by the SHARED flag filed with that variable.
    Wherever a VariableInfo is built, the flag it stores is the flag of the declaration being filed: a parameter of the
    function (followed no further), a constant, or the `shared` field of an entry that is being copied - never the
    outcome of a computation (a lookup of other names, an `||` over them): a name does not become SHARED because a
    namesake is."""
    prog = ctx.prog
    n = 0
    for f in sorted(prog.fns.values(), key=lambda x: x.id):
        if f.crate != "rusty_linter" or f.kind == "const":
            continue
        pv = None
        for blk in f.body.blocks:
            if blk.get("c"):
                continue
            for s in blk["s"]:
                if s["k"] != "assign" or s["r"]["k"] != "agg" or not (s["r"].get("adt") or "").endswith("::VariableInfo"):
                    continue
                a = prog.adt(s["r"]["adt"])
                idx = [i for i, x in enumerate(a["variants"][0]["fields"]) if x["name"] == "shared"]
                if not idx:
                    raise CheckError("%s: VariableInfo has no field `shared`" % rule)
                pv = pv or mir.Prov(f.body)
                op = s["r"]["ops"][idx[0]]
                o = mir.show_origin(pv.of_operand(op))
                ok = bool(re.fullmatch(r"arg\d+|true|false|(clone\()?\(?\*?[\w.*()& ]*\.shared\)?\)?", o))
                n += 1
                short = f.path.split("::", 1)[1]
                ctx.decide(ok, rule, "%s:%s" % (rule, short), "%s:%s" % (f.file, s.get("ln")), "shared = %s" % o,
                           "%s stores a SHARED flag that is computed (%s) instead of the flag of the declaration it files: a "
                           "variable becomes visible inside SUBs and FUNCTIONs because of something other than its own DIM SHARED "
                           "(e.g. a namesake of another type that is SHARED)" % (short, o[:90] or "several definitions"))
    # one level up: what the callers hand in for that parameter - the SHARED flag of the declaration (a field of that
    # name), a constant, or a parameter of their own
    takers = {}
    for f in prog.fns.values():
        if f.crate != "rusty_linter" or f.kind == "const":
            continue
        pv = None
        for blk in f.body.blocks:
            for s in blk["s"]:
                if s["k"] == "assign" and s["r"]["k"] == "agg" and (s["r"].get("adt") or "").endswith("::VariableInfo"):
                    a = prog.adt(s["r"]["adt"])
                    idx = [i for i, x in enumerate(a["variants"][0]["fields"]) if x["name"] == "shared"][0]
                    pv = pv or mir.Prov(f.body)
                    o = mir.strip_all(pv.of_operand(s["r"]["ops"][idx]))
                    if o[0] == "param":
                        takers[f.id] = o[1]
    m = 0
    for f in sorted(prog.fns.values(), key=lambda x: x.id):
        if f.crate != "rusty_linter" or f.kind == "const":
            continue
        pv = None
        for _b, t in f.body.calls():
            g = prog.fns.get(t.get("res") or mir.callee_of(t))
            if g is None or g.id not in takers or takers[g.id] >= len(t["args"]):
                continue
            pv = pv or mir.Prov(f.body)
            o = mir.show_origin(pv.of_operand(t["args"][takers[g.id]]))
            m += 1
            short = f.path.split("::", 1)[1]
            key = "%s:caller:%s->%s" % (rule, re.sub(r"<impl .*?>::", "", short)[:70], g.name)
            if re.fullmatch(r"true|false|arg\d+|[\w.*()& ]*\bshared\)*", o):
                ctx.ok(rule, key, "%s:%s" % (f.file, t.get("ln")), "passes %s" % o)
            elif o.startswith("_") or "(" in o:
                ctx.violation(rule, key, "%s:%s" % (f.file, t.get("ln")),
                              "%s hands %s a SHARED flag that is computed (%s) instead of the declaration's own flag" % (short, g.name, o[:80]))
            else:
                ctx.unknown(rule, key, "%s:%s" % (f.file, t.get("ln")), "the flag handed to %s is %s" % (g.name, o[:60]))
    ctx.analysed_units(rule, constructions=n, call_sites=m)
    ctx.require(rule, 7, max_unknown=2)


def run(ctx):
    common.install(ctx)
    from . import c09
    c09.r1_folding_pair(ctx, "C13.R1a")
    c09.r3_name_table_keys(ctx, "C13.R1b")
    r2_shared_gate(ctx)
    r3_default_types(ctx)
    r4_one_kind_per_name(ctx)
    r5_local_before_global(ctx)
    r6_fallback_keyed_on_same_lookup(ctx)
    r7_extended_table(ctx)
    r8_function_name_writable_only_inside_it(ctx)
    r9_bare_name_selects_compact_entry_by_default_type(ctx)
    r10_written_suffix_is_looked_at(ctx)
    r11_argument_position_resolves_like_any_value(ctx)
    r12_every_definition_looks_at_the_shared_names(ctx)
    r13_every_pass_starts_from_the_default_letter_table(ctx)
    r14_a_variable_cannot_take_the_name_of_a_function(ctx)
    # FIELD / LSET identify a variable by the text of its name at run time: every comparison of program text
    # anywhere in the front end and the VM folds letter case (the enumeration of C09.R2)
    c09.r2_raw_comparisons(ctx, "C13.R15")
    r16_the_stored_shared_flag_is_the_declarations_own(ctx)
