"""C15 - generated code is well-formed (DESIGN.md section 4, C15.R1-R4)."""
from .. import emit, flow, mir, templates
from ..core import CheckError
from . import common, c05, labels

LEVEL = "other"
EXPLANATION = (
    "Properties of the generator's templates, which hold for every program it can be given: (R1) "
    "no value containing user statements is emitted twice (clone + original both reaching an "
    "emitter); (R2) main module ends in Halt, every procedure in PopRet, instruction and statement-"
    "address vectors are append-only and marks record instructions.len(); (R3) every branch "
    "operand the generator leaves symbolic is resolved by the label resolver and checked by the "
    "label linter, with procedure-local targets; (R4) dataflow over the emitted templates with "
    "per-instruction stack effects derived from interpret_one: every emitter's net effect on the "
    "value/register/context stacks is single-valued and zero for statement-level emitters, never "
    "negative, and a jump and its label see the same depth; (R5) statement marks after user blocks; "
    "(R6) every VM container is used at the end its role prescribes; (R7) label names are built from one "
    "delimited template; (R8) register liveness: a register read by an emitted instruction is not "
    "overwritten by user code emitted since the template set it, and a comparison / arithmetic result in A "
    "is read before the next instruction overwrites it; (R9) the error edges of the "
    "fetch-execute loop leave the context stack as the failing statement found it (shared with C05.R6)."
    " (R10) RESUME label cuts the VM stacks back to the depths recorded by the outermost active call (shared with C05.R11)."
    " (R11 = C03.R4) the call templates stash and write back the same argument list in the prescribed order."
    " (R12 = C05.R5) a call that ends restores the register, value and GOSUB stacks to the depths recorded when it began: what the callee left parked does not reach the caller.")
NOT_DECIDED = [
    "well-formedness of the instruction list for one given program (that is a run of the generator)",
    "labels whose name is computed at generation time (else-if-N, caseN): depths at those sites "
    "are not compared (counted in evidence)",
    "var-path stack and by-ref queue balance (data-dependent on is_by_ref; see C03.R2/R3)",
]


def contains_statements_adts(prog):
    """ADT ids that (transitively) contain rusty_parser Statement values."""
    target = None
    for a in prog.adts.values():
        if a["path"].endswith("::Statement") and a["id"].startswith("rusty_parser") \
                and a["kind"] == "enum":
            target = a["id"]
    if target is None:
        raise CheckError("rusty_parser Statement enum not found")
    holders = {target}
    changed = True
    while changed:
        changed = False
        for a in prog.adts.values():
            if a["id"] in holders or not a.get("local"):
                continue
            for v in a["variants"]:
                for f in v["fields"]:
                    if any(x in holders for x in f.get("adts", [])):
                        holders.add(a["id"])
                        changed = True
    return target, holders


def ty_holds_statements(ty, holders_re):
    return bool(holders_re.search(ty))


def r1_single_emission(ctx, rule="C15.R1"):
    prog = ctx.prog
    _target, holders = contains_statements_adts(prog)
    import re
    names = sorted({prog.adts[h]["path"].split("::")[-1] for h in holders})
    holder_paths = re.compile(r"(?:^|::|<|\(|, |&)(?:%s)(?:$|>|,|\)|<)" % "|".join(names))
    n_clone_sites = 0
    for fn in sorted(emit.generator_fns(prog), key=lambda f: f.id):
        body = fn.body
        evs = emit.events(prog, fn)
        pv = mir.Prov(body)
        emitters = [e for e in evs.values() if e.kind in ("BLOCK", "STMT", "gen", "EXPR")]
        # clones of statement-bearing values
        for b, t in body.calls():
            if t.get("cpath") != "std::clone::Clone::clone":
                continue
            dest_ty = body.locals[t["d"][0]]["ty"]
            if not ty_holds_statements(dest_ty, holder_paths):
                continue
            n_clone_sites += 1
            src = mir.strip_all(pv.of_operand(t["args"][0]))
            what = mir.short_origin(src)
            key = "%s:%s:clone(%s)" % (rule, fn.name, what)
            loc = "%s:%s" % (fn.file, t.get("ln"))
            cloned_emit = []
            orig_emit = []
            for e in emitters:
                for a in e.args[1:]:
                    if _is_clone_of(a, src):
                        cloned_emit.append(e)
                    elif _derives_from(a, src):
                        orig_emit.append(e)
            if cloned_emit and orig_emit:
                ctx.violation(rule, key, loc,
                              "%s is emitted twice: its clone goes to %s (line %s) and the original "
                              "to %s (line %s); every generated label inside it (_prefix_pos) is "
                              "then defined twice and jumps bind to the wrong copy"
                              % (what, cloned_emit[0].show(), cloned_emit[0].line,
                                 orig_emit[0].show(), orig_emit[0].line),
                              {"function": fn.path})
            else:
                ctx.ok(rule, key, loc, "clone and original do not both reach an emitter")
    ctx.analysed_units(rule, clone_sites=n_clone_sites,
                       statement_holders=sorted(prog.adts[h]["path"].split("::")[-1] for h in holders))
    # blocks are emitted by value: without a clone a block cannot reach two emitters (ownership),
    # so a tree without any clone of a statement block is fine; the scan itself is an obligation and
    # the type test is exercised on two synthetic types so that it cannot silently stop matching
    for ty, want in (("std::vec::Vec<rusty_common::Positioned<rusty_parser::Statement>>", True),
                     ("rusty_parser::ConditionalBlock", True), ("std::string::String", False)):
        if bool(ty_holds_statements(ty, holder_paths)) != want:
            raise CheckError("%s: statement-holder type test failed on %s" % (rule, ty))
    ctx.ok(rule, rule + ":scan", "instruction_generator", "%d clones of statement-bearing values examined" % n_clone_sites)
    ctx.require(rule, 1)


def _is_clone_of(o, src):
    """o is (a projection of) clone(src)."""
    while True:
        if o[0] == "clone":
            return mir.strip_all(o[1]) == src or _derives_from(o[1], src)
        if o[0] in ("field", "downcast", "ref", "deref", "index", "cast"):
            o = o[1]
            continue
        if o[0] == "call" and o[2]:
            o = o[2][0]
            continue
        return False


def _derives_from(o, src):
    """o is src or a projection / conversion of src, without an intervening clone."""
    while True:
        if mir.strip_refs(o) == src:
            return True
        if o[0] in ("field", "downcast", "ref", "deref", "index", "cast"):
            o = o[1]
            continue
        if o[0] == "call" and o[2] and o[1].split("::")[-1] in (
                "into", "from", "at_pos", "at", "into_iter", "next", "unwrap", "element"):
            o = o[2][0]
            continue
        return False


def r2_halt_ret_monotone(ctx, rule="C15.R2"):
    prog = ctx.prog
    # last emission on every path
    for fname, want in (("visit_global_statements", "Halt"), ("subprogram_body", "PopRet")):
        fn = ctx.anchor_method("InstructionGenerator", fname)
        evs = emit.events(prog, fn)
        paths = emit.linear_paths(fn.body, evs)
        if not paths:
            raise CheckError("%s: no paths" % fname)
        bad = []
        for seq in paths:
            em = [e for e in seq if e.kind != "mark"]
            has_block = any(e.kind == "BLOCK" for e in em)
            last = em[-1] if em else None
            if not (has_block and last is not None and last.kind == "push" and last.instr == want):
                bad.append([e.show() for e in seq])
        ctx.decide(not bad, rule, "%s:%s:ends-in-%s" % (rule, fname, want), fn.loc,
                   "every path emits the block and then %s last" % want,
                   "%s has a path whose last emitted instruction is not %s: %s" % (fname, want, bad[:1]))
    # every procedure body goes through subprogram_body
    for fname in ("visit_function", "visit_sub"):
        fn = ctx.anchor_method("InstructionGenerator", fname)
        evs = emit.events(prog, fn)
        paths = emit.linear_paths(fn.body, evs)
        ok = all(seq and seq[-1].kind == "gen" and seq[-1].callee.name == "subprogram_body"
                 for seq in paths)
        ctx.decide(ok, rule, "%s:%s:body-last" % (rule, fname), fn.loc,
                   "subprogram_body is the last emission",
                   "%s does not end with subprogram_body on every path" % fname)
    # append-only vectors
    allowed = {"instructions": ("push", "len", "iter_mut", "iter", "index", "deref"),
               "statement_addresses": ("push",)}
    for field, ok_methods in allowed.items():
        offenders = []
        n = 0
        for fn in prog.fns.values():
            if fn.crate != "rusty_basic" or "instruction_generator" not in fn.id:
                continue
            pv = mir.Prov(fn.body)
            for b, t in fn.body.calls():
                if common.receiver_field_of(pv, fn.body, t, "::InstructionGenerator") != field:
                    continue
                n += 1
                name = mir.callee_path(t).split("::")[-1]
                if name not in ok_methods:
                    offenders.append("%s calls %s" % (fn.name, name))
        ctx.decide(not offenders and n > 0, rule, "%s:%s:append-only" % (rule, field), "instruction_generator",
                   "%d uses, all in %s" % (n, ok_methods),
                   "%s is mutated other than by push: %s" % (field, offenders))
    mark = ctx.anchor_method("InstructionGenerator", "mark_statement_address")
    pv = mir.Prov(mark.body)
    good = False
    for b, t in mark.body.calls():
        if mir.callee_path(t).split("::")[-1] == "push" and common.receiver_field(pv, t) == "statement_addresses":
            o = pv.of_operand(t["args"][1])
            if o[0] == "call" and o[1].split("::")[-1] == "len" and o[2]:
                r = mir.strip_refs(o[2][0])
                if r[0] == "field" and r[2] == "instructions":
                    good = True
    ctx.decide(good, rule, rule + ":mark:records-instructions-len", mark.loc,
               "statement_addresses.push(instructions.len())",
               "mark_statement_address no longer records instructions.len(): addresses are not "
               "ascending instruction indexes")
    ctx.require(rule, 7)


def _root_adt(body, op):
    p = mir.op_place(op)
    if p is None:
        return None
    return body.locals[p[0]].get("adt")


def r4_template_depths(ctx, rule="C15.R4"):
    prog = ctx.prog
    T = templates.Templates(prog)
    # cross-check of the derived per-instruction effects against the frozen table
    frozen = None
    try:
        from .. import vm
        frozen = vm.frozen_table()
    except Exception as e:  # noqa
        raise CheckError("tables/stack_effects.json unreadable: %s" % e)
    from .. import vm as vmmod
    derived = {k: vmmod.effects_as_dict(v) for k, v in T.full_effects.items()}
    for instr in sorted(set(frozen) | set(derived)):
        key = "%s:vm-effect:%s" % (rule, instr)
        if instr not in derived:
            ctx.ok(rule, key, T.interpret_one.loc, "instruction no longer exists")
            continue
        if instr not in frozen:
            # a new instruction: its derived effect is used as is
            ctx.ok(rule, key, T.interpret_one.loc, "new instruction, derived effect %s" % derived[instr])
            continue
        if derived[instr] != frozen[instr]:
            ctx.notes.append("VM stack effect of %s changed: %s (was %s); the template analysis "
                             "uses the derived value" % (instr, derived[instr], frozen[instr]))
        if instr in templates.PAIRED_WITH_ERROR_EDGE:
            # RESUME* leave the handler: the templates treat them as neutral (the handler context they pop
            # was pushed by the error edge, C05.R3), and RESUME label may in addition leave every active
            # call - an amount that depends on the run.  What matters here: each path pops the handler's context
            pops = [d.get("ctx", 0) for d in derived[instr]]
            ctx.decide(bool(pops) and max(pops) <= -1, rule, key, T.interpret_one.loc,
                       "every path pops at least the handler's context (%d effects)" % len(pops),
                       "a non-failing path of the %s arm does not pop the context the error edge pushed: effects %s"
                       % (instr, derived[instr][:4]))
            continue
        ctx.decide(len(derived[instr]) <= 1, rule, key, T.interpret_one.loc, "effect %s" % derived[instr],
                   "the VM arm of Instruction::%s changes the stacks by different amounts on different "
                   "non-failing paths (%s): the generator's templates assume one fixed effect per "
                   "instruction, so a stack leaks or underflows on one of the paths" % (instr, derived[instr]))
    stmt = prog.method("InstructionGenerator", "visit", trait=emit.STATEMENT_TRAIT_REF)
    block = prog.method("InstructionGenerator", "visit", trait=emit.STATEMENTS_TRAIT_REF)
    zero = T.cf.zero
    roots = []
    for b, e in sorted(T.evs(stmt).items()):
        if e.callee is not None and e.kind in ("gen", "EXPR"):
            roots.append((e.callee, flow.const_args_of(stmt.body.term(b))))
    for name in ("generate_expression_instructions", "generate_expression_instructions_casting",
                 "visit_global_statements"):
        f = ctx.anchor_method("InstructionGenerator", name)
        roots.append((f, tuple([None] * f.argc)))
    roots.append((stmt, (None, None)))
    roots.append((block, (None, None)))
    seen = set()
    for f, ca in roots:
        if (f.id, ca) in seen:
            continue
        seen.add((f.id, ca))
        s = T.cf.summary(f, ca)
        key = "%s:net:%s" % (rule, f.name if f not in (stmt, block) else
                             ("visit<Statement>" if f is stmt else "visit<Statements>"))
        if (f.id, ca) in T.cf.unbounded_fns:
            ctx.violation(rule, key, f.loc,
                          "the emitted code of %s changes a stack depth by an amount that grows "
                          "with a generator loop (net effects %s)" % (f.name, sorted(s)[:6]))
            continue
        if not s:
            ctx.unknown(rule, key, f.loc, "no completing path found")
            continue
        ctx.decide(s == frozenset([zero]), rule, key, f.loc, "net effect balanced on value/register/context stacks",
                   "statement-level emitter %s leaves the stacks unbalanced on some path: %s"
                   % (f.name, ", ".join(templates.vec_str(v) for v in sorted(s))))
        low = T.lowest(f, ca)
        ctx.decide(min(low) >= 0, rule, key.replace(":net:", ":never-negative:"), f.loc,
                   "depth never drops below the construct's entry depth",
                   "%s pops below its entry depth: lowest relative depth %s" % (f.name, templates.vec_str(low)))
    # helper emitters must be single-valued
    for (fid, ca), s in sorted(T.cf.memo.items(), key=lambda kv: (kv[0][0], repr(kv[0][1]))):
        f = prog.fns[fid]
        if (fid, ca) in seen:
            continue
        key = "%s:single-valued:%s%s" % (rule, f.name, _ca_str(ca))
        ctx.decide(len(s) == 1 and (fid, ca) not in T.cf.unbounded_fns, rule, key, f.loc,
                   "net %s" % ", ".join(templates.vec_str(v) for v in sorted(s)),
                   "helper emitter %s has path-dependent net stack effects %s"
                   % (f.name, ", ".join(templates.vec_str(v) for v in sorted(s))))
    # label / jump agreement inside each construct
    computed = 0
    for f, ca in roots:
        if f in (stmt, block):
            continue
        sites = T.sites(f, ca)
        by_name = {}
        for kind, name, depths, f2, line in sites:
            if name is None:
                computed += 1
                continue
            by_name.setdefault(name, []).append((kind, depths, f2, line))
        for name, lst in sorted(by_name.items()):
            key = "%s:label-depth:%s:%s" % (rule, f.name, name)
            all_depths = set()
            for kind, depths, f2, line in lst:
                all_depths |= set(depths)
            labels_n = sum(1 for k, _d, _f, _l in lst if k == "label")
            loc = "%s:%s" % (lst[0][2].file, lst[0][3])
            if len(all_depths) <= 1:
                ctx.ok(rule, key, loc, "%d sites at depth %s" % (len(lst), [templates.vec_str(d) for d in all_depths]))
            else:
                desc = "; ".join("%s at %s:%s depth %s" % (k, f2.name, line, "/".join(templates.vec_str(d) for d in sorted(depths)))
                                 for k, depths, f2, line in lst)
                ctx.violation(rule, key, loc,
                              "jump and label `%s` are emitted at different stack depths (%s): "
                              "taking the jump skips the pop, so the stack grows by one each time"
                              % (name, desc), {"root": f.path})
    if T.unknown_pushes:
        for p, line in T.unknown_pushes[:5]:
            ctx.unknown(rule, "%s:unknown-push:%s" % (rule, p.split("::")[-1]), "%s:%s" % (p, line),
                        "push() of an instruction that is not a literal aggregate")
    ctx.analysed_units(rule, roots=len(seen), helper_summaries=len(T.cf.memo),
                       computed_label_sites_not_compared=computed,
                       instruction_effects={k: v for k, v in derived.items() if v != [{}]})
    ctx.require(rule, 60, max_unknown=0)


def _ca_str(ca):
    if all(c is None for c in ca):
        return ""
    return "[" + ",".join("_" if c is None else str(c) for c in ca) + "]"


def register_effects(prog):
    """{Instruction variant: (registers read, registers written)} derived from the VM: the
    Registers methods (field reads / writes of a, b, c, d) reachable from each arm of interpret_one."""
    ms = [f for f in prog.methods_of("Registers") if f.kind != "closure"]
    if len(ms) < 8:
        raise CheckError("Registers methods not found")
    eff = {}
    for f in ms:
        w = common.field_writes(f.body) & set("abcd")
        r = {k for k in "abcd"
             if any(kind in ("read", "ref", "arg") for _b, kind in common.places_mentioning_field(f.body, k))}
        eff[f.id] = (r, w)
    one = prog.method("Interpreter", "interpret_one")
    _sw, regions = c05._arm_regions(prog, one, "::Instruction")
    table = {}
    for v, region in regions.items():
        callees = {mir.callee_of(t) for _b, t in mir.region_calls(one.body, region)}
        roots = [prog.fns[c] for c in callees if c in prog.fns and prog.fns[c].crate == "rusty_basic"]
        reach = prog.reachable_from(roots) if roots else set()
        rd, wr = set(), set()
        for fid in reach | callees:
            if fid in eff:
                rd |= eff[fid][0]
                wr |= eff[fid][1]
        table[v] = (rd, wr)
    return table


# instructions whose only effect is a result in A
BINARY_RESULT = ("Less", "LessOrEqual", "Equal", "GreaterOrEqual", "Greater", "NotEqual",
                 "Plus", "Minus", "Multiply", "Divide", "Modulo", "And", "Or")
# expression evaluation uses A (result) and B (second operand of a binary operator); it can also call
# a user FUNCTION, whose own FOR loops set C and D in the caller's register frame (a call pushes no
# frame): an expression may overwrite every register
EXPR_CLOBBERS = {"a", "b", "c", "d"}
ALL_REGS = {"a", "b", "c", "d"}


def r8_register_liveness(ctx, rule="C15.R8"):
    """A register that an emitted instruction reads (B of a comparison / arithmetic instruction, C
    and D of the FOR template) must hold what the template put there: on no emission path may
    user code that can overwrite the register be emitted between the instruction that sets it and
    the instruction that reads it.  Expression code overwrites A and B; statement blocks overwrite
    everything unless bracketed by PushRegisters / PopRegisters.  The register reads and writes of
    each instruction are derived from the VM."""
    prog = ctx.prog
    table = register_effects(prog)
    readers_b = {v for v, (r, _w) in table.items() if "b" in r}
    if len(readers_b) < 10 or "CopyAToB" not in table:
        raise CheckError("%s: register effects not derived (%d readers of B)" % (rule, len(readers_b)))
    T = templates.Templates(prog)
    import json
    import os
    from ..core import VERIF
    exc_table = json.load(open(os.path.join(VERIF, "tables", "register_clobber_exceptions.json")))
    exc = exc_table["a_only_generators"]
    exc_none = exc_table.get("no_register_generators", {})
    gens = {f.id: f for f in emit.generator_fns(prog)}
    summaries = {}
    a_firsts = {}
    pendings = {}
    entry_reads = {}

    def transfer(e, depth_holder):
        """(reads, {reg: status}) of one event; status 'set' / 'clobbered'"""
        if e.kind == "push" and e.instr in table:
            rd, wr = table[e.instr]
            return rd - {"a"}, {r: "set" for r in wr}
        if e.kind == "EXPR":
            cl = EXPR_CLOBBERS if e.callee.name not in exc and not common.evaluates_for_counter(prog, T, cur_fn[0], e) else {"a"}
            return set(), {r: "clobbered" for r in cl}
        if e.kind in ("BLOCK", "STMT"):
            return set(), ({} if depth_holder[0] > 0 else {r: "clobbered" for r in ALL_REGS})
        if e.kind == "gen":
            if e.callee.name.startswith("generate_store") and common.evaluates_for_counter(prog, T, cur_fn[0], e):
                return {"a"} - {"a"}, {}      # a store into the plain counter variable evaluates nothing
            eff = dict(summary(e.callee))
            return set(entry_reads.get(e.callee.id, ())), eff
        return set(), {}

    cur_fn = [None]

    def flow(f, on_read=None, on_dead=None):
        """may-dataflow over the emitted code of one emission path: fall-through and jumps to the
        labels of the same path.  Returns the merged exit state {reg: set of statuses}."""
        exit_state = {}
        cur_fn[0] = f
        for seq in emit.linear_paths(f.body, T.evs(f)):
            seq = [e for e in seq if e.kind != "mark"]
            labels_at = {}
            for i, e in enumerate(seq):
                if e.kind == "label" and e.name is not None:
                    labels_at.setdefault(e.name, i)
            # PushRegisters / PopRegisters nesting is lexical in the templates (C02.R3)
            depth = []
            d = 0
            for e in seq:
                if e.kind == "push" and e.instr == "PushRegisters":
                    d += 1
                depth.append(d)
                if e.kind == "push" and e.instr == "PopRegisters":
                    d -= 1
            n_ev = len(seq)
            states = [None] * (n_ev + 1)
            states[0] = {}
            work = [0]
            while work:
                i = work.pop()
                if i >= n_ev:
                    continue
                st = states[i]
                e = seq[i]
                cur_fn[0] = f
                reads, effect = transfer(e, [depth[i]])
                for r in reads:
                    if r not in st:
                        # the caller's value is read: part of the summary of f
                        entry_reads.setdefault(f.id, set()).add(r)
                if on_read is not None:
                    for r in sorted(reads):
                        if "clobbered" in st.get(r, ()):
                            on_read(e, r, st[r + "#by"])
                    # a comparison / arithmetic result in A that is overwritten before anything read it
                    pend = st.get("a#pending")
                    reads_a = (e.kind == "push" and "a" in table.get(e.instr, (set(), set()))[0]) or \
                        e.kind in ("jump_if_false", "BLOCK", "STMT") or \
                        (e.kind == "gen" and a_first(e.callee) != "write")
                    if pend and not reads_a and "a" in effect and on_dead is not None:
                        on_dead(e, pend)
                new = {k: (set(v) if not (k.endswith("#by") or k.endswith("#pending") or k.endswith("#first")) else v)
                       for k, v in st.items()}
                for r, status in effect.items():
                    new[r] = {status}
                    new[r + "#by"] = (e.show(), e.line)
                touches_a = (e.kind == "push" and ("a" in table.get(e.instr, (set(), set()))[0] or "a" in effect)) \
                    or e.kind in ("jump_if_false", "gen", "BLOCK", "STMT", "EXPR")
                if "a#first" not in new and touches_a:
                    reads_first = (e.kind == "push" and "a" in table.get(e.instr, (set(), set()))[0]) or \
                        e.kind in ("jump_if_false", "BLOCK", "STMT") or \
                        (e.kind == "gen" and a_first(e.callee) != "write")
                    new["a#first"] = "read" if reads_first else "write"
                if e.kind == "push" and e.instr in BINARY_RESULT:
                    new["a#pending"] = (e.instr, e.line)
                elif e.kind == "gen" and ends_pending(e.callee):
                    new["a#pending"] = (ends_pending(e.callee), e.line)
                elif "a#pending" in new and touches_a:
                    # read or overwritten: either way no longer pending
                    new.pop("a#pending", None)
                succs = []
                if e.kind in ("jump", "jump_if_false") and e.name in labels_at:
                    succs.append(labels_at[e.name])
                if e.kind != "jump":
                    succs.append(i + 1)
                for j in succs:
                    old = states[j]
                    if old is None:
                        states[j] = new
                        work.append(j)
                    else:
                        merged = dict(old)
                        changed = False
                        for k, v in new.items():
                            if k.endswith("#pending") or k.endswith("#first"):
                                if k.endswith("#first") and merged.get(k) != v:
                                    # differs between paths: a path that reads first makes the callee a reader
                                    if merged.get(k) is None or v == "read":
                                        merged[k] = v if merged.get(k) in (None, "write") and v == "read" else merged.get(k, v)
                                continue
                            if k.endswith("#by"):
                                if k not in merged:
                                    merged[k] = v
                                continue
                            u = set(merged.get(k, set())) | v
                            if u != merged.get(k):
                                merged[k] = u
                                changed = True
                                if "clobbered" in v:
                                    merged[k + "#by"] = new.get(k + "#by")
                        if "a#pending" in new and "a#pending" not in merged:
                            # a result that is unread on one incoming path is still unread on that path
                            merged["a#pending"] = new["a#pending"]
                            changed = True
                        if changed:
                            states[j] = merged
                            work.append(j)
            end = states[n_ev] or {}
            for k, v in end.items():
                if k.endswith("#first") or k.endswith("#pending"):
                    exit_state.setdefault(k, set()).add(v)
                elif not k.endswith("#by"):
                    exit_state.setdefault(k, set()).update(v)
            if "a#first" not in end:
                exit_state.setdefault("a#first", set()).add(None)
            if "a#pending" not in end:
                exit_state.setdefault("a#pending", set()).add(None)
        return exit_state

    def summary(f, _seen=[]):
        if f.id in summaries:
            return summaries[f.id]
        if f.name in exc:
            summaries[f.id] = {"a": "set"}
            a_firsts[f.id] = "write"
            pendings[f.id] = None
            return summaries[f.id]
        if f.name in exc_none:
            summaries[f.id] = {}
            a_firsts[f.id] = "read"
            pendings[f.id] = None
            return summaries[f.id]
        if f.id in _seen:
            return {}
        _seen.append(f.id)
        try:
            ex = flow(f)
        finally:
            _seen.pop()
        out = {r: ("clobbered" if "clobbered" in v else "set") for r, v in ex.items() if "#" not in r}
        firsts = ex.get("a#first", {None})
        a_firsts[f.id] = "write" if firsts == {"write"} else "read"
        pend = ex.get("a#pending", {None})
        pendings[f.id] = "/".join(sorted({p[0] for p in pend})) if None not in pend else None
        summaries[f.id] = out
        return out

    def a_first(f):
        summary(f)
        return a_firsts.get(f.id, "read")

    def ends_pending(f):
        summary(f)
        return pendings.get(f.id)

    n = 0
    for f in sorted(gens.values(), key=lambda x: x.id):
        evs = T.evs(f)
        if not any(e.kind == "push" and (table.get(e.instr, (set(), set()))[0] - {"a"}) for e in evs.values()):
            continue
        bad = []

        def on_read(e, r, by):
            bad.append("%s (line %s) can read register %s after %s (line %s) overwrote it" % (
                e.instr, e.line, r.upper(), by[0], by[1]))
        def on_dead(e, pend):
            bad.append("the result of %s (line %s) in register A is overwritten by %s (line %s) before anything "
                       "reads it" % (pend[0], pend[1], e.show(), e.line))
        flow(f, on_read, on_dead)
        n += 1
        ctx.decide(not bad, rule, "%s:%s" % (rule, f.name), f.loc,
                   "every register read follows its own definition",
                   "%s: %s - the instruction compares / combines with whatever the intervening code left in the "
                   "register (e.g. `FOR i = 1 TO 5 STEP s * 2` tested the step against the operand of `*`)"
                   % (f.name, bad[0] if bad else ""))
    ctx.analysed_units(rule, templates=n, readers_of_b=sorted(readers_b))
    ctx.require(rule, 3)


def run(ctx):
    common.install(ctx)
    r1_single_emission(ctx)
    r2_halt_ret_monotone(ctx)
    labels.r_label_tables(ctx, "C15.R3")
    r4_template_depths(ctx)
    c05.r2_mark_after_block(ctx, "C15.R5")
    common.r_stack_discipline(ctx, "C15.R6")
    from . import c02
    c02.r5_label_names_injective(ctx, "C15.R7")
    r8_register_liveness(ctx)
    c05.r6_error_unwinding(ctx, "C15.R9")
    c05.r11_resume_label_abandons_active_calls(ctx, "C15.R10")
    # every value enqueued for the by-reference write-back is dequeued: the call templates stash and write back
    # the same argument list, in the prescribed order
    from . import c03
    c03.r4_activation_pairing(ctx, "C15.R11")
    # a call that ends restores the VM stacks to the depths recorded when it began: what the callee left parked (a
    # value, a register frame, a GOSUB) does not reach the caller (shared with C05.R5)
    c05.r5_register_frames(ctx, "C15.R12")
