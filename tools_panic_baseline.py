#!/usr/bin/env python3
"""maintenance helper (not used by checks): add the panic sites that are reachable today and are in
no class to the unaudited baseline of tables/panic_baseline.json (accepted risk U).  Run only after
triaging the new sites by hand; audited (J2) entries are edited in the table directly."""
import json, sys
sys.path.insert(0, '/verif')
from rbv import facts, mir
from rbv.rules import panics
prog = mir.Program(facts.load_workspace())
p = '/verif/tables/panic_baseline.json'
t = json.load(open(p))
KF = {f['key'].split(':', 1)[1] for f in json.load(open('/verif/known_findings.json'))['findings'] if f['key'].startswith(('C07.R1:', 'C08.R6:'))}
for scope in ('frontend', 'backend'):
    sites, _n = panics.enumerate_sites(prog, scope)
    base = t[scope]
    known = set(base['unaudited']) | set(base['audited'])
    add = []
    for key, (fn, line, b, kind) in sorted(sites.items()):
        if key in known or key in KF or panics.discharged_locally(prog, fn, b, kind):
            continue
        add.append(key)
    if '--prune' in sys.argv:
        base['unaudited'] = [k for k in base['unaudited'] if k in sites]
    base['unaudited'] = sorted(set(base['unaudited']) | set(add))
    base['floor'] = int(0.8 * len(sites))
    print(scope, 'sites', len(sites), 'added', len(add))
    for a in add: print('   +', a)
json.dump(t, open(p, 'w'), indent=1)
