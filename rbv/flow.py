"""Counter dataflow: for a function (or a region of it) compute the set of net effects on a
vector of counters over all non-panicking paths, with function summaries (memoised, fixpoint for
recursion) and specialisation on constant bool/int arguments.  Used for VM stack effects per
instruction and for the depth analysis of the generator's templates (C15.R4)."""
from . import mir

CAP = 6
_TAGGED_ADTS = ("core::option::Option", "core::result::Result")
_TAG_DISCR = {"None": 0, "Some": 1, "Ok": 0, "Err": 1}


def vadd(a, b):
    return tuple(x + y for x, y in zip(a, b))


class Result:
    def __init__(self):
        self.at = {}           # bb -> set of (vec, err) at block entry
        self.exits = set()     # (vec, err) at return
        self.unbounded = False
        self.sites = []        # (bb, event, set of vec at the site) recorded by the client
        self.tagged_exits = set()   # (vec, tag of the returned Option / Result or None), success paths


class CounterFlow:
    def __init__(self, prog, ndims, call_effect, follow=lambda fn: True):
        """call_effect(fn, body, b, t, pv) -> ('delta', [vec...]) | ('callee', Fn, const_args) |
        None (no effect).  follow(fn): whether to summarise workspace callee fn."""
        self.prog = prog
        self.n = ndims
        self.zero = tuple([0] * ndims)
        self.call_effect = call_effect
        self.follow = follow
        self.memo = {}
        self.in_progress = {}
        self.stack = []
        self.lowlink = []
        self.unbounded_fns = set()
        self.tagged = {}
        self.tagged_tmp = {}
        self._body_cache = {}

    # ------------------------------------------------------------------
    BUDGET = 60000      # analyses per instance; the checks need a few hundred on the tree as it is

    def summary(self, fn, const_args=()):
        """frozenset of net vectors over success (non-error, non-panicking) paths.  Recursive
        cycles are solved by fixpoint iteration from the empty set at the cycle head; a value
        computed while depending on an unfinished head is not memoised."""
        key = (fn.id, tuple(const_args))
        if key in self.memo:
            return self.memo[key]
        if key in self.in_progress:
            idx = self.stack.index(key)
            self.lowlink[-1] = min(self.lowlink[-1], idx)
            return self.in_progress[key]
        my_idx = len(self.stack)
        self.stack.append(key)
        self.in_progress[key] = frozenset()
        low = my_idx
        while True:
            self.lowlink.append(my_idx)
            self._analyses = getattr(self, "_analyses", 0) + 1
            if self._analyses > self.BUDGET:
                from .core import CheckError
                raise CheckError("the counter dataflow over the emitted templates does not converge within its budget "
                                 "(%d analyses; last: %s): fail closed rather than run on" % (self._analyses, fn.path.split("::", 1)[-1][:80]))
            res = self.analyze(fn, const_args)
            low = min(low, self.lowlink.pop())
            ok = frozenset(v for v, err in res.exits if not err)
            if res.unbounded:
                self.unbounded_fns.add(key)
            self.tagged_tmp[key] = frozenset(res.tagged_exits)
            if ok == self.in_progress[key]:
                break
            self.in_progress[key] = ok
        del self.in_progress[key]
        self.stack.pop()
        if low >= my_idx:
            self.memo[key] = ok
            self.tagged[key] = self.tagged_tmp[key]
        elif self.lowlink:
            self.lowlink[-1] = min(self.lowlink[-1], low)
        return ok

    def summary_tagged(self, fn, const_args=()):
        """frozenset of (net vector, tag) over success paths; tag is the Option / Result variant the
        path returns ('Some' / 'None' / 'Ok' / 'Err') when that is visible, else None.  Lets a caller that
        switches on the result follow, on each edge, only the callee paths that produce that variant
        (`match self.take() { Some(x) => .., None => return Err(..) }`)."""
        key = (fn.id, tuple(const_args))
        ok = self.summary(fn, const_args)
        t = self.tagged.get(key)
        if t is None:
            return frozenset((v, None) for v in ok)
        return t

    # ------------------------------------------------------------------
    def analyze(self, fn, const_args=(), start=0, region=None, body=None, on_event=None):
        body = body or fn.body
        pv = mir.Prov(body)
        res = Result()
        state = {start: {(self.zero, False, frozenset(), None)}}
        work = [start]
        effects_cache = {}

        def block_effect(b):
            """list of (vec, tag) or None"""
            if b in effects_cache:
                return effects_cache[b]
            t = body.term(b)
            eff = None
            if t["k"] == "call":
                ce = self.call_effect(fn, body, b, t, pv)
                if ce is not None:
                    if ce[0] == "delta":
                        eff = [(d, None) for d in ce[1]]
                    elif ce[0] == "delta_tagged":
                        if b in relevant:
                            eff = list(ce[1])
                        else:
                            # the result is unwrapped or dropped, not looked at: the succeeding variant
                            eff = [(d, None) for d, tag in ce[1] if tag in ("Some", "Ok")]
                    elif ce[0] == "callee":
                        eff = sorted(self.summary_tagged(ce[1], ce[2]), key=lambda x: (x[0], str(x[1])))
                        # a callee without any success path (always panics / unresolved recursion)
                        # contributes nothing on this path
            effects_cache[b] = eff
            return eff

        def marks_error(b):
            blk = body.blocks[b]
            for s in blk["s"]:
                if s["k"] == "assign" and s["r"]["k"] == "agg" and s["r"].get("a") == "adt" \
                        and s["r"].get("adt") == "core::result::Result" and s["r"].get("variant") == "Err":
                    return True
            t = blk["t"]
            if t["k"] == "call" and (t.get("cpath") or "").endswith("FromResidual::from_residual"):
                return True
            return False

        def ret_update(b, ret, tags, call_tag):
            """tag of the return place after block b"""
            blk = body.blocks[b]
            for s in blk["s"]:
                if s["k"] != "assign" or s["p"][0] != 0 or s["p"][1]:
                    continue
                r = s["r"]
                ret = None
                if r["k"] == "agg" and r.get("a") == "adt" and r.get("adt") in _TAGGED_ADTS:
                    ret = r.get("variant")
                elif r["k"] == "use":
                    o = mir.strip_refs(pv.of_operand(r["o"]))
                    if o[0] == "call":
                        ret = dict(tags).get(o[3])
            t = blk["t"]
            if t["k"] == "call" and t.get("d") and t["d"][0] == 0 and not t["d"][1]:
                ret = call_tag
            return ret

        def switch_tag_block(t):
            """call block whose tagged result the switch discriminates - or ("loc", L) when it discriminates a
            local that is assigned on several paths (`let r = if c { v.pop() } else { None }; match r ..`) -
            or None"""
            p = mir.op_place(t["o"])
            if p is None:
                return None
            o = pv.of_place(p)
            if o[0] != "discr":
                return None
            o = mir.strip_refs(o[1])
            if o[0] == "call":
                return o[3]
            if o[0] == "local":
                return ("loc", o[1])
            return None

        cache = self._body_cache.get(id(body))
        if cache is None:
            relevant = set()
            sw_cb = {}
            for bb in range(body.nblocks):
                tt = body.term(bb)
                if tt["k"] == "switch":
                    cb0 = switch_tag_block(tt)
                    sw_cb[bb] = cb0
                    if cb0 is not None:
                        relevant.add(cb0)
            for bb in range(body.nblocks):
                for st in body.blocks[bb]["s"]:
                    if st["k"] == "assign" and st["p"][0] == 0 and not st["p"][1] and st["r"]["k"] == "use":
                        o0 = mir.strip_refs(pv.of_operand(st["r"]["o"]))
                        if o0[0] == "call":
                            relevant.add(o0[3])
                tt = body.term(bb)
                if tt["k"] == "call" and tt.get("d") and tt["d"][0] == 0 and not tt["d"][1]:
                    relevant.add(bb)
            phi_locals = {cb0[1] for cb0 in sw_cb.values() if isinstance(cb0, tuple)}
            for bb in range(body.nblocks):
                tt = body.term(bb)
                if tt["k"] == "call" and tt.get("d") and not tt["d"][1] and tt["d"][0] in phi_locals:
                    relevant.add(bb)
            cache = (relevant, sw_cb, body, phi_locals)
            self._body_cache[id(body)] = cache
        relevant, sw_cb, _keep, phi_locals = cache

        steps = 0
        while work:
            b = work.pop()
            steps += 1
            if steps > 20000:
                res.unbounded = True
                break
            cur = state.get(b, set())
            res.at[b] = {(v, e) for v, e, _tg, _rt in cur}
            eff = block_effect(b)
            err_here = marks_error(b)
            out = set()
            for v, e, tags, ret in cur:
                if eff is None:
                    items = [(v, tags, None)]
                else:
                    items = []
                    for d, tag in eff:
                        tg = tags
                        if tag is not None and b in relevant:
                            tg = frozenset(x for x in tags if x[0] != b) | {(b, tag)}
                        items.append((vadd(v, d), tg, tag))
                for v2, tg, call_tag in items:
                    if phi_locals:
                        tg = self._phi_tags(body, b, tg, call_tag, phi_locals)
                    out.add((v2, e or err_here, tg, ret_update(b, ret, tg, call_tag)))
            if on_event is not None:
                on_event(b, {(v, e) for v, e, _tg, _rt in cur}, {(v, e) for v, e, _tg, _rt in out})
            t = body.term(b)
            if t["k"] == "return":
                res.exits |= {(v, e) for v, e, _tg, _rt in out}
                res.tagged_exits |= {(v, rt) for v, e, _tg, rt in out if not e}
                continue
            succ = body.succ(b)
            per_succ = {x: out for x in succ}
            if t["k"] == "switch":
                succ = self._feasible(body, pv, t, const_args, succ)
                per_succ = {x: out for x in succ}
                cb = sw_cb.get(b)
                if cb is not None:
                    per_succ = {x: set() for x in succ}
                    for el in out:
                        tag = dict(el[2]).get(cb)
                        dv = _TAG_DISCR.get(tag)
                        if dv is None:
                            tgts = succ
                        else:
                            hit = [tgt for val, tgt in t["ts"] if val == dv]
                            tgts = hit[:1] if hit else [t["else"]]
                        for x in tgts:
                            if x in per_succ:
                                per_succ[x].add(el)
            for s in succ:
                o_s = per_succ.get(s, out)
                if not o_s:
                    continue
                if region is not None and s not in region:
                    res.exits |= {(v, e) for v, e, _tg, _rt in o_s}
                    continue
                old = state.get(s, set())
                new = old | o_s
                if len(new) > CAP * 4:
                    res.unbounded = True
                    new = old
                if new != old:
                    state[s] = new
                    if s not in work:
                        work.append(s)
        return res

    @staticmethod
    def _phi_tags(body, b, tags, call_tag, phi_locals):
        """tags of the locals that a later switch discriminates, after block b: set by an Option / Result
        aggregate, copied by a move, or taken from the tagged result of the call that ends the block"""
        blk = body.blocks[b]
        d = dict(tags)
        changed = False
        for st in blk["s"]:
            if st["k"] != "assign" or st["p"][1] or st["p"][0] not in phi_locals:
                continue
            r = st["r"]
            key = ("loc", st["p"][0])
            if r["k"] == "agg" and r.get("a") == "adt" and r.get("adt") in _TAGGED_ADTS:
                d[key] = r.get("variant")
                changed = True
            elif r["k"] == "use":
                q = mir.op_place(r["o"])
                src = d.get(("loc", q[0])) if q is not None and not q[1] else None
                d[key] = src
                changed = True
            else:
                d[key] = None
                changed = True
        t = blk["t"]
        if t["k"] == "call" and t.get("d") and not t["d"][1] and t["d"][0] in phi_locals:
            d[("loc", t["d"][0])] = call_tag
            changed = True
        if not changed:
            return tags
        return frozenset((k, v) for k, v in d.items() if v is not None)

    def _feasible(self, body, pv, t, const_args, succ):
        p = mir.op_place(t["o"])
        if p is None or not const_args:
            return succ
        o = pv.of_place(p)
        while o[0] in ("cast",):
            o = o[1]
        if o[0] == "param" and o[1] < len(const_args) and const_args[o[1]] is not None:
            val = const_args[o[1]]
            for v, tgt in t["ts"]:
                if v == val:
                    return [tgt]
            return [t["else"]]
        return succ


def const_args_of(t):
    out = []
    for a in t["args"]:
        k = a.get("k")
        if k is not None and "int" in k:
            out.append(k["int"])
        else:
            out.append(None)
    return tuple(out)
