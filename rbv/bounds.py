"""Provability of implicit panic sites (slice / array bounds checks, integer division by zero).

rustc lowers `a[i]` on slices and arrays to `assert(i < len)` and integer `/`, `%` to
`assert(divisor != 0)`.  For one such assert this module collects the comparisons that hold on
every path reaching it - the taken edges of the switches that dominate the site, plus the bounds of
`for x in a..b` items - checks that the variables they mention are not redefined between the
comparison and the site, and decides with the zone domain of sympath.Facts whether the asserted
condition follows.  No path is executed; an unprovable site is simply reported as such.
"""
from . import mir
from .sympath import Facts, C, mk_add, mk_lt, mk_eq, mk_not, lin

UNSIGNED = ("usize", "u8", "u16", "u32", "u64", "u128")
SIGNED = ("isize", "i8", "i16", "i32", "i64", "i128")
LEN_CALLS = ("::len",)


class Exprs:
    """Terms of a body's locals: single-definition temporaries are expanded, everything else is a
    variable ('var', local).  range_items: var -> (start term, end term) for `for` items."""

    def __init__(self, prog, fn):
        self.prog = prog
        self.fn = fn
        self.body = fn.body
        self.memo = {}
        self.range_items = {}
        self.len_floor = {}      # item var of chunks(n) / windows(n) / chunks_exact(n) -> minimum length
        self.def_blocks = {}     # term var local -> blocks of the temps expanded to reach it

    def ty(self, local):
        return self.body.locals[local]["ty"]

    def of_operand(self, op, depth=0):
        p = mir.op_place(op)
        if p is not None:
            return self.of_place(p, depth)
        k = op.get("k") or {}
        if "int" in k:
            if k.get("ty") == "bool":
                return C(bool(k["int"]))
            return C(k["int"])
        if k.get("s") in ("true", "false"):
            return C(k["s"] == "true")
        return ("k", k.get("s", "?"))

    def of_place(self, place, depth=0):
        l, proj = place
        base = self.of_local(l, depth)
        for e in proj:
            if e == "*":
                base = base[1] if base[0] == "ref" else ("deref", base)
            elif isinstance(e, dict) and "f" in e:
                n = e.get("n", e["f"])
                if base[0] == "tuple" and str(n).isdigit() and int(n) < len(base[1]):
                    base = base[1][int(n)]
                elif base[0] == "some" and str(n) == "0":
                    base = base[1]
                else:
                    base = ("fld", base, str(n))
            elif isinstance(e, dict) and "d" in e:
                pass
            elif isinstance(e, dict) and "i" in e:
                base = ("idx", base, self.of_local(e["i"], depth))
            else:
                base = ("proj", base, str(e))
        return base

    def of_local(self, l, depth=0):
        if l in self.memo:
            return self.memo[l]
        if depth > 30 or l <= self.fn.argc and l != 0:
            return ("var", l)
        d = self.body.single_def(l)
        if d is None:
            return ("var", l)
        self.memo[l] = ("var", l)   # cycle guard
        b, i, s = d
        if i == "T":
            r = self.of_call(l, s, depth)
        else:
            r = self.of_rvalue(l, s["r"], depth)
        self.memo[l] = r
        return r

    def of_call(self, l, t, depth):
        cp = t.get("cpath") or ""
        args = t["args"]
        if any(cp.endswith(x) for x in LEN_CALLS) and len(args) == 1:
            return ("len", _strip(self.of_operand(args[0], depth + 1)))
        name = cp.split("::")[-1]
        if name in ("into_iter", "iter") and len(args) == 1:
            a = self.of_operand(args[0], depth + 1)
            if a[0] == "range":
                return a
        if name == "next" and "Iterator" in cp and len(args) == 1:
            a = _strip(self.of_operand(args[0], depth + 1))
            r0 = None
            if a[0] == "range":
                r0 = a
            elif a[0] == "var" and isinstance(a[1], int):
                # the iterator local is mutated by next(); look at its initialisation
                ds = [x for x in self.body.defs().get(a[1], []) if not self.body.is_cleanup(x[0])]
                if len(ds) == 1 and ds[0][1] == "T":
                    t0 = ds[0][2]
                    if (t0.get("cpath") or "").split("::")[-1] in ("into_iter", "iter") and t0["args"]:
                        r0 = self.of_operand(t0["args"][0], depth + 1)
            if r0 is not None and r0[0] == "range":
                item = ("var", ("item", l))
                blk = self.body.single_def(l)[0]
                self.range_items[item] = (r0[1], r0[2], blk)
                return ("some", item)
            # slices handed out by chunks(n) are never empty; windows(n) / chunks_exact(n) have n elements
            src = None
            if a[0] == "var" and isinstance(a[1], int):
                ds = [x for x in self.body.defs().get(a[1], []) if not self.body.is_cleanup(x[0])]
                if len(ds) == 1 and ds[0][1] == "T":
                    src = ds[0][2]
                    if (src.get("cpath") or "").split("::")[-1] in ("into_iter", "iter") and src["args"]:
                        p0 = mir.op_place(src["args"][0])
                        d0 = self.body.single_def(p0[0]) if p0 is not None and not p0[1] else None
                        src = d0[2] if d0 is not None and d0[1] == "T" else None
            if src is not None:
                nm = (src.get("cpath") or "").split("::")[-1]
                if nm in ("chunks", "chunks_exact", "windows", "rchunks") and "slice" in (src.get("cpath") or ""):
                    k = (src["args"][1].get("k") or {}) if len(src["args"]) > 1 else {}
                    item = ("var", ("item", l))
                    floor = k.get("int") if nm in ("chunks_exact", "windows") and isinstance(k.get("int"), int) else 1
                    if isinstance(k.get("int"), int) and k["int"] >= 1:
                        self.len_floor[item] = floor
                        return ("some", item)
        if name in ("clone", "deref", "as_ref", "borrow", "as_slice", "as_mut_slice", "deref_mut") and len(args) == 1:
            return self.of_operand(args[0], depth + 1)
        return ("var", l)

    def of_rvalue(self, l, r, depth):
        k = r["k"]
        if k == "use":
            return self.of_operand(r["o"], depth + 1)
        if k == "copyderef":
            return self.of_place(r["p"], depth + 1)
        if k in ("ref", "rawptr"):
            return ("ref", self.of_place(r["p"], depth + 1))
        if k == "cast":
            return self.of_operand(r["o"], depth + 1) if r.get("ck", "").startswith(("PointerCoercion", "IntToInt")) \
                else ("var", l)
        if k == "un":
            o = self.of_operand(r["o"], depth + 1)
            if r["op"] == "PtrMetadata":
                return ("len", _strip(o))
            if r["op"] == "Not":
                return mk_not(o) if o[0] in ("lt", "eq", "not", "c") else ("var", l)
            return ("var", l)
        if k == "len":
            return ("len", _strip(self.of_place(r["p"], depth + 1)))
        if k == "bin":
            a = self.of_operand(r["a"], depth + 1)
            b = self.of_operand(r["b"], depth + 1)
            op = r["op"]
            la, lb = lin(a), lin(b)
            if op in ("Add", "AddWithOverflow", "AddUnchecked") and la and lb:
                if la[0] is None or lb[0] is None:
                    res = mk_add(a, lb[1]) if lb[0] is None else mk_add(b, la[1])
                else:
                    # the sum of two variables is an atom of its own (canonical operand order), so that
                    # `x + y` computed twice denotes one term
                    atom = ("sum", tuple(sorted((la[0], lb[0]), key=repr)))
                    res = mk_add(atom, la[1] + lb[1])
                return ("tuple", (res, C(False))) if op == "AddWithOverflow" else res
            if op in ("Sub", "SubWithOverflow", "SubUnchecked") and la and lb and lb[0] is None:
                res = mk_add(a, -lb[1])
                return ("tuple", (res, C(False))) if op == "SubWithOverflow" else res
            if la and lb:
                if op == "Lt":
                    return mk_lt(a, b)
                if op == "Gt":
                    return mk_lt(b, a)
                if op == "Le":
                    return mk_not(mk_lt(b, a))
                if op == "Ge":
                    return mk_not(mk_lt(a, b))
                if op == "Eq":
                    return mk_eq(a, b)
                if op == "Ne":
                    return mk_not(mk_eq(a, b))
            return ("var", l)
        if k == "agg":
            ops = tuple(self.of_operand(o, depth + 1) for o in r["ops"])
            if r["a"] == "adt" and r["adt"].split("::")[-1] == "Range" and len(ops) == 2:
                return ("range", ops[0], ops[1])
            if r["a"] == "tuple":
                return ("tuple", ops)
            return ("var", l)
        return ("var", l)


def _strip(t):
    while t[0] in ("ref", "deref"):
        t = t[1]
    return t


def vars_of(t, out=None):
    out = set() if out is None else out
    if isinstance(t, tuple):
        if t and t[0] == "var":
            out.add(t[1])
        else:
            for x in t:
                vars_of(x, out)
    return out


class Prover:
    def __init__(self, prog, fn):
        self.prog = prog
        self.fn = fn
        self.body = fn.body
        self.ex = Exprs(prog, fn)
        self._mutdefs = None

    def def_blocks(self, v):
        """blocks that (re)define local v: assignments, call destinations, &mut borrows."""
        if self._mutdefs is None:
            m = {}
            for b, blk in enumerate(self.body.blocks):
                if self.body.is_cleanup(b):
                    continue
                for s in blk["s"]:
                    if s["k"] == "assign":
                        m.setdefault(s["p"][0], set()).add(b)
                        r = s["r"]
                        if r["k"] in ("ref", "rawptr") and r.get("mut"):
                            m.setdefault(r["p"][0], set()).add(b)
                t = blk["t"]
                if t["k"] == "call" and t.get("d"):
                    m.setdefault(t["d"][0], set()).add(b)
            self._mutdefs = m
        return self._mutdefs.get(v, set())

    def stable(self, v, start, site):
        """no redefinition of local v on a path start -> site that does not re-pass start"""
        if not isinstance(v, int):
            v = v[1] if isinstance(v, tuple) and v[0] == "item" else v
        if not isinstance(v, int):
            return True
        ds = self.def_blocks(v)
        if not ds:
            return True
        body = self.body
        fwd = set()
        for s in body.succ(start):
            fwd |= body.reachable(s, avoid={start})
        for d in ds:
            if d == start:
                continue
            if d in fwd and (d == site or site in body.reachable(d, avoid={start})):
                if d == site:
                    # the destination of the site's own call / assert is written after its operands
                    # were read; a STATEMENT of the site block that assigns v runs before them
                    stmts = self.body.blocks[d]["s"]
                    if not any(st["k"] == "assign" and st["p"][0] == v for st in stmts):
                        continue
                return False
        return True

    def dominating_facts(self, site):
        """[(bool term, truth value, switch block)] for the switch edges that dominate the site."""
        body = self.body
        out = []
        dom = body.dominators()
        preds = body.preds()
        b = site
        chain = []
        while b is not None and b != 0:
            d = dom.get(b)
            if d is None or d == b:
                break
            chain.append((d, b))
            b = d
        # walk every dominator d; the edge of d's switch that leads to the site is known when one
        # successor of d dominates the site and is entered only from d
        doms = [d for d, _ in chain]
        for d in doms:
            t = body.term(d)
            if t["k"] != "switch" or t.get("ty") != "bool":
                continue
            cond = self.ex.of_operand(t["o"])
            if cond[0] not in ("lt", "eq", "not"):
                continue
            for tg in body.succ(d):
                if preds.get(tg) == [d] and body.dominates(tg, site):
                    is_zero_target = any(v == 0 and x == tg for v, x in t["ts"])
                    out.append((cond, not is_zero_target, d))
        return out

    def prove(self, site, goal, goal_value=True, signed_ok=False):
        """Is `goal` == goal_value implied at block `site`?  Returns (bool, used facts)."""
        f = Facts()
        used = []
        gvars = vars_of(goal)
        for v in gvars:
            self._mark_signed(f, v)
        for cond, val, d in self.dominating_facts(site):
            vs = vars_of(cond)
            if not all(self.stable(v, d, site) for v in vs):
                continue
            for v in vs:
                self._mark_signed(f, v)
            f2 = f.copy()
            if f2.assume_bool(cond, val):
                f = f2
                used.append((cond, val))
        for item, (lo, hi, blk) in list(self.ex.range_items.items()):
            if ("var", item[1]) in [("var", v) for v in gvars] or any(item[1] in vars_of(c) for c, _v in used):
                if not all(self.stable(v, blk, site) for v in vars_of(lo) | vars_of(hi)):
                    continue
                if not self.body.dominates(blk, site):
                    continue
                f.assume_bool(mk_not(mk_lt(item, lo)), True)
                f.assume_bool(mk_lt(item, hi), True)
                used.append((mk_lt(item, hi), True))
        for item, floor in self.ex.len_floor.items():
            ln = ("len", item)
            f.assume_bool(mk_lt(C(floor - 1), ln), True)
            used.append((mk_lt(C(floor - 1), ln), True))
        g = f.copy()
        ok = not g.assume_bool(goal, not goal_value)
        return ok, used

    def _mark_signed(self, f, v):
        l = v[1] if isinstance(v, tuple) and v[0] == "item" else v
        if isinstance(l, int):
            ty = self.ex.ty(l)
            if ty not in UNSIGNED:
                f.signed.add(("var", v))


def implicit_sites(fn):
    """[(kind, block, goal operand info)] for BoundsCheck / DivisionByZero / RemainderByZero asserts."""
    out = []
    body = fn.body
    for b, blk in enumerate(body.blocks):
        if body.is_cleanup(b):
            continue
        t = blk["t"]
        if t["k"] != "assert":
            continue
        msg = t.get("msg") or ""
        if msg.startswith("BoundsCheck"):
            out.append(("bounds", b, t))
        elif msg.startswith("DivisionByZero"):
            out.append(("divzero", b, t))
        elif msg.startswith("RemainderByZero"):
            out.append(("remzero", b, t))
        elif msg.startswith("Overflow") and not msg.startswith("OverflowNeg"):
            # the check of a shift amount: assert(amount < bit width) - `1 << n` aborts for n >= 32
            pl = t["o"].get("m") or t["o"].get("c") if isinstance(t.get("o"), dict) else None
            if pl and not pl[1] and t.get("exp", True):
                for st in blk["s"]:
                    if st["k"] == "assign" and st["p"] == [pl[0], []] and st["r"].get("k") == "bin" and st["r"].get("op") == "Lt" \
                            and isinstance(st["r"]["b"].get("k"), dict) and st["r"]["b"]["k"].get("int") in (8, 16, 32, 64, 128):
                        out.append(("shift", b, t))
    return out


def prove_site(prog, fn, b, t):
    """(proved, description) for the assert terminator t of block b."""
    pr = Prover(prog, fn)
    cond = pr.ex.of_operand(t["o"])
    want = bool(t.get("exp", True))
    if cond[0] == "c":
        return bool(cond[1]) == want, "constant condition"
    if cond[0] not in ("lt", "eq", "not"):
        return False, "condition not in the comparison fragment"
    ok, used = pr.prove(b, cond, want)
    from .sympath import show
    return ok, "%s %s from %s" % ("follows" if ok else "does not follow", show(cond) if want else "not " + show(cond),
                                  [("" if v else "not ") + show(c) for c, v in used])


def prove_index_call(prog, fn, b, t):
    """`v[i]` through Index::index / IndexMut::index_mut on a Vec or slice: i < len(v)?"""
    if len(t["args"]) != 2:
        return False, "not an element index"
    pr = Prover(prog, fn)
    base = _strip(pr.ex.of_operand(t["args"][0]))
    idx = pr.ex.of_operand(t["args"][1])
    if lin(idx) is None or idx[0] in ("range", "tuple"):
        return False, "index is not an integer term"
    ity = None
    p = mir.op_place(t["args"][1])
    if p is not None:
        ity = fn.body.locals[p[0]]["ty"]
    if ity != "usize":
        return False, "index is not a usize"
    goal = mk_lt(idx, ("len", base))
    if goal[0] == "c":
        return bool(goal[1]), "constant"
    if goal[0] != "lt":
        return False, "goal not in the comparison fragment"
    ok, used = pr.prove(b, goal, True)
    from .sympath import show
    return ok, "%s %s from %s" % ("follows" if ok else "does not follow", show(goal),
                                  [("" if v else "not ") + show(c) for c, v in used])


def prove_upper_bound_all_defs(prog, fn, site, operand, bound_term_of):
    """Is `operand <= bound` at block `site`, where the operand may be a local with several
    definitions (an if/else result)?  Each definition is judged with the comparisons dominating its
    own block plus those dominating the site.  bound_term_of(exprs) builds the bound term."""
    pr = Prover(prog, fn)
    body = fn.body
    bound = bound_term_of(pr.ex)
    p = mir.op_place(operand)
    from .sympath import show
    if p is None or p[1]:
        t = pr.ex.of_operand(operand)
        cases = [(site, t)]
    else:
        l = p[0]
        # follow copies to the defining local
        seen = set()
        while True:
            d = body.single_def(l)
            if d is None or d[1] == "T" or l in seen:
                break
            seen.add(l)
            r = d[2]["r"]
            if r["k"] == "use" and mir.op_place(r["o"]) is not None and not mir.op_place(r["o"])[1]:
                l = mir.op_place(r["o"])[0]
            else:
                break
        ds = [x for x in body.defs().get(l, []) if not body.is_cleanup(x[0])]
        if len(ds) <= 1:
            cases = [(site, pr.ex.of_local(l))]
        else:
            cases = []
            for b, i, st in ds:
                if i == "T":
                    e = pr.ex.of_call(l, st, 0)
                else:
                    e = pr.ex.of_rvalue(l, st["r"], 0)
                cases.append((b, e))
    why = []
    for blk, e in cases:
        if lin(e) is None or lin(bound) is None:
            return False, "term outside the fragment: %s" % show(e)
        goal = mk_not(mk_lt(bound, e))       # e <= bound
        if goal[0] == "c":
            if not goal[1]:
                return False, "%s <= %s is false" % (show(e), show(bound))
            why.append("%s <= %s trivially" % (show(e), show(bound)))
            continue
        ok, used = pr.prove(blk, goal, True)
        if not ok and blk != site:
            ok2, used2 = pr.prove(site, goal, True)
            ok, used = ok2, used + used2
        if not ok:
            return False, "%s <= %s does not follow from %s" % (
                show(e), show(bound), [("" if v else "not ") + show(c) for c, v in used])
        why.append("%s <= %s" % (show(e), show(bound)))
    return True, "; ".join(why)
