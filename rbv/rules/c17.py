"""C17 - string function laws: the range-check clause (C17.R1)."""
from .. import interval as iv, mir
from ..core import CheckError
from . import common

LEVEL = "other"
EXPLANATION = (
    "Decides the last sentence of the property only - `negative counts and non-positive start "
    "positions raise Illegal function call (5)`: (R1) in the run function of each string built-in "
    "every argument the property calls a count (LEFT$ 2, RIGHT$ 2, MID$ 3, SPACE$ 1, STRING$ 1) is "
    "read through VariantCasts::to_non_negative_int and every start position (MID$ 2, INSTR 1 of 3) "
    "through to_positive_int; (R2) interval dataflow over those two accessors: the value converted "
    "to usize on the success path is >= 0 resp. >= 1 and the other path builds IllegalFunctionCall.")
NOT_DECIDED = [
    "LEFT$/RIGHT$/MID$ substring equations, INSTR minimality, LEN additivity, UCASE$/LCASE$/LTRIM$/RTRIM$ "
    "laws, SPACE$ = STRING$, VAL(STR$(k)) = k (value-level string arithmetic)",
]

# (module, argument index, accessor) derived from the property sentence
REQUIRED = [
    ("left", 1, "to_non_negative_int", "LEFT$ count"),
    ("right", 1, "to_non_negative_int", "RIGHT$ count"),
    ("mid_fn", 2, "to_non_negative_int", "MID$ length"),
    ("mid_fn", 1, "to_positive_int", "MID$ start"),
    ("space", 0, "to_non_negative_int", "SPACE$ count"),
    ("string_fn", 0, "to_non_negative_int", "STRING$ count"),
    ("instr", 0, "to_positive_int", "INSTR start (3-argument form)"),
]


def _arg_index(o):
    """Constant argument index inside an origin: context()[i] or variables().get(i)."""
    o = mir.strip_all(o)
    while o[0] in ("downcast", "field"):
        o = mir.strip_all(o[1])
    if o[0] == "call" and o[1].split("::")[-1] in ("index", "index_mut", "get") and len(o[2]) >= 2:
        idx = mir.strip_all(o[2][1])
        if idx[0] == "const":
            try:
                return int(idx[1].split("_")[0])
            except ValueError:
                return None
    return None


def accessor_uses(prog, mod):
    """{arg index: set of accessor names applied} for interpreter::built_ins::<mod>."""
    fs = [f for f in prog.fns.values() if ("interpreter::built_ins::%s::" % mod) in f.id and f.crate == "rusty_basic"]
    if not fs:
        raise CheckError("built_ins::%s not found" % mod)
    out = {}
    raw = {}
    for f in fs:
        pv = mir.Prov(f.body)
        for b, t in f.body.calls():
            cp = t.get("cpath") or ""
            name = cp.split("::")[-1]
            if not t["args"]:
                continue
            i = _arg_index(pv.of_operand(t["args"][0]))
            if i is None:
                continue
            if "VariantCasts::" in cp:
                out.setdefault(i, set()).add(name)
            elif name in ("try_cast",):
                raw.setdefault(i, set()).add(name)
    return out, raw, fs[0]


def r1_accessors(ctx, rule="C17.R1"):
    prog = ctx.prog
    for mod, idx, accessor, what in REQUIRED:
        uses, raw, f = accessor_uses(prog, mod)
        got = uses.get(idx, set())
        key = "%s:%s:arg%d:%s" % (rule, mod, idx, accessor)
        ctx.decide(accessor in got, rule, key, f.loc, "%s read through %s" % (what, accessor),
                   "%s (argument %d of %s) is read through %s instead of %s: an out-of-range value is "
                   "not rejected with Illegal function call"
                   % (what, idx, mod, sorted(got | raw.get(idx, set())) or "nothing recognised", accessor))
    ctx.require(rule, 7)


def r2_accessor_ranges(ctx, rule="C17.R2"):
    prog = ctx.prog
    for name, low in (("to_non_negative_int", 0), ("to_positive_int_or", 1)):
        fs = [f for f in prog.fns.values() if f.name == name and f.impl and f.impl["self_ty"].endswith("Variant")
              and "variant_casts" in f.id]
        if len(fs) != 1:
            raise CheckError("anchor VariantCasts::%s" % name)
        f = fs[0]
        an = iv.Analysis(prog, f)
        an.run()
        casts = [(ty, v) for ty, v in an.casts if ty == "usize"]
        ok = bool(casts) and all(iv.is_int(v) and v[1] >= low for _ty, v in casts)
        ctx.decide(ok, rule, "%s:%s:lower-bound" % (rule, name), f.loc,
                   "value converted to usize is >= %d" % low,
                   "%s converts a value to usize whose interval is %s (needs >= %d): a rejected value "
                   "slips through" % (name, [(v[1], v[2]) for _t, v in casts if iv.is_int(v)], low))
        built = {s["r"]["variant"] for blk in f.body.blocks for s in blk["s"]
                 if s["k"] == "assign" and s["r"]["k"] == "agg" and s["r"].get("adt", "").endswith("::RuntimeError")}
        if name == "to_non_negative_int":
            ctx.decide("IllegalFunctionCall" in built, rule, "%s:%s:error-5" % (rule, name), f.loc,
                       "rejected side raises IllegalFunctionCall", "%s builds %s" % (name, sorted(built)))
    tp = [f for f in prog.fns.values() if f.name == "to_positive_int" and "variant_casts" in f.id and f.impl]
    if len(tp) != 1:
        raise CheckError("anchor VariantCasts::to_positive_int")
    built = {s["r"]["variant"] for blk in tp[0].body.blocks for s in blk["s"]
             if s["k"] == "assign" and s["r"]["k"] == "agg" and s["r"].get("adt", "").endswith("::RuntimeError")}
    ctx.decide(built == {"IllegalFunctionCall"}, rule, rule + ":to_positive_int:error-5", tp[0].loc,
               "to_positive_int rejects with IllegalFunctionCall", "to_positive_int passes %s" % sorted(built))
    ctx.require(rule, 4)


def run(ctx):
    common.install(ctx)
    r1_accessors(ctx)
    r2_accessor_ranges(ctx)
