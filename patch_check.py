#!/usr/bin/env python3
"""Run ALL checks against scratch copies of /repo with one patch file applied each (used for
behaviour-preserving refactorings: every check must still exit 0).
usage: patch_check.py <patch> [<patch> ...]"""
import json, os, shutil, subprocess, sys, tempfile
from concurrent.futures import ThreadPoolExecutor
VERIF = os.path.dirname(os.path.abspath(__file__))
REPO = os.environ.get("PATCH_CHECK_REPO", "/repo")   # a snapshot of /repo when run in the background (vp run --with-repo)
PROPS = [json.loads(l)["id"] for l in open(os.path.join(VERIF, "properties.jsonl"))]
PROPS = [p for p in PROPS if os.path.exists(os.path.join(VERIF, "rbv", "rules", p.lower() + ".py"))]


def run_one(patch):
    tmp = tempfile.mkdtemp(prefix="rbv-patch-")
    try:
        subprocess.run(["rsync", "-a", "--exclude", "target", "--exclude", ".git", REPO.rstrip("/") + "/", tmp + "/"], check=True)
        r = subprocess.run(["patch", "-p1", "-s", "-d", tmp, "-i", os.path.abspath(patch)],
                           stdout=subprocess.PIPE, stderr=subprocess.STDOUT, text=True)
        if r.returncode != 0:
            return patch, "patch-failed", [r.stdout[-300:]]
        bad = []
        for p in PROPS:
            env = dict(os.environ, RBV_REPO=tmp, RBV_EVIDENCE_DIR=os.path.join(tmp, "_evidence"))
            r = subprocess.run([os.path.join(VERIF, "check"), p], env=env, stdout=subprocess.PIPE,
                               stderr=subprocess.STDOUT, text=True)
            if r.returncode != 0:
                lines = [l.strip()[:260] for l in r.stdout.splitlines()
                         if l.startswith("CHECK-ERROR") or ("[" in l and "]" in l and not l.startswith(("KNOWN", "VIOLATION", "PASS", "FAIL")))]
                bad.append("%s rc=%d: %s" % (p, r.returncode, " || ".join(lines[:3])))
        if bad and all("the tree does not build" in b for b in bad):
            # the patch still applies textually but was written against an older tree: not a verdict of the checks
            return patch, "does-not-build", bad[:1]
        return patch, "clean" if not bad else "ALARM", bad
    finally:
        shutil.rmtree(tmp, ignore_errors=True)


if __name__ == "__main__":
    with ThreadPoolExecutor(max_workers=int(os.environ.get("RBV_JOBS", "4"))) as ex:
        for patch, status, bad in ex.map(run_one, sys.argv[1:]):
            print(status, patch)
            for b in bad:
                print("    ", b)
