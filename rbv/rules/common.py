"""Helpers shared by the rule modules."""
import re
import types

from .. import mir
from ..core import CheckError


def install(ctx):
    def anchor_method(self, type_name, name, trait=None):
        try:
            return self.prog.method(type_name, name, trait)
        except KeyError as e:
            raise CheckError("missing anchor %s" % e)
    ctx.anchor_method = types.MethodType(anchor_method, ctx)


def all_bodies(fn):
    return [fn.body] + fn.promoted


def nontest_fns(prog, crate=None):
    for fn in prog.fns.values():
        if crate is not None and fn.crate != crate:
            continue
        yield fn


DERIVED_TRAITS = ("core::clone::Clone", "core::cmp::PartialEq", "core::cmp::Eq", "core::fmt::Debug",
                  "core::hash::Hash", "core::cmp::PartialOrd", "core::cmp::Ord",
                  "core::default::Default")


def is_derived(fn):
    """Body of a #[derive]d impl (every statement comes from the derive expansion)."""
    imp = fn.impl
    if imp is None or imp.get("trait") not in DERIVED_TRAITS:
        return False
    for blk in fn.body.blocks:
        for s in blk["s"]:
            if "derive" not in " ".join(s.get("mx", [])):
                return False
        if "derive" not in " ".join(blk["t"].get("mx", [])) and blk["t"]["k"] == "call":
            return False
    return True


def constructed_variants(prog, adt_id, crate=None, fns=None):
    """variant -> set of function paths that build it (aggregate rvalues, incl. promoteds)."""
    out = {}
    it = fns if fns is not None else nontest_fns(prog, crate)
    for fn in it:
        if is_derived(fn):
            continue
        for body in all_bodies(fn):
            for blk in body.blocks:
                for s in blk["s"]:
                    if s["k"] == "assign" and s["r"]["k"] == "agg" and s["r"].get("adt") == adt_id:
                        out.setdefault(s["r"]["variant"], set()).add(fn.path)
                    # unit variants may also appear as constants
                    if s["k"] == "assign" and s["r"]["k"] == "use":
                        k = s["r"]["o"].get("k")
                        if k and k.get("adt") == adt_id:
                            m = re.search(r"::(\w+)$", k.get("s", ""))
                            if m:
                                out.setdefault(m.group(1), set()).add(fn.path)
    return out


def field_writes(body, region=None):
    """Names of fields assigned (directly) in the body / region: `(*self).f = ..`."""
    out = set()
    for b, blk in enumerate(body.blocks):
        if blk.get("c"):
            continue
        if region is not None and b not in region:
            continue
        for s in blk["s"]:
            if s["k"] != "assign":
                continue
            for e in s["p"][1]:
                if isinstance(e, dict) and "f" in e and "n" in e:
                    out.add(e["n"])
    return out


def places_mentioning_field(body, field):
    """(bb, kind) for each statement/terminator whose places project `field`."""
    out = []

    def has(place):
        return any(isinstance(e, dict) and e.get("n") == field for e in place[1])

    def op_has(op):
        p = mir.op_place(op)
        return p is not None and has(p)
    for b, blk in enumerate(body.blocks):
        if blk.get("c"):
            continue
        for s in blk["s"]:
            if s["k"] != "assign":
                continue
            if has(s["p"]):
                out.append((b, "write"))
            r = s["r"]
            if r["k"] in ("ref", "rawptr", "discr", "copyderef") and has(r["p"]):
                out.append((b, "ref"))
            for kk in ("o", "a", "b"):
                if kk in r and isinstance(r[kk], dict) and op_has(r[kk]):
                    out.append((b, "read"))
            for o in r.get("ops", []):
                if op_has(o):
                    out.append((b, "read"))
        t = blk["t"]
        if t["k"] == "call":
            for a in t["args"]:
                if op_has(a):
                    out.append((b, "arg"))
    return out


def field_users(prog, field, owner_suffix=None, crate="rusty_basic"):
    """fn id -> uses, for every fn whose MIR projects a field with this name on a value whose
    type is the owner."""
    out = {}
    for fn in nontest_fns(prog, crate):
        for body in all_bodies(fn):
            hits = []
            for b, blk in enumerate(body.blocks):
                if blk.get("c"):
                    continue
                places = []
                for s in blk["s"]:
                    if s["k"] == "assign":
                        places.append(s["p"])
                        r = s["r"]
                        if "p" in r:
                            places.append(r["p"])
                        for kk in ("o", "a", "b"):
                            if kk in r and isinstance(r[kk], dict):
                                p = mir.op_place(r[kk])
                                if p:
                                    places.append(p)
                        for o in r.get("ops", []):
                            p = mir.op_place(o)
                            if p:
                                places.append(p)
                t = blk["t"]
                if t["k"] == "call":
                    for a in t["args"]:
                        p = mir.op_place(a)
                        if p:
                            places.append(p)
                for p in places:
                    base_adt = body.locals[p[0]].get("adt")
                    for i, e in enumerate(p[1]):
                        if isinstance(e, dict) and e.get("n") == field:
                            # owner check: the base local's ADT when the field is the first
                            # field projection
                            first_field = all(not (isinstance(x, dict) and "f" in x)
                                              for x in p[1][:i])
                            if owner_suffix is None or (first_field and base_adt
                                                        and base_adt.endswith(owner_suffix)):
                                hits.append(b)
            if hits:
                out.setdefault(fn.id, []).extend(hits)
    return out


VEC_SHRINK = ("pop", "truncate", "drain", "clear", "remove", "swap_remove", "split_off", "retain",
              "pop_front", "pop_back", "resize")


def receiver_field(pv, t):
    """Name of the struct field the receiver (first argument) of call t denotes, else None."""
    if not t["args"]:
        return None
    o = mir.strip_refs(pv.of_operand(t["args"][0]))
    if o[0] == "field":
        return o[2]
    return None


def fns_shrinking_field(prog, field, crate="rusty_basic"):
    """Functions that (transitively, through workspace calls) apply a shrinking Vec/VecDeque
    method to a place whose last field projection is `field`."""
    direct = set()
    for fn in nontest_fns(prog, crate):
        pv = mir.Prov(fn.body)
        for b, t in fn.body.calls():
            name = mir.callee_path(t).split("::")[-1]
            if name in VEC_SHRINK and receiver_field(pv, t) == field:
                direct.add(fn.id)
    # close under callers
    callers = prog.callers()
    seen = set(direct)
    st = list(direct)
    while st:
        f = st.pop()
        for c in callers.get(f, ()):
            if c not in seen and c in prog.fns and prog.fns[c].crate == crate:
                seen.add(c)
                st.append(c)
    return direct, seen


def try_error_blocks(body, region=None):
    """Blocks on the error side of `?` desugarings: targets of the Break arm of the switch that
    follows a Try::branch call."""
    out = set()
    for b, t in body.calls():
        if region is not None and b not in region:
            continue
        if not (t.get("cpath") or "").endswith("Try::branch"):
            continue
        nb = t.get("t")
        if nb is None:
            continue
        tt = body.term(nb)
        if tt["k"] != "switch":
            continue
        # ControlFlow: Continue = 0, Break = 1
        for val, tgt in tt["ts"]:
            if val == 1:
                out |= body.reachable(tgt)
    return out


def origin_root_adt(body, o):
    """ADT id of the root local of a field-chain origin (param or local), else None."""
    while o[0] in ("field", "downcast", "deref", "ref", "index", "clone", "cast"):
        o = o[1]
    if o[0] == "param":
        return body.locals[o[1] + 1].get("adt")
    if o[0] == "local":
        return body.locals[o[1]].get("adt")
    return None


def receiver_field_of(pv, body, t, owner_suffix):
    """Field name when the receiver of t is `<owner>.field` (directly, through refs)."""
    if not t["args"]:
        return None
    o = mir.strip_refs(pv.of_operand(t["args"][0]))
    if o[0] != "field":
        return None
    base = mir.strip_refs(o[1])
    adt = origin_root_adt(body, base) if base[0] in ("param", "local") else None
    if adt is None or not adt.endswith(owner_suffix):
        return None
    return o[2]


# how each VM container is meant to be used (role), by field / accessor name
# (`truncate(n)` drops entries from the top end, like repeated pops: admissible on a LIFO container;
# `clear()` drops all entries, which has no end: whether dropping them is right at that place is for the
# rules about that place - error branch, RESUME label, stack trace - not for the discipline)
STACK_ROLES = {
    "value_stack": ("LIFO", ("push", "pop", "last", "last_mut", "len", "is_empty", "truncate", "clear")),
    "register_stack": ("LIFO", ("push", "pop", "last", "last_mut", "len", "is_empty", "truncate", "clear")),
    "return_address_stack": ("LIFO", ("push", "pop", "len", "is_empty", "truncate", "clear")),
    "go_sub_address_stack": ("LIFO", ("push", "pop", "len", "is_empty", "truncate", "clear")),
    "var_path_stack": ("LIFO", ("push_back", "pop_back", "back", "back_mut", "len", "is_empty", "truncate", "clear")),
    # either discipline, used consistently; C03.R3 ties it to the order in which the generator stashes
    "by_ref_stack": ("FIFO or LIFO", (("push_back", "pop_front", "len", "is_empty"),
                                      ("push_back", "pop_back", "len", "is_empty"))),
    "function_result": ("LIFO", ("push", "pop", "len", "is_empty")),
    "stacktrace": ("front-stack", ("insert", "remove", "is_empty", "len", "append", "pop", "clone", "clear")),
}


def r_stack_discipline(ctx, rule):
    """Every container of the VM is used at the end its role prescribes, by all of its users."""
    prog = ctx.prog
    uses = {k: {} for k in STACK_ROLES}
    for fn in prog.fns.values():
        if fn.crate != "rusty_basic" or fn.kind == "const" or "interpreter" not in fn.id:
            continue
        pv = mir.Prov(fn.body)
        for b, t in fn.body.calls():
            if not t["args"]:
                continue
            cp = mir.callee_path(t)
            if not (cp.startswith("std::vec::Vec") or cp.startswith("std::collections::VecDeque")):
                continue
            o = mir.strip_refs(pv.of_operand(t["args"][0]))
            name = None
            if o[0] == "field" and o[2] in STACK_ROLES:
                name = o[2]
            elif o[0] == "call" and o[1].split("::")[-1] in STACK_ROLES:
                name = o[1].split("::")[-1]
            if name is None:
                continue
            uses[name].setdefault(cp.split("::")[-1], []).append("%s:%s" % (fn.name, t.get("ln")))
    for name, (role, allowed) in sorted(STACK_ROLES.items()):
        if not uses[name]:
            # the field may still be there, but no longer a container: a single slot where the role needs a stack / queue
            holder = None
            for a in prog.adts.values():
                if a.get("local") and a["path"].startswith("rusty_basic::interpreter"):
                    for v in a["variants"]:
                        for x in v["fields"]:
                            if x["name"] == name:
                                holder = (a, x)
            if holder is not None and not any(w in holder[1]["ty"] for w in ("Vec<", "VecDeque<")):
                ctx.violation(rule, "%s:%s" % (rule, name), "%s:%s" % (holder[0].get("file"), holder[0].get("line")),
                              "%s (%s) is kept in a single place (%s: %s) and not in a container: what one activation puts "
                              "there is overwritten by an activation that runs before it is taken out again (a call made while "
                              "the result or argument of another call is pending)" % (name, role, name, holder[1]["ty"]))
                continue
            raise CheckError("no user of VM container %s found" % name)
        if allowed and isinstance(allowed[0], tuple):
            # several admissible disciplines: the uses must fit one of them entirely
            fits = [a for a in allowed if all(m in a for m in uses[name])]
            allowed = fits[0] if fits else allowed[0]
        bad = {m: w for m, w in uses[name].items() if m not in allowed}
        ctx.decide(not bad, rule, "%s:%s" % (rule, name), "rusty_basic/src/interpreter",
                   "%s: %s" % (role, sorted(uses[name])),
                   "%s is a %s container but is used with %s: entries are taken from the wrong end when "
                   "more than one is present" % (name, role, {m: w[0] for m, w in bad.items()}))
    ctx.require(rule, 7)


_CONSTRUCT_MEMO = {}


def generator_construct_of(prog, fn):
    """Name of the Statement variant whose lowering reaches the generator function fn
    (`ForLoop`, `SelectCase` ...): a name for a place in the generator that does not change when the
    generator's private functions are renamed, split or merged."""
    from .. import emit
    key = id(prog)
    if key not in _CONSTRUCT_MEMO:
        table = {}
        gens = [g for g in emit.generator_fns(prog)]
        disp = None
        for g in gens:
            sws = [s for s in mir.enum_switches(prog, g.body) if s.adt.endswith("::Statement")]
            if sws and (disp is None or len(max(sws, key=lambda s: len(s.arms)).arms) > disp[2]):
                sw = max(sws, key=lambda s: len(s.arms))
                disp = (g, sw, len(sw.arms))
        if disp is not None:
            g, sw, _n = disp
            for v, tgt in sw.arms.items():
                region = mir.arm_region(g.body, sw.bb, tgt)
                roots = [prog.fns[mir.callee_of(t)] for _b, t in mir.region_calls(g.body, region)
                         if mir.callee_of(t) in prog.fns and prog.fns[mir.callee_of(t)].crate == "rusty_basic"
                         and prog.fns[mir.callee_of(t)] is not g]
                seen = set()
                st = [r.id for r in roots]
                while st:
                    x = st.pop()
                    if x in seen or x == g.id:
                        continue
                    seen.add(x)
                    f2 = prog.fns.get(x)
                    if f2 is None or f2.crate != "rusty_basic" or "instruction_generator" not in f2.id:
                        continue
                    for c in prog.call_edges(f2):
                        st.append(c)
                for x in seen:
                    table.setdefault(x, set()).add(v)
        _CONSTRUCT_MEMO[key] = table
    vs = _CONSTRUCT_MEMO[key].get(fn.id, set())
    # helpers shared by every construct (label(), push(), visit()) belong to none in particular
    if not vs or len(vs) > 3:
        return fn.name
    return "+".join(sorted(vs))


def error_dispatch(prog):
    """(function, switch) of the VM's dispatch over ErrorHandler: in Interpreter::interpret itself
    or in a private helper it calls (the error arm may have been extracted)."""
    interp = prog.method("Interpreter", "interpret")
    if interp is None:
        raise CheckError("anchor Interpreter::interpret")
    cands = [interp] + [prog.fns[c] for c in prog.call_edges(interp)
                        if c in prog.fns and prog.fns[c].crate == "rusty_basic" and "interpreter::main" in c]
    hits = []
    for f in cands:
        sws = [s for s in mir.enum_switches(prog, f.body) if s.adt.endswith("::ErrorHandler")]
        for sw in sws:
            hits.append((f, sw))
    if len(hits) > 1:
        # a match that only filters the handler (`Address(_) if .. => None, h => h`) may sit in front of the dispatch: the
        # dispatch is the match with an arm of its own for every kind of handler, the last of them in the function
        full = [(f, sw) for f, sw in hits if len(sw.arms) >= 3]
        if full:
            hits = [max(full, key=lambda x: x[1].bb)]
    if len(hits) != 1:
        raise CheckError("interpret: expected one match over ErrorHandler (in it or a helper), found %d" % len(hits))
    return hits[0]


def region_callee_paths_deep(prog, body, region, crate="rusty_basic", depth=1):
    """callee paths of the calls in region, plus those inside private functions of the same crate
    that are called there (an arm may have been turned into a call of a helper)."""
    out = []
    for _b, t in mir.region_calls(body, region):
        out.append(mir.callee_path(t))
        g = prog.fns.get(mir.callee_of(t))
        if g is not None and depth > 0 and g.crate == crate and g.kind != "const" \
                and g.file == getattr(body.fn, "file", None):
            out += [mir.callee_path(t2) for _b2, t2 in g.body.calls()]
    return out


_COUNTER_MEMO = {}


def for_counter_params(prog, T):
    """(generator fn id, 0-based argument index) pairs that always receive the FOR counter: at every
    call among the generator functions the argument is the `variable_name` of a ForLoop node, or a
    parameter that is itself such a pair.  The checker restricts the counter to a plain numeric
    variable (ForNextCounterMatch::ensure_numeric_variable), so evaluating it writes register A only
    and storing into it evaluates nothing."""
    from .. import emit
    key = id(prog)
    if key in _COUNTER_MEMO:
        return _COUNTER_MEMO[key]
    gens = emit.generator_fns(prog)
    sites = {}
    for g in gens:
        for e in T.evs(g).values():
            if e.callee is not None and e.kind in ("gen", "EXPR"):
                sites.setdefault(e.callee.id, []).append((g, e))
    cv = set()

    def is_counter(g, o):
        o = mir.strip_all(o)
        # `counter.clone().at_pos(pos)`: the same expression with a position attached
        while True:
            if o[0] == "call" and o[1].split("::")[-1] == "at_pos" and o[2]:
                o = mir.strip_all(o[2][0])
            elif o[0] in ("clone", "deref", "ref") and len(o) > 1 and isinstance(o[1], tuple):
                o = mir.strip_all(o[1])
            else:
                break
        txt = mir.short_origin(o)
        if re.match(r"^arg\d+\.variable_name(\.element)?$", txt):
            return True
        return o[0] == "param" and (g.id, o[1]) in cv
    changed = True
    while changed:
        changed = False
        for fid, ss in sites.items():
            f = prog.fns[fid]
            if len(ss) > 6:
                continue        # the general emitters are called with everything
            for i in range(1, f.argc):
                if (fid, i) in cv:
                    continue
                if all(len(e.args) > i and is_counter(g, e.args[i]) for g, e in ss):
                    cv.add((fid, i))
                    changed = True
    _COUNTER_MEMO[key] = (cv, is_counter)
    return _COUNTER_MEMO[key]


def evaluates_for_counter(prog, T, g, e):
    """the emission event e in generator g evaluates / stores exactly the FOR counter"""
    cv, is_counter = for_counter_params(prog, T)
    return len(e.args) > 1 and is_counter(g, e.args[1])
