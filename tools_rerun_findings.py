#!/usr/bin/env python3
"""maintenance helper (not used by checks): re-run the program of every recorded reachable-panic
finding against /repo/target/debug/rusty_basic; those that no longer panic are moved to `fixed`
(commit given on the command line as <key-substring>=<commit>, default: HEAD) and their site gets an
audited entry saying what now guards it.  usage: tools_rerun_findings.py "<reason>" [sub=commit ...]"""
import json, os, subprocess, sys, tempfile
reason = sys.argv[1]
commits = dict(a.split('=') for a in sys.argv[2:])
head = subprocess.check_output(['git', '-C', '/repo', 'rev-parse', '--short', 'HEAD']).decode().strip()
kf = json.load(open('/verif/known_findings.json'))
t = json.load(open('/verif/tables/panic_baseline.json'))
keep = []
for f in kf['findings']:
    if not (f['key'].startswith(('C07.R1:', 'C08.R6:')) and (f.get('what_fails') or '').startswith('reachable panic')):
        keep.append(f)
        continue
    d = tempfile.mkdtemp()
    src = os.path.join(d, 'p.bas')
    open(src, 'w').write(f['input'] if f['input'].endswith('\n') else f['input'] + '\n')
    pr = subprocess.run(['/repo/target/debug/rusty_basic', src], input=b'', stdout=subprocess.PIPE,
                        stderr=subprocess.STDOUT, cwd=d, timeout=60)
    out = pr.stdout.decode('utf8', 'replace')
    if 'panicked at' in out:
        keep.append(f)
        continue
    site = f['key'].split(':', 1)[1]
    commit = next((c for k, c in commits.items() if k in f['key']), head)
    print('NO LONGER PANICS:', f['key'][:90], '|', f['input'][:50].replace('\n', ' / '), '->', out[:70].replace('\n', ' '), '|', commit)
    scope = 'frontend' if f['key'].startswith('C07') else 'backend'
    t[scope]['audited'][site] = "%s (was reached by: %s)" % (reason, f['input'][:80].replace('\n', ' / '))
    kf['fixed'].append({"property": f['property'], "key": f['key'], "commit": commit,
                        "line": "fixed: property=%s %s %s" % (f['property'], commit, f['what_fails'][:200]),
                        "input": f['input'], "observed_before": f.get('observed')})
kf['findings'] = keep
json.dump(kf, open('/verif/known_findings.json', 'w'), indent=1)
json.dump(t, open('/verif/tables/panic_baseline.json', 'w'), indent=1)
