"""Type-level optionality of rusty_pc parsers.

rusty_pc encodes the combinator tree in the type of the parser value, so `may this parser succeed
without consuming anything` is partly visible in the type alone: `x.to_option()` has type
ToOptionParser<X>, `x.or_default()` has type OrDefaultParser<X>.  `provably_optional(ty)` is True when
the type says the parser succeeds on every input; wrappers that only transform the result or the
error are looked through, a sequence is optional when both halves are.  Anything else (boxed
alternatives, tokens, repetitions whose minimum is a run-time field) is `not provably optional`."""
import re


def split_generic(ty):
    """'a::B<X, Y<Z>>' -> ('a::B', ['X', 'Y<Z>'])"""
    ty = ty.strip()
    i = ty.find("<")
    if i < 0 or not ty.endswith(">") or ty.startswith(("{", "fn(", "(", "[", "&")):
        return ty, []
    head, inner = ty[:i], ty[i + 1:-1]
    args, depth, cur = [], 0, ""
    j = 0
    while j < len(inner):
        c = inner[j]
        if c == "-" and inner[j:j + 2] == "->":
            cur += "->"
            j += 2
            continue
        if c in "<([{":
            depth += 1
        elif c in ">)]}":
            depth -= 1
        if c == "," and depth == 0:
            args.append(cur.strip())
            cur = ""
        else:
            cur += c
        j += 1
    if cur.strip():
        args.append(cur.strip())
    return head, args


ALWAYS = ("ToOptionParser", "OrDefaultParser")
# result / error / position transformers: optional exactly when the wrapped parser is
THROUGH = ("MapParser", "MapSoftErrParser", "MapFatalErrParser", "WithPosMapper", "MapToUnitParser",
           "MapCtxParser", "PeekParser", "ToFatalParser", "NoContextParser", "BoxedParser")
BOTH = ("AndParser",)          # L then R: optional when both are
ALL3 = ("SurroundParser",)     # left, main, right
ANY = ("OrParserNoBox",)       # an optional alternative never lets the choice fail


def provably_optional(ty, depth=0):
    head, args = split_generic(ty)
    name = head.split("::")[-1]
    if name in ALWAYS:
        return True
    if depth > 30 or not args:
        return False
    if name in THROUGH:
        return provably_optional(args[0], depth + 1)
    if name in BOTH and len(args) >= 2:
        return provably_optional(args[0], depth + 1) and provably_optional(args[1], depth + 1)
    if name in ALL3 and len(args) >= 3:
        return all(provably_optional(a, depth + 1) for a in args[:3])
    if name in ANY and len(args) >= 2:
        return any(provably_optional(a, depth + 1) for a in args[:2])
    return False


def walk(ty, cb, depth=0):
    """call cb(name, args) for every generic type constructor mentioned in ty"""
    head, args = split_generic(ty)
    cb(head.split("::")[-1], args)
    if depth < 80:
        for a in args:
            walk(a, cb, depth + 1)


def head_chain(ty, n=4):
    out = []
    for _ in range(n):
        head, args = split_generic(ty)
        out.append(head.split("::")[-1])
        if not args:
            break
        ty = args[0]
    return "<".join(out)


SINGLE_CHILD = THROUGH + ("AndThenParser", "FilterParser", "FlatMapParser", "OrFailParser", "WithExpectedMessage")


def sequence(ty, depth=0):
    """The parts of a parser type in the order they run: AndParser<L, R, ..> is L's parts then R's;
    wrappers with one child are looked through; everything else is one part."""
    head, args = split_generic(ty)
    name = head.split("::")[-1]
    if depth < 60 and args:
        if name in BOTH and len(args) >= 2:
            return sequence(args[0], depth + 1) + sequence(args[1], depth + 1)
        if name in SINGLE_CHILD:
            return sequence(args[0], depth + 1)
    return [ty]
