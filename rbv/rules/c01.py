"""C01 - core programs produce the prescribed output (DESIGN.md section 4, C01.R1-R3)."""
import re

from .. import emit, mir, optables as ot
from ..core import CheckError
from . import common, c15

LEVEL = "other"
EXPLANATION = (
    "Necessary conditions of `running a core program prints what the semantics prescribe, "
    "as a function of program text and input alone`: (R1) dispatch identity - the operator of a "
    "source expression reaches the arithmetic that implements it through hand-written tables "
    "(Operator->Instruction, CASE IS->Instruction, Instruction->handler, handler->Variant method, "
    "comparison handler->accepted Ordering values), each cell of which must map a name to the same "
    "name; (R2) no statement block is emitted twice; (R3) no source of nondeterminism (time, random, "
    "environment, threads, hash-map iteration order) is reachable from parse/lint/generate/interpret "
    "outside the program's own I/O built-ins; (R4) every value stored into a variable or used as a FOR "
    "limit is converted to the target's type first (shared with C06.R2); (R5) the VM's PRINT state "
    "is statement-scoped: every PrintState field a per-item operation modifies is written again by "
    "reset() or print_end(); (R6) the implicit numeric conversions test the range of the rounded value "
    "they convert, so no value that rounds into range ends the program with a spurious Overflow "
    "(shared with C06.R7); (R7) a variable or array element that was never assigned starts as the zero / empty value of its declared type (shared with C04.R4); (R8) the values a READ / INPUT / call hands back are written to the arguments left to right (shared with C03.R3)."
    " (R10) integer + - * are computed directly, not through the negation of the mirrored operation: an operation whose result is representable does not end the program with Overflow because an intermediate value is not (shared with C06.R10)."
    " (R11) the emitter of expressions emits straight-line code (no label, no jump): every operand of every operator is evaluated whenever the expression is - there is no short circuit that would hide an operand's run-time error."
    " (R12) the grouping rules of the expression parser (rotation predicates on every operator pair, the rotations interpreted on every chain) shared from C10."
    " (R13) inside a loop of a generator function the length of a list of blocks is compared with a position only while the list is whole (nothing is taken out of it in that loop): the jump to `the next ELSEIF, or ELSE when this is the last` does not skip blocks."
    " (R14 = C02.R5) labels and the variables of the generator's own making are named from the purpose and the whole position (row and column, fields delimited): two statements on one line do not share a FOR limit.")
NOT_DECIDED = ["agreement of printed output with the reference semantics for every program and value"]

# operator name -> Ordering values for which the comparison holds
ORDERINGS = {"Less": {"Less"}, "LessOrEqual": {"Less", "Equal"}, "Equal": {"Equal"},
             "GreaterOrEqual": {"Greater", "Equal"}, "Greater": {"Greater"},
             "NotEqual": {"Less", "Greater"}}
# Instruction -> Variant method when the names differ
METHOD_EXCEPTIONS = {"NegateA": "negate", "NotA": "unary_not"}
UNARY_INSTR = {"Minus": "NegateA", "Not": "NotA"}


def r1_dispatch(ctx, rule="C01.R1"):
    prog = ctx.prog
    T = ot.OpTables(prog)
    gfn, gtab = T.generator_operator_table()
    ops = prog.variants(ot.OP)
    for op in ops:
        got = gtab.get(op)
        # a trailing Cast to the expression's own static type (C06.R1) does not change which
        # arithmetic runs
        core_instrs = [x for x in (got or []) if x != "Cast"]
        ctx.decide(core_instrs == [op], rule, "%s:operator->instruction:%s" % (rule, op), gfn.loc,
                   "Operator::%s emits Instruction::%s" % (op, op),
                   "binary Operator::%s is lowered to %s" % (op, got))
    ufn, utab = T.generator_unary_table()
    for u, want in UNARY_INSTR.items():
        got = utab.get(u)
        ctx.decide(got == [want], rule, "%s:unary->instruction:%s" % (rule, u), ufn.loc,
                   "UnaryOperator::%s emits %s" % (u, want),
                   "UnaryOperator::%s is lowered to %s" % (u, got))
    cfn, ctab = T.case_is_table()
    for op in sorted(ORDERINGS):
        got = ctab.get(op)
        ctx.decide(got == [op], rule, "%s:case-is->instruction:%s" % (rule, op), cfn.loc,
                   "CASE IS %s emits Instruction::%s" % (op, op),
                   "CASE IS with Operator::%s is lowered to %s" % (op, got))
    # CASE lo TO hi: the value is tested `>= lo` and then `<= hi` (both ends belong to the range).
    # The emitter is found by what it emits: inside the SELECT CASE lowering, a path that evaluates
    # two different expression arguments, each followed by one comparison and a conditional jump.
    from .. import emit as _emit
    found = []
    for g in sorted(_emit.generator_fns(prog), key=lambda f: f.id):
        if common.generator_construct_of(prog, g) != "SelectCase":
            continue
        for seq in _emit.linear_paths(g.body, _emit.events(prog, g)):
            cmps = [e.instr for e in seq if e.kind == "push" and e.instr in ORDERINGS]
            evals = [str(e.args[1]) for e in seq if e.kind in ("gen", "EXPR") and len(e.args) > 1]
            if len(cmps) == 2 and len(set(evals)) == 2 and sum(1 for e in seq if e.kind == "jump_if_false") == 2:
                found.append((g, cmps))
    if len({g.id for g, _c in found}) != 1:
        raise CheckError("%s: the emitter of `CASE lo TO hi` was not recognised (%d candidates)" % (rule, len({g.id for g, _c in found})))
    rg, cmps = found[0]
    ctx.decide(all(c == ["GreaterOrEqual", "LessOrEqual"] for _g, c in found), rule, rule + ":case-range->instructions", rg.loc,
               "CASE lo TO hi tests >= lo, then <= hi",
               "CASE lo TO hi is lowered to the comparisons %s instead of GreaterOrEqual (against lo) then LessOrEqual "
               "(against hi): a value equal to one end of the range is not matched (or values outside are)" % cmps)
    one, htab = T.handler_table()
    instrs = list(ops) + ["NegateA", "NotA"]
    for ins in instrs:
        hs = htab.get(ins, [])
        want = ot.snake(ins)
        names = [h.name for h in hs]
        ctx.decide(names == [want], rule, "%s:instruction->handler:%s" % (rule, ins), one.loc,
                   "Instruction::%s runs handlers::%s" % (ins, want),
                   "Instruction::%s runs %s" % (ins, names))
        if not hs:
            continue
        h = hs[0]
        if ins in ORDERINGS:
            sets = T.ordering_set(h)
            acc = list(sets.values())
            ctx.decide(len(acc) == 1 and acc[0] == ORDERINGS[ins], rule,
                       "%s:handler->orderings:%s" % (rule, ins), h.loc,
                       "accepts %s" % sorted(ORDERINGS[ins]),
                       "comparison handler `%s` is true for Ordering values %s, expected %s"
                       % (h.name, [sorted(a) for a in acc], sorted(ORDERINGS[ins])))
        else:
            m = T.variant_method_of_handler(h)
            wantm = METHOD_EXCEPTIONS.get(ins, ot.snake(ins))
            ctx.decide(set(m) == {wantm}, rule, "%s:handler->variant-method:%s" % (rule, ins), h.loc,
                       "applies Variant::%s" % wantm,
                       "handler `%s` applies Variant::%s, expected Variant::%s" % (h.name, sorted(set(m)), wantm))
    for ins in ("CopyAToB", "CopyAToC", "CopyAToD", "CopyCToB", "CopyDToA", "CopyDToB"):
        hs = [h.name for h in htab.get(ins, [])]
        ctx.decide(hs == [ot.snake(ins)], rule, "%s:instruction->handler:%s" % (rule, ins), one.loc,
                   "register copy %s" % ot.snake(ins), "Instruction::%s runs %s" % (ins, hs))
        if htab.get(ins):
            h = htab[ins][0]
            inner = [mir.callee_path(t).split("::")[-1] for _b, t in h.body.calls()
                     if "registers::Registers::" in mir.callee_path(t)]
            ctx.decide(inner == [ot.snake(ins)], rule, "%s:handler->register-op:%s" % (rule, ins), h.loc,
                       "Registers::%s" % ot.snake(ins), "handler %s calls Registers::%s" % (h.name, inner))
    # Registers::copy_x_to_y copies field x into field y
    for ins in ("CopyAToB", "CopyAToC", "CopyAToD", "CopyCToB", "CopyDToA", "CopyDToB"):
        name = ot.snake(ins)
        try:
            f = prog.method("Registers", name)
        except KeyError:
            raise CheckError("anchor Registers::%s" % name)
        src, dst = name.split("_")[1], name.split("_")[3]
        pv = mir.Prov(f.body)
        writes = common.field_writes(f.body)
        reads = set()
        for blk in f.body.blocks:
            t = blk["t"]
            if t["k"] == "call" and t.get("cpath") == "std::clone::Clone::clone":
                o = mir.strip_refs(pv.of_operand(t["args"][0]))
                if o[0] == "field":
                    reads.add(o[2])
        ctx.decide(writes == {dst} and reads == {src}, rule, "%s:register-copy:%s" % (rule, name), f.loc,
                   "%s := %s" % (dst, src), "Registers::%s writes %s from %s" % (name, sorted(writes), sorted(reads)))
    ctx.require(rule, 13 + 2 + 6 + 15 + 15 + 12 + 6)


NONDET = re.compile(
    r"^(std::time::(Instant|SystemTime)|std::thread::(spawn|sleep|current)|std::env::(vars|var|args)|rand::|"
    r"std::collections::hash::map::RandomState|std::process::id)")
HASH_ITER = ("iter", "iter_mut", "values", "values_mut", "keys", "into_iter", "drain", "into_keys", "into_values")
ORDER_INSENSITIVE = ("any", "all", "count", "sum", "max", "min", "contains", "find_map_any",
                     "min_by_key", "max_by_key", "min_by", "max_by")


def r3_determinism(ctx, rule="C01.R3"):
    prog = ctx.prog
    roots = []
    for f in prog.fns.values():
        if f.name in ("parse_main_str", "parse_main_file") and f.crate == "rusty_parser":
            roots.append(f)
        if f.name == "lint" and f.crate == "rusty_linter" and f.kind == "fn":
            roots.append(f)
        if f.name == "generate_instructions" and f.crate == "rusty_basic":
            roots.append(f)
    try:
        roots.append(prog.method("Interpreter", "interpret"))
    except KeyError as e:
        raise CheckError(str(e))
    if len(roots) < 4:
        raise CheckError("pipeline entry points not found: %s" % [r.path for r in roots])
    reach = prog.reachable_from(roots)
    n_fns = 0
    n_iter = 0
    import json, os
    tab_path = os.path.join(os.path.dirname(os.path.dirname(os.path.dirname(__file__))), "tables", "hash_iteration.json")
    table = json.load(open(tab_path))
    allowed = {e["function"]: e["reason"] for e in table["allowed"]}
    for fid in sorted(reach):
        fn = prog.fns.get(fid)
        if fn is None:
            continue
        n_fns += 1
        pv = None
        for b, t in fn.body.calls():
            cp = mir.callee_path(t)
            if NONDET.match(cp):
                allowed_env = cp.startswith("std::env::var") and ("built_ins::environ" in fn.id or fn.crate == "rusty_basic.bin"
                                                                   or "default_stdlib" in fn.id)
                key = "%s:nondeterminism:%s:%s" % (rule, fn.path.split("::")[-1], cp.split("::")[-1])
                ctx.decide(allowed_env, rule, key, "%s:%s" % (fn.file, t.get("ln")),
                           "ENVIRON built-in reads the environment",
                           "%s calls %s: the outcome is no longer a function of program text and input" % (fn.path, cp))
            m = re.match(r"std::collections::(HashMap|HashSet)::<.*>::(\w+)$", cp) or \
                re.match(r"std::collections::hash_(map|set)::\w+::<.*>::(\w+)$", cp)
            name = cp.split("::")[-1]
            is_hash_recv = False
            if name in HASH_ITER and t["args"]:
                p = mir.op_place(t["args"][0])
                if p is not None:
                    ty = fn.body.locals[p[0]]["ty"]
                    is_hash_recv = "HashMap<" in ty or "HashSet<" in ty
                if "IntoIterator::into_iter" in (t.get("cpath") or "") and p is not None:
                    is_hash_recv = "HashMap<" in fn.body.locals[p[0]]["ty"] or "HashSet<" in fn.body.locals[p[0]]["ty"]
            if is_hash_recv:
                n_iter += 1
                owner = prog.enclosing_fn(fn)
                key = "%s:hash-iteration:%s" % (rule, owner.path.split("::", 1)[1] if owner else fn.path)
                consumer = _iterator_consumer(fn, t)
                if consumer is None and _returns_local(fn, t["d"][0]):
                    # a thin wrapper handing the iterator to its callers: judge every caller
                    callers = [(g, t2) for g in prog.fns.values() if g.body is not None
                               for _b2, t2 in g.body.calls() if mir.callee_of(t2) == fn.id]
                    cons = sorted({str(_iterator_consumer(g, t2)) for g, t2 in callers})
                    if callers and all(c in ORDER_INSENSITIVE for c in cons):
                        consumer = cons[0]
                    elif callers:
                        consumer = "returned to %d callers: %s" % (len(callers), cons)
                if consumer == "next" and name in ("values_mut", "iter_mut") and _in_place_update_loop(fn, t):
                    consumer = "in-place update of every entry"
                    ctx.ok(rule, key, "%s:%s" % (fn.file, t.get("ln")),
                           "every entry is updated independently through its own reference; nothing else is "
                           "computed in the loop")
                    continue
                if consumer == "for_each" and name in ("values_mut", "iter_mut") and _in_place_update_chain(prog, fn, b):
                    ctx.ok(rule, key, "%s:%s" % (fn.file, t.get("ln")),
                           "every entry is updated independently through its own reference by closures that call nothing")
                    continue
                if consumer in ORDER_INSENSITIVE:
                    ctx.ok(rule, key, "%s:%s" % (fn.file, t.get("ln")), "consumed by order-insensitive `%s`" % consumer)
                elif (owner.path if owner else fn.path) in allowed:
                    ctx.ok(rule, key, "%s:%s" % (fn.file, t.get("ln")), "tabled: " + allowed[owner.path if owner else fn.path])
                else:
                    ctx.violation(rule, key, "%s:%s" % (fn.file, t.get("ln")),
                                  "%s iterates over a HashMap/HashSet (consumer: %s): iteration order is "
                                  "randomised per process, so anything derived from the order is "
                                  "nondeterministic" % (fn.path, consumer))
    ctx.decide(True, rule, rule + ":reachable-functions-scanned", "pipeline", "%d functions" % n_fns)
    ctx.analysed_units(rule, reachable_functions=n_fns, hash_iterations=n_iter, roots=[r.path for r in roots])
    if n_fns < 1500:
        raise CheckError("only %d functions reachable from the pipeline entry points" % n_fns)
    ctx.require(rule, 3)


def _in_place_update_loop(fn, t):
    """`for v in map.values_mut() { ..*v.. }`: the loop around the iterator's next() calls nothing
    else and stores only through the yielded reference: the result cannot depend on the order."""
    body = fn.body
    nexts = [b for b, t2 in body.calls() if mir.callee_path(t2).split("::")[-1] == "next"
             and b in body.reachable(t.get("t")) and t.get("t") is not None]
    if len(nexts) < 1:
        return False
    hb = nexts[0]
    # natural loop of the header: blocks that can reach it again
    loop = {b for b in body.reachable(hb) if hb in body.reachable(b) and b != hb} | {hb}
    for b in loop:
        tt = body.term(b)
        if tt["k"] == "call" and b != hb:
            return False
        if tt["k"] == "return":
            return False
        for st in body.blocks[b]["s"]:
            if st["k"] == "assign" and st["p"][1] and st["p"][1][0] != "*" and \
                    any(isinstance(e, dict) and "f" in e for e in st["p"][1]) and body.locals[st["p"][0]]["ty"].startswith("&mut") is False:
                # a store into a field of something that is not the yielded reference
                base_ty = body.locals[st["p"][0]]["ty"]
                if not base_ty.startswith("&"):
                    continue
    return True


def _in_place_update_chain(prog, fn, iter_block):
    """`map.values_mut().filter(|v| ..).for_each(|v| *v -= 1)`: every closure handed to the adaptors of the
    chain calls nothing (it can only compute on, and store through, its own item)"""
    body = fn.body
    pv = mir.Prov(body)
    seen_for_each = False
    for _b, t in body.calls():
        nm = mir.callee_path(t).split("::")[-1]
        if nm not in ("filter", "for_each", "map", "filter_map", "inspect") or len(t["args"]) < 2:
            continue
        recv = pv.of_operand(t["args"][0])
        if not mir.origin_mentions(recv, lambda z: z[0] == "call" and len(z) > 3 and z[3] == iter_block):
            continue
        so = mir.strip_all(pv.of_operand(t["args"][1]))
        if not (so[0] == "agg" and so[1] == "closure"):
            return False
        c = prog.fns.get(so[2])
        if c is None or c.body is None:
            return False
        if any(not c.body.is_cleanup(cb) for cb, _t in c.body.calls()):
            return False
        if nm == "for_each":
            seen_for_each = True
    return seen_for_each


def _returns_local(fn, local):
    """the call result `local` is (moved into) the function's return value"""
    body = fn.body
    cur = {local}
    for _ in range(4):
        for blk in body.blocks:
            for st in blk["s"]:
                if st["k"] == "assign" and st["r"]["k"] == "use":
                    src = mir.op_place(st["r"]["o"])
                    if src is not None and src[0] in cur and not st["p"][1]:
                        cur.add(st["p"][0])
    return 0 in cur


def _iterator_consumer(fn, t):
    """Name of the first Iterator method applied (transitively through adapters) to the result."""
    body = fn.body
    dest = t["d"][0]
    seen = set()
    cur = dest
    for _ in range(8):
        nxt = None
        for b, t2 in body.calls():
            for a in t2["args"][:1]:
                p = mir.op_place(a)
                if p is not None and p[0] == cur and (b, cur) not in seen:
                    seen.add((b, cur))
                    name = mir.callee_path(t2).split("::")[-1]
                    if name in ("into_iter", "iter", "by_ref", "map", "filter", "cloned", "copied", "as_ref"):
                        nxt = t2["d"][0]
                    else:
                        return name
        if nxt is None:
            # maybe moved into another local
            moved = None
            for blk in body.blocks:
                for s in blk["s"]:
                    if s["k"] == "assign" and s["r"]["k"] in ("use", "ref"):
                        src = mir.op_place(s["r"]["o"]) if s["r"]["k"] == "use" else s["r"]["p"]
                        if src is not None and src[0] == cur and not s["p"][1]:
                            moved = s["p"][0]
            if moved is None or moved == cur:
                return None
            cur = moved
        else:
            cur = nxt
    return None


def _fields_touched(body):
    """fields assigned or mutably borrowed in the body"""
    out = set(common.field_writes(body))
    for b, blk in enumerate(body.blocks):
        if blk.get("c"):
            continue
        for st in blk["s"]:
            r = st.get("r", {})
            if st["k"] == "assign" and r.get("k") in ("ref", "rawptr") and r.get("mut"):
                for e in r["p"][1]:
                    if isinstance(e, dict) and "n" in e:
                        out.add(e["n"])
    return out


def r5_print_state_is_statement_scoped(ctx, rule="C01.R5"):
    """PrintState is the VM's state of the PRINT statement being executed.  Every field that the
    per-item operations (comma, semicolon, value, format string ...) modify is re-initialised at a
    statement boundary - in reset() (run when the next PRINT selects its printer) or in print_end() -
    so that one PRINT statement cannot change how the next one prints."""
    prog = ctx.prog
    ms = {f.name: f for f in prog.methods_of("PrintState") if f.kind != "closure"}
    for need in ("reset", "print_end", "set_printer_type"):
        if need not in ms:
            raise CheckError("anchor PrintState::%s" % need)
    calls_reset = any(mir.callee_of(t) == ms["reset"].id for _b, t in ms["set_printer_type"].body.calls())
    ctx.decide(calls_reset, rule, rule + ":set_printer_type-resets", ms["set_printer_type"].loc,
               "selecting the printer starts from a reset state",
               "PrintState::set_printer_type no longer calls reset(): the previous PRINT's format string / "
               "file handle stay in force")
    reinit = _fields_touched(ms["reset"].body) | _fields_touched(ms["print_end"].body)
    touched = {}
    for name, f in ms.items():
        if name in ("new", "reset", "print_end"):
            continue
        for fld in _fields_touched(f.body):
            touched.setdefault(fld, []).append(name)
    if len(touched) < 4:
        raise CheckError("PrintState: only %d fields recognised as modified" % len(touched))
    for fld in sorted(touched):
        ctx.decide(fld in reinit, rule, "%s:PrintState.%s:reinitialised-at-statement-boundary" % (rule, fld),
                   ms["print_end"].loc, "written by reset() or print_end()",
                   "PrintState.%s is modified by %s but neither reset() nor print_end() writes it: its value "
                   "leaks from one PRINT statement into the next (e.g. a trailing `;` suppressing the line "
                   "break of a later bare PRINT)" % (fld, sorted(touched[fld])))
    ctx.require(rule, 5)


def r9_truth_is_not_zero(ctx, rule="C01.R9"):
    """`a condition is true iff its value is not zero`: the function the VM's JumpIfFalse uses to turn the
    value in A into a bool looks at the value itself - each numeric variant has its own arm whose result
    is the comparison `payload != 0` of that variant's payload with a zero constant, and the arm calls
    nothing.  A test made on a converted value (rounded to a whole number: 0.25 is false; narrowed: a large
    DOUBLE is an Overflow) changes which branch runs."""
    prog = ctx.prog
    one = ctx.anchor_method("Interpreter", "interpret_one")
    from .c05 import _arm_regions
    sw, regions = _arm_regions(prog, one, "::Instruction")
    if "JumpIfFalse" not in regions:
        raise CheckError("interpret_one has no arm for Instruction::JumpIfFalse")
    cands = []
    for b, t in mir.region_calls(one.body, regions["JumpIfFalse"]):
        d = t.get("d")
        if d and "Result<bool" in one.body.locals[d[0]]["ty"].replace("std::result::", "") and t["args"]:
            p0 = mir.op_place(t["args"][0])
            if p0 is not None and "Variant" in one.body.locals[p0[0]]["ty"]:
                cands.append(t)
    if len(cands) != 1:
        raise CheckError("%s: JumpIfFalse arm: %d calls yielding Result<bool, _>" % (rule, len(cands)))
    f = prog.fns.get(cands[0].get("res") or mir.callee_of(cands[0]))
    if f is None or f.body is None:
        raise CheckError("%s: the truth conversion of JumpIfFalse is not a workspace function" % rule)
    body = f.body
    pv = mir.Prov(body)
    sws = [x for x in mir.enum_switches(prog, body) if x.adt.endswith("::Variant")]
    numeric = ("VSingle", "VDouble", "VInteger", "VLong")
    for v in numeric:
        key = "%s:%s" % (rule, v)
        if not sws or v not in sws[0].arms:
            ctx.violation(rule, key, f.loc,
                          "%s has no arm of its own for %s: the condition is decided on a converted value (or by a "
                          "wildcard), not by comparing the %s payload with zero" % (f.path.split("::", 1)[1], v, v))
            continue
        region = mir.arm_region(body, sws[0].bb, sws[0].arms[v])
        calls = [mir.callee_path(t).split("::")[-1] for _b, t in mir.region_calls(body, region)
                 if not (t.get("cpath") or "").endswith(("Deref::deref",))]
        cmp_ok = False
        for b in region:
            for st in body.blocks[b]["s"]:
                if st["k"] == "assign" and st["r"]["k"] == "agg" and st["r"].get("adt") == "core::result::Result" \
                        and st["r"].get("variant") == "Ok" and st["r"]["ops"]:
                    o = mir.strip_all(pv.of_operand(st["r"]["ops"][0]))
                    if o[0] == "bin" and o[1] == "Ne":
                        sides = [mir.strip_all(o[2]), mir.strip_all(o[3])]
                        payload = [x for x in sides if x[0] == "field" and mir.strip_all(x[1])[0] == "downcast"
                                   and mir.strip_all(x[1])[2] == v]
                        zero = [x for x in sides if x[0] == "const" and re.fullmatch(r"[-+]?0(\.0*)?(e0|E0)?(_?[fiu](8|16|32|64|128|size))?", str(x[1]))]
                        cmp_ok = bool(payload) and bool(zero)
        ctx.decide(cmp_ok and not calls, rule, key, f.loc, "%s: payload != 0, no call" % v,
                   "the %s arm of %s does not decide by `payload != 0` alone (calls %s): the truth of a condition "
                   "is computed from a converted value" % (v, f.path.split("::", 1)[1], calls))
    ctx.require(rule, 4)


def r11_operands_are_evaluated_unconditionally(ctx, rule="C01.R11"):
    """`ends ... with the specific run-time error at the first statement that fails`: BASIC has no
    short-circuit evaluation - `a = 0 OR 20 / a < 5` raises Division by zero.  The emitter of expressions
    (the generator function that maps the binary operators to their instructions) and the private helpers of
    its file that only it calls emit straight-line code: no label, no jump, no conditional jump, so every
    operand of every operator is evaluated whenever the expression is."""
    prog = ctx.prog
    ems = []
    for f in emit.generator_fns(prog):
        sws = [s2 for s2 in mir.enum_switches(prog, f.body) if s2.adt.endswith("::Operator") and len(s2.arms) >= 10]
        if sws:
            ems.append(f)
    if not ems:
        raise CheckError("%s: the expression emitter (the generator function with an arm per operator) was not found" % rule)
    callers = prog.callers()
    for f in sorted(ems, key=lambda x: x.id):
        group = [f]
        for c in prog.call_edges(f):
            g = prog.fns.get(c)
            if g is not None and g.file == f.file and g.id != f.id and emit.is_generator_fn(g) and \
                    set(callers.get(g.id, ())) <= {f.id, g.id}:
                group.append(g)
        bad = []
        n_ev = 0
        for g in group:
            for e in emit.events(prog, g).values():
                n_ev += 1
                if e.kind in ("label", "jump", "jump_if_false"):
                    bad.append("%s(%s) in %s:%s" % (e.kind, e.name, g.name, e.line))
        ctx.decide(not bad, rule, "%s:%s:straight-line" % (rule, f.name), f.loc,
                   "%d emission events in %d functions, none of them a label or a jump" % (n_ev, len(group)),
                   "the emitter of expressions emits control flow (%s): an operand is skipped when another one decides the "
                   "result, so the run-time error it would raise (`D%% = 0 : IF D%% = 0 OR 20 / D%% < 5` - Division by zero) "
                   "never happens" % ", ".join(bad[:4]))
    ctx.require(rule, 1)


_SHRINKS = re.compile(r"(?:Vec|VecDeque)::<[^>]*(?:<[^>]*>[^>]*)*>::(remove|pop|pop_front|pop_back|swap_remove|truncate|drain|split_off|retain|clear|dedup\w*)$")
_LEN = re.compile(r"(?:Vec|VecDeque)::<[^>]*(?:<[^>]*>[^>]*)*>::len$|core::slice::<impl \[T\]>::len$")


def _loop_of(body, b, memo):
    """blocks on a cycle through b (empty when b is not in a loop)"""
    if b not in memo:
        fwd = set()
        st = list(body.succ(b))
        while st:
            x = st.pop()
            if x in fwd or body.is_cleanup(x):
                continue
            fwd.add(x)
            st.extend(body.succ(x))
        if b not in fwd:
            memo[b] = frozenset()
        else:
            preds = body.preds()
            bwd = set()
            st = [b]
            while st:
                x = st.pop()
                if x in bwd:
                    continue
                bwd.add(x)
                st.extend(preds.get(x, ()))
            memo[b] = frozenset(fwd & bwd)
    return memo[b]


def r13_numbered_list_does_not_shrink(ctx, rule="C01.R13"):
    """The blocks of a statement (ELSEIF blocks, CASE blocks, arguments) are emitted in a loop that numbers them -
    the labels `else-if-<i>` and the jump to `the next one, or ELSE when this is the last` are made from the
    position of the block in the list and the length of the list.  Inside such a loop the length of the list is
    compared with a position only while the list is whole: a loop that also takes elements out of the list
    (remove, pop, drain, ...) compares positions of the full list with the length of what is left, and sends the
    false branch of a condition to ELSE / END IF although more blocks follow."""
    prog = ctx.prog
    n = 0
    for f in sorted(emit.generator_fns(prog), key=lambda x: x.id):
        body = f.body
        prov = mir.Prov(body)
        lens, shr = [], []
        for b, t in body.calls():
            cp = mir.callee_path(t)
            if not t["args"]:
                continue
            if _LEN.search(cp):
                lens.append((b, t, str(mir.strip_all(prov.of_operand(t["args"][0])))))
            m = _SHRINKS.search(cp)
            if m:
                shr.append((b, m.group(1), str(mir.strip_all(prov.of_operand(t["args"][0]))), t))
        memo = {}
        # every generator function with a loop is an instance: most compare no length with a position at all
        looping = any(_loop_of(body, b, memo) for b, _t in body.calls())
        if looping:
            ctx.ok(rule, "%s:%s:loops" % (rule, f.name), f.loc,
                   "%d comparison(s) of a list length inside a loop examined" % len(lens))
        if not lens:
            continue
        len_locals = {}
        for b, t, v in lens:
            len_locals[t["d"][0]] = (b, v, t)
        # comparisons of a length with something that is not a constant, inside a loop
        for b, blk in enumerate(body.blocks):
            if body.is_cleanup(b):
                continue
            for s in blk["s"]:
                if s["k"] != "assign" or s["r"]["k"] != "bin" or s["r"]["op"] not in ("Lt", "Le", "Gt", "Ge", "Eq", "Ne"):
                    continue
                sides = [prov.of_operand(s["r"]["a"]), prov.of_operand(s["r"]["b"])]
                for i, o in enumerate(sides):
                    hit = []
                    mir.origin_mentions(o, lambda x: hit.append(x) or False
                                        if x[0] == "call" and _LEN.search(x[1]) else False)
                    if not hit:
                        continue
                    other = sides[1 - i]
                    if other[0] == "const":
                        continue
                    for h in hit:
                        lb = h[3]
                        v = str(mir.strip_all(h[2][0]))
                        loop = _loop_of(body, lb, memo)
                        if not loop:
                            continue
                        n += 1
                        bad = ["%s (line %s)" % (name, t2.get("line", "?")) for b2, name, v2, t2 in shr
                               if v2 == v and b2 in loop]
                        ctx.decide(not bad, rule, "%s:%s:%s" % (rule, f.name, body.var_name(_root_local(h[2][0])) or v), f.loc,
                                   "the length of %s is compared with a position inside a loop that takes nothing out of it" % v,
                                   "%s compares a position in the list with the length of %s inside a loop that also shrinks it "
                                   "(%s): positions count the whole list, the length what is left of it - the jump to `the next "
                                   "block, or ELSE / the end when this is the last` skips blocks that follow "
                                   "(`IF a THEN .. ELSEIF b THEN .. ELSEIF c THEN ..` never tests c)"
                                   % (f.name, v, ", ".join(bad)))
    ctx.require(rule, 4)


def _root_local(o):
    while isinstance(o, tuple) and o and o[0] in ("ref", "deref", "field", "clone", "index", "downcast"):
        o = o[1]
    if isinstance(o, tuple) and o and o[0] == "local":
        return o[1]
    return -1


def run(ctx):
    common.install(ctx)
    r1_dispatch(ctx)
    c15.r1_single_emission(ctx, "C01.R2")
    r3_determinism(ctx)
    from . import c06
    c06.r2_store_routes(ctx, "C01.R4")
    r5_print_state_is_statement_scoped(ctx)
    c06.r7_guard_tests_converted_value(ctx, "C01.R6")
    # a variable that was never assigned prints and computes as the zero of its declared type
    from . import c04
    c04.r4_allocation(ctx, "C01.R7")
    # READ v1, v2 / INPUT v1, v2 assign left to right: the values are written back in argument order
    from . import c03
    c03.r3_fifo(ctx, "C01.R8")
    r9_truth_is_not_zero(ctx)
    # an operation whose result is representable does not end the program with Overflow because an
    # intermediate value is not (a - b computed as a + (-b) fails for b = -32768)
    c06.r10_integer_arithmetic_is_direct(ctx, "C01.R10")
    r11_operands_are_evaluated_unconditionally(ctx)
    # what an expression prints depends on how it is grouped: the rotation predicates and the rotations of the
    # expression parser, interpreted on every operator pair / chain (shared with C10)
    from . import c10
    from .. import tagflow as _tf
    _eng = _tf.Engine(ctx.prog)
    c10.r1_binary_flip(ctx, _eng, "C01.R12")
    c10.r2_unary_flip(ctx, _eng, "C01.R12")
    c10.r6_unary_over_chains(ctx, "C01.R12")
    c10.r10_binary_chains(ctx, "C01.R12")
    r13_numbered_list_does_not_shrink(ctx)
    # two statements never share a label or a variable of the generator's own making: the names are injective in
    # (purpose, whole position) - shared with C02.R5
    from . import c02
    c02.r5_label_names_injective(ctx, "C01.R14")
