"""C05 - GOTO/GOSUB/RETURN, ON ERROR/RESUME (DESIGN.md section 4, C05.R1-R6)."""
from .. import emit, mir
from ..core import CheckError
from . import common

LEVEL = "other"
EXPLANATION = (
    "Structural necessary conditions of the control-transfer property, decided on the MIR of "
    "the current tree: (R1) every RuntimeError variant that can be constructed has a code in "
    "get_code and the codes the properties name are the ones returned; (R2) in the generator a "
    "statement mark follows every emitted user block before the next emitted instruction "
    "(RESUME NEXT target); (R3) the three RESUME arms agree (clear ERR via "
    "take_last_error_address, pop the handler context) and the error edge pushes that context; "
    "(R4) GOSUB/RETURN stack ownership; (R5) register frames vs. user jumps; (R6) the error arm "
    "of the fetch-execute loop restores the structures a failing statement had opened; (R7) no arm of "
    "interpret_one stores its jump target before its last failure point; (R8) label tables; (R9) in the generator's statement dispatcher no Statement variant emits an instruction on a path that has not recorded the statement's address, so every statement kind that can fail is a resume point."
    " (R13) for every part of a construct that can fail at run time, the nearest statement mark before it in emission order leads to it in execution order (the emitted code of every template path is walked with label names as terms): RESUME executes the failing part of the statement again instead of leaving or re-entering the construct. (R11, extended) RESUME label cuts the VM stacks back to the depths recorded by the outermost active call.")
NOT_DECIDED = [
    "that control arrives exactly where written for every program layout (value-level addresses)",
    "RESUME re-executes the *same* statement (depends on the statement-address search, run time)",
]

RE = "rusty_basic::interpreter::error::RuntimeError"

# codes the property texts name (C05: 3; C06: 6; C12: 13; C17: 5; C18: 55, 53, 62); C04: 9
NAMED_CODES = {"ReturnWithoutGoSub": 3, "IllegalFunctionCall": 5, "Overflow": 6,
               "SubscriptOutOfRange": 9, "DivisionByZero": 11, "TypeMismatch": 13,
               "FileNotFound": 53, "FileAlreadyOpen": 55, "InputPastEndOfFile": 62}


def r1_error_codes(ctx, rule="C05.R1"):
    prog = ctx.prog
    fn = ctx.anchor_method("RuntimeError", "get_code")
    sws = [s for s in mir.enum_switches(prog, fn.body, RE)]
    if len(sws) != 1:
        raise CheckError("get_code: expected one match on RuntimeError, found %d" % len(sws))
    sw = sws[0]
    variants = prog.variants(RE)
    panics = {}
    codes = {}
    for v in variants:
        tgt = sw.arms.get(v, sw.otherwise)
        if tgt is None:
            raise CheckError("get_code: variant %s has no arm" % v)
        region = mir.arm_region(fn.body, sw.bb, tgt)
        p = [t for _b, t in mir.region_calls(fn.body, region) if mir.is_panic_call(t)]
        panics[v] = bool(p)
        # code constant assigned to the return place in the arm
        for b in sorted(region):
            for s in fn.body.blocks[b]["s"]:
                if s["k"] == "assign" and s["p"][0] == 0 and s["r"]["k"] == "use":
                    k = s["r"]["o"].get("k")
                    if k and "int" in k:
                        codes[v] = k["int"]
    constructed = common.constructed_variants(prog, RE, crate="rusty_basic")
    ctx.analysed_units(rule, get_code=fn.loc, variants=len(variants),
                       constructed={v: sorted(fs)[:3] for v, fs in constructed.items()})
    for v in variants:
        key = "%s:get_code:%s" % (rule, v)
        if v not in constructed:
            ctx.ok(rule, key, fn.loc, "variant is never constructed in non-test code")
            continue
        ctx.decide(not panics[v], rule, key, fn.loc,
                   "code %s" % codes.get(v),
                   "RuntimeError::%s is constructed (%s) but its get_code arm panics; the "
                   "fetch-execute loop calls get_code on every error" %
                   (v, ", ".join(sorted(constructed[v])[:2])))
    for v, want in sorted(NAMED_CODES.items()):
        key = "%s:code:%s" % (rule, v)
        if v not in variants:
            raise CheckError("RuntimeError::%s no longer exists" % v)
        if panics.get(v):
            continue
        ctx.decide(codes.get(v) == want, rule, key, fn.loc, "code %d" % want,
                   "get_code(%s) returns %s, the properties name %d" % (v, codes.get(v), want))
    # no two variants share a code
    inv = {}
    for v, c in codes.items():
        if not panics.get(v):
            inv.setdefault(c, []).append(v)
    for c, vs in sorted(inv.items()):
        ctx.decide(len(vs) == 1, rule, "%s:distinct:%s" % (rule, "+".join(sorted(vs))), fn.loc,
                   "code %d is unique" % c, "variants %s share code %d" % (vs, c))
    ctx.require(rule, 20)


def _after_return(prog, fn, seen):
    """first non-label emission after a call of emitter fn in each of its callers (recursively while
    the caller returns without emitting).  The walk ends by itself at the statement loop, whose next
    iteration starts with the next statement's own mark."""
    if fn.id in seen:
        return []
    seen.add(fn.id)
    bad = []
    for g in emit.generator_fns(prog):
        gevs = emit.events(prog, g)
        for b, ev in gevs.items():
            if ev.kind != "gen" or ev.callee is None or ev.callee.id != fn.id:
                continue
            found, ret = emit.first_events_after(g.body, gevs, b, stop=lambda x: x.kind != "label")
            bad += [(x, p, g) for x, p in found if x.kind != "mark"]
            if ret:
                bad += _after_return(prog, g, seen)
    return bad


def r2_mark_after_block(ctx, rule="C05.R2"):
    prog = ctx.prog
    n_sites = 0
    for fn in sorted(emit.generator_fns(prog), key=lambda f: f.id):
        evs = emit.events(prog, fn)
        blocks = [e for e in evs.values() if e.kind == "BLOCK"]
        for e in sorted(blocks, key=lambda e: e.bb):
            n_sites += 1
            what = mir.short_origin(e.args[1]) if len(e.args) > 1 else "?"
            key = "%s:%s:block(%s)" % (rule, fn.name, what)
            loc = "%s:%s" % (fn.file, e.line)
            found, ret = emit.first_events_after(
                fn.body, evs, e.bb, stop=lambda x: x.kind != "label")
            bad = [(x, p, fn) for x, p in found if x.kind != "mark"]
            if ret and not bad:
                # the block is the last thing this emitter emits on some path: what the callers emit
                # next is what follows the block
                bad = _after_return(prog, fn, set())
            if bad:
                x, path, where = bad[0]
                ctx.violation(rule, key, loc,
                              "after the user block %s the next emitted instruction is %s (%s line %s) "
                              "with no mark_statement_address() in between: RESUME NEXT after an "
                              "error in the block's last statement continues at the wrong place"
                              % (what, x.show(), where.name, x.line),
                              {"function": fn.path, "path_blocks": list(path)})
            else:
                ctx.ok(rule, key, loc, "mark (or return to the enclosing emitter) follows on every path")
    ctx.analysed_units(rule, block_sites=n_sites)
    ctx.require(rule, 11)


def _arm_regions(prog, fn, adt_suffix):
    """variant -> region of the (unique) outermost switch over an enum whose id ends with suffix."""
    sws = [s for s in mir.enum_switches(prog, fn.body) if s.adt.endswith(adt_suffix)]
    if not sws:
        raise CheckError("%s: no match over %s" % (fn.name, adt_suffix))
    sw = max(sws, key=lambda s: len(s.arms))
    out = {}
    for v, tgt in sw.arms.items():
        out[v] = mir.arm_region(fn.body, sw.bb, tgt)
    return sw, out


def _called_names(body, region):
    return [mir.callee_path(t) for _b, t in mir.region_calls(body, region)]


def r3_resume_agree(ctx, rule="C05.R3"):
    prog = ctx.prog
    one = ctx.anchor_method("Interpreter", "interpret_one")
    sw, regions = _arm_regions(prog, one, "::Instruction")
    # the routine that consumes the recorded error address: found by what it does (Option::take of the field)
    takers = []
    for g in prog.fns.values():
        if g.file != one.file or g.body is None or g.kind == "closure" or g.id == one.id:
            continue
        gpv = mir.Prov(g.body)
        for _b, t in g.body.calls():
            if mir.callee_path(t).endswith("Option::<T>::take") and t["args"]:
                o = mir.strip_refs(gpv.of_operand(t["args"][0]))
                if o[0] == "field" and o[2] == "last_error_address":
                    takers.append(g)
    if len(takers) != 1:
        raise CheckError("%s: expected one routine that takes last_error_address, found %d" % (rule, len(takers)))
    take = takers[0]
    take_name = "::" + take.name
    for v in ("Resume", "ResumeNext", "ResumeLabel"):
        if v not in regions:
            raise CheckError("interpret_one has no arm for Instruction::%s" % v)
        # the arm, and a private helper of the same file that the arm calls (shared by the three arms)
        names = common.region_callee_paths_deep(prog, one.body, regions[v])
        n_take = sum(1 for n in names if n.endswith(take_name))
        n_pop = sum(1 for n in names if n.endswith("context::Context::pop"))
        ctx.decide(n_take == 1, rule, "%s:%s:clears-ERR" % (rule, v), one.loc,
                   "calls take_last_error_address once",
                   "the %s arm calls take_last_error_address %d times (ERR not cleared / error "
                   "address not consumed)" % (v, n_take))
        ctx.decide(n_pop == 1, rule, "%s:%s:pops-handler-context" % (rule, v), one.loc,
                   "calls Context::pop once",
                   "the %s arm calls Context::pop %d times: the handler context pushed on the "
                   "error edge is not (or doubly) removed" % (v, n_pop))
    # take_last_error_address clears last_error_code and takes last_error_address
    writes = common.field_writes(take.body)
    takes = [mir.callee_path(t) for _b, t in take.body.calls()]
    ctx.decide("last_error_code" in writes, rule, rule + ":take:clears-code", take.loc,
               "assigns last_error_code", "take_last_error_address no longer clears last_error_code")
    pv = mir.Prov(take.body)
    took_addr = False
    for b, t in take.body.calls():
        if mir.callee_path(t).endswith("Option::<T>::take") and t["args"]:
            o = mir.strip_refs(pv.of_operand(t["args"][0]))
            if o[0] == "field" and o[2] == "last_error_address":
                took_addr = True
    ctx.decide(took_addr, rule, rule + ":take:takes-address", take.loc,
               "takes last_error_address", "take_last_error_address no longer consumes the address")
    # error edge: push_error_handler_context exactly on the Address edge
    interp, sw = common.error_dispatch(prog)
    for v in prog.variants(sw.adt):
        tgt = sw.arms.get(v, sw.otherwise)
        region = mir.arm_region(interp.body, sw.bb, tgt)
        names = common.region_callee_paths_deep(prog, interp.body, region)
        n_push = sum(1 for n in names if n.endswith("::push_error_handler_context"))
        want = 1 if v == "Address" else 0
        ctx.decide(n_push == want, rule, "%s:error-edge:%s:push-context" % (rule, v), interp.loc,
                   "push_error_handler_context x%d" % n_push,
                   "ErrorHandler::%s edge pushes the handler context %d times (want %d): RESUME "
                   "pops exactly one" % (v, n_push, want))
        if v == "Address":
            w = set(common.field_writes(interp.body, region)) | _deep_field_writes(prog, interp, region)
            ipv = mir.Prov(interp.body)
            for _b, t in mir.region_calls(interp.body, region):
                # Option::insert / replace overwrite unconditionally, like an assignment
                if mir.callee_path(t).split("::")[-1] in ("insert", "replace") and t["args"]:
                    o = mir.strip_refs(ipv.of_operand(t["args"][0]))
                    if o[0] == "field" and o[2] == "last_error_address":
                        w.add("last_error_address")
            ctx.decide("last_error_address" in w, rule, rule + ":error-edge:Address:stores-address",
                       interp.loc, "stores last_error_address",
                       "the handler edge does not unconditionally record the address of the failing instruction "
                       "(no assignment / insert / replace of last_error_address): RESUME and RESUME NEXT then refer "
                       "to an older error whose handler was left without RESUME")
    # last_error_code is set from get_code before dispatch
    got = [1 for b, t in interp.body.calls() if mir.callee_path(t).endswith("RuntimeError::get_code")]
    ctx.decide(len(got) == 1 and "last_error_code" in common.field_writes(interp.body),
               rule, rule + ":error-edge:sets-ERR", interp.loc, "ERR := get_code(e)",
               "the error branch does not set last_error_code from get_code")
    ctx.require(rule, 13)


def r4_gosub_pairing(ctx, rule="C05.R4"):
    prog = ctx.prog
    one = ctx.anchor_method("Interpreter", "interpret_one")
    users = common.field_users(prog, "go_sub_address_stack", owner_suffix="::Interpreter")
    # users: fn id -> list of (method applied or 'assign')
    sw, regions = _arm_regions(prog, one, "::Instruction")
    per_arm = {}
    pv = mir.Prov(one.body)
    for v, region in regions.items():
        for b, t in mir.region_calls(one.body, region):
            if not t["args"]:
                continue
            o = mir.strip_refs(pv.of_operand(t["args"][0]))
            if o[0] == "field" and o[2] == "go_sub_address_stack":
                per_arm.setdefault(v, []).append(mir.callee_path(t).split("::")[-1])
    from .. import vm as vmmod
    V = vmmod.VM(prog)
    eff, _one = V.instruction_effects()
    gi = vmmod.DIMS.index("gosub")
    gos = sorted({v[gi] for v in eff.get("GoSub", [])})
    ret = sorted({v[gi] for v in eff.get("Return", [])})
    ctx.decide(gos == [1], rule, rule + ":GoSub:push", one.loc,
               "GoSub pushes exactly one return address on every path",
               "the GoSub arm changes go_sub_address_stack by %s on its paths (want +1)" % gos)
    ctx.decide(ret == [-1], rule, rule + ":Return:pop", one.loc,
               "every non-failing path of Return pops exactly one address",
               "the Return arm changes go_sub_address_stack by %s on its non-failing paths (want -1 on "
               "every path): a GOSUB left through RETURN stays pending" % ret)
    MUTATING = ("push", "pop", "insert", "remove", "clear", "truncate", "drain", "swap_remove", "retain", "append")
    per_arm = {v: [m for m in ms if m in MUTATING] for v, ms in per_arm.items()}
    per_arm = {v: ms for v, ms in per_arm.items() if ms}
    # Another arm may only *discard the addresses of a call that has ended*: a truncate to the depth
    # that PushRet recorded (RETURN must never see a caller's or an ended call's address).  Anything
    # else in another arm takes or adds an address behind GOSUB / RETURN's back.
    others = {}
    for v, ms in per_arm.items():
        if v in ("GoSub", "Return"):
            continue
        if v == "PopRet" and ms == ["truncate"] and _truncates_to_recorded_depth(prog, one, regions, "go_sub_address_stack"):
            continue
        others[v] = ms
    ctx.decide(not others, rule, rule + ":no-other-arm", one.loc,
               "no other arm takes or adds an address (PopRet may cut back to the depth PushRet recorded)",
               "arms %s also change go_sub_address_stack" % sorted(others))
    # outside interpret_one: reading the depth is free; a function that changes the stack must be a
    # helper of the GoSub / Return arms (its effect is then part of the arm's effect checked above)
    outside = []
    for fid in sorted(users):
        if fid == one.id or fid.endswith("::new"):
            continue
        f = prog.fns.get(fid)
        ms = [m for m in _methods_on_field(f, "go_sub_address_stack") if m in MUTATING] if f is not None else ["?"]
        if not ms and f is not None and not _assigns_field(f, "go_sub_address_stack"):
            continue
        callers = _call_sites_of(prog, fid)
        ok_arms = set(regions.get("GoSub", ())) | set(regions.get("Return", ()))
        if callers and all(cf == one.id and cb in ok_arms for cf, cb in callers):
            continue
        # discarding the addresses of calls that have ended (cutting back to a depth PushRet recorded)
        # takes nothing away from the running call
        if f is not None and _only_truncates_to_recorded_depth(
                prog, f, None, "go_sub_address_stack", _recorded_depth_index(prog, one, regions, "go_sub_address_stack")):
            continue
        outside.append(fid)
    ctx.decide(not outside, rule, rule + ":owner", one.loc,
               "outside the GoSub / Return arms (and their helpers) go_sub_address_stack is only read, or cut back to a recorded depth",
               "go_sub_address_stack is also changed by %s" % outside)
    # GOSUB / RETURN pair up inside one procedure call ("the most recent GOSUB not yet returned from"
    # cannot be one of a caller, or of a call that has ended): PopRet cuts the stack back to the depth
    # PushRet recorded, and the pop of RETURN is guarded by a comparison of the stack's length
    ctx.decide(_truncates_to_recorded_depth(prog, one, regions, "go_sub_address_stack"),
               rule, rule + ":scoped:PopRet-discards-ended-call", one.loc,
               "PopRet truncates go_sub_address_stack to the depth PushRet recorded",
               "PopRet does not cut go_sub_address_stack back to the depth recorded by PushRet: a GOSUB that "
               "a SUB / FUNCTION leaves pending is taken by a later RETURN of its caller, which then jumps "
               "into the body of a call that has ended")
    guarded = _pop_is_guarded_by_depth(prog, one, regions.get("Return", ()), "go_sub_address_stack",
                                       "return_address_stack")
    ctx.decide(guarded, rule, rule + ":scoped:Return-own-call-only", one.loc,
               "the pop of RETURN is guarded by a comparison of the stack length in a function that reads "
               "return_address_stack",
               "the Return arm pops go_sub_address_stack without comparing its length with the depth recorded "
               "for the running call: RETURN inside a SUB / FUNCTION takes an address of its caller")
    # empty case -> ReturnWithoutGoSub
    aggs = [s["r"]["variant"] for _b, s in mir.region_aggregates(one.body, regions.get("Return", ()))
            if s["r"].get("adt") == RE]
    ctx.decide(aggs == ["ReturnWithoutGoSub"], rule, rule + ":Return:empty-is-error-3", one.loc,
               "RETURN with an empty stack raises ReturnWithoutGoSub",
               "Return arm constructs %s" % aggs)
    ctx.require(rule, 7)


def _methods_on_field(fn, field):
    out = []
    for body in common.all_bodies(fn):
        pv = mir.Prov(body)
        for b, t in body.calls():
            if not t["args"]:
                continue
            o = mir.strip_refs(pv.of_operand(t["args"][0]))
            if o[0] == "field" and o[2] == field:
                out.append(mir.callee_path(t).split("::")[-1])
    return out


def _assigns_field(fn, field):
    for body in common.all_bodies(fn):
        if field in common.field_writes(body):
            return True
    return False


def _call_sites_of(prog, fid):
    out = []
    for g in prog.fns.values():
        if g.body is None:
            continue
        for b, t in g.body.calls():
            if (t.get("res") or mir.callee_of(t)) == fid or mir.callee_of(t) == fid:
                out.append((g.id, b))
    return out


def _recorded_depth_index(prog, one, regions, field):
    """index of the component of a return_address_stack entry that PushRet fills with `field.len()`"""
    pv = mir.Prov(one.body)
    for b, t in mir.region_calls(one.body, regions.get("PushRet", ())):
        if mir.callee_path(t).split("::")[-1] != "push" or len(t["args"]) < 2:
            continue
        o = mir.strip_refs(pv.of_operand(t["args"][0]))
        if not (o[0] == "field" and o[2] == "return_address_stack"):
            continue
        v = mir.strip_refs(pv.of_operand(t["args"][1]))
        if v[0] == "agg":
            for idx, c in enumerate(v[3]):
                c = mir.strip_refs(c)
                if c[0] == "call" and c[1].split("::")[-1] == "len" and c[2]:
                    r = mir.strip_refs(c[2][0])
                    if r[0] == "field" and r[2] == field:
                        return idx
    return None


def _only_truncates_to_recorded_depth(prog, fn, region, field, idx):
    """every change of `field` in fn (or the region of it) is `field.truncate(n)` with n the idx-th
    component of an entry of return_address_stack"""
    if idx is None:
        return False
    body = fn.body
    pv = mir.Prov(body)
    seen = 0
    MUT = ("push", "pop", "insert", "remove", "clear", "truncate", "drain", "swap_remove", "retain", "append")
    for b, t in (mir.region_calls(body, region) if region is not None else body.calls()):
        if not t["args"]:
            continue
        o = mir.strip_refs(pv.of_operand(t["args"][0]))
        if not (o[0] == "field" and o[2] == field):
            continue
        name = mir.callee_path(t).split("::")[-1]
        if name not in MUT:
            continue
        if name != "truncate" or len(t["args"]) < 2:
            return False
        n = mir.strip_refs(pv.of_operand(t["args"][1]))
        if not (n[0] == "field" and str(n[2]) == str(idx) and mir.origin_mentions(
                n[1], lambda x: x[0] == "field" and len(x) > 2 and x[2] == "return_address_stack")):
            return False
        seen += 1
    return seen > 0


def _truncates_to_recorded_depth(prog, one, regions, field):
    return _only_truncates_to_recorded_depth(prog, one, regions.get("PopRet", ()), field,
                                             _recorded_depth_index(prog, one, regions, field))


def _pop_is_guarded_by_depth(prog, one, region, field, depth_holder):
    """The call that pops `field` (in the arm, or in a same-file helper the arm calls) is dominated by a
    branch on a comparison one side of which is `field.len()`, in a function that reads `depth_holder`."""
    cands = [(one, set(region))]
    for b, t in mir.region_calls(one.body, region):
        g = prog.fns.get(t.get("res") or mir.callee_of(t))
        if g is not None and g.file == one.file and g.id != one.id and g.body is not None:
            cands.append((g, None))
    for f, reg in cands:
        body = f.body
        pv = mir.Prov(body)
        pops = []
        for b, t in body.calls():
            if reg is not None and b not in reg:
                continue
            if mir.callee_path(t).split("::")[-1] in ("pop", "pop_back", "pop_front") and t["args"]:
                o = mir.strip_refs(pv.of_operand(t["args"][0]))
                if o[0] == "field" and o[2] == field:
                    pops.append(b)
        if not pops:
            continue
        reads_holder = depth_holder in _fields_mentioned(body)
        ok_all = True
        for pb in pops:
            ok = False
            for sb in range(body.nblocks):
                t = body.term(sb)
                if t["k"] != "switch" or not body.dominates(sb, pb) or sb == pb:
                    continue
                p = mir.op_place(t["o"])
                if p is None:
                    continue
                o = pv.of_place(p)
                if o[0] == "bin" and o[1] in ("Gt", "Lt", "Ge", "Le") and any(_is_len_of(x, field) for x in (o[2], o[3])):
                    ok = True
            ok_all = ok_all and ok
        return ok_all and reads_holder
    return False


def _is_len_of(o, field):
    o = mir.strip_refs(o)
    if o[0] == "call" and o[1].split("::")[-1] == "len" and o[2]:
        r = mir.strip_refs(o[2][0])
        return r[0] == "field" and r[2] == field
    return False


def _fields_mentioned(body):
    out = set()
    for b, blk in enumerate(body.blocks):
        if blk.get("c"):
            continue
        places = []
        for st in blk["s"]:
            if st["k"] == "assign":
                places.append(st["p"])
                r = st["r"]
                if "p" in r:
                    places.append(r["p"])
                for kk in ("o", "a", "b"):
                    if kk in r and isinstance(r[kk], dict):
                        q = mir.op_place(r[kk])
                        if q:
                            places.append(q)
        t = blk["t"]
        if t["k"] == "call":
            for a in t["args"]:
                q = mir.op_place(a)
                if q:
                    places.append(q)
        for pl in places:
            for e in pl[1]:
                if isinstance(e, dict) and e.get("n"):
                    out.add(e["n"])
    return out


def _touches_field(prog, fn, region, field, also=(), depth=2):
    """Some call in `region` of fn works on the receiver's `field` (first argument), directly or in a
    helper of the same file that the region calls (an arm moved into a private method)."""
    pv = mir.Prov(fn.body)
    for b, t in mir.region_calls(fn.body, region):
        for a in t["args"][:1]:
            o = mir.strip_refs(pv.of_operand(a))
            if o[0] == "field" and o[2] == field:
                return True
        if also and mir.callee_path(t).endswith(also):
            return True
        g = prog.fns.get(t.get("res") or mir.callee_of(t))
        if depth and g is not None and g.id != fn.id and g.file == fn.file:
            whole = [b2 for b2 in range(g.body.nblocks) if not g.body.is_cleanup(b2)]
            if _touches_field(prog, g, whole, field, also, depth - 1):
                return True
    return False


def _frame_around_block(kinds):
    """[(event kind, instruction)] of one emission path: a register frame brackets a user block"""
    if ("push", "PushRegisters") in kinds and ("push", "PopRegisters") in kinds:
        i = kinds.index(("push", "PushRegisters"))
        j = kinds.index(("push", "PopRegisters"))
        return "BLOCK" in [k for k, _ in kinds[i:j]]
    return False


def _parks_around_code(kinds):
    """a value is pushed onto the value stack and generated code - a block, a construct, or an operand
    expression, which can call a FUNCTION or fail and be resumed past - runs before it is popped"""
    if ("push", "PushAToValueStack") not in kinds:
        return False
    i = kinds.index(("push", "PushAToValueStack"))
    return any(k in ("gen", "BLOCK", "EXPR", "STMT") for k, _i in kinds[i + 1:])


def r5_register_frames(ctx, rule="C05.R5"):
    """PushRegisters..BLOCK..PopRegisters brackets can be left by user jumps inside the block;
    the Jump arm of the VM must then unwind register_stack (it does not)."""
    prog = ctx.prog
    one = ctx.anchor_method("Interpreter", "interpret_one")
    sw, regions = _arm_regions(prog, one, "::Instruction")
    unwinding = {}
    for v in ("Jump", "ResumeLabel", "ResumeNext", "Resume", "PopRet", "PushRet"):
        unwinding[v] = _touches_field(prog, one, regions.get(v, ()), "register_stack",
                                      also=("registers::pop_registers", "::register_stack"))
    n = 0
    for fn in sorted(emit.generator_fns(prog), key=lambda f: f.id):
        evs = emit.events(prog, fn)
        for seq in emit.linear_paths(fn.body, evs):
            kinds = [(e.kind, e.instr) for e in seq]
            if _frame_around_block(kinds):
                if True:
                    n += 1
                    # keyed by the construct (ForLoop), not by the name of the private emitter
                    key = "%s:%s:frame-around-user-block" % (rule, common.generator_construct_of(prog, fn))
                    ctx.decide(unwinding["Jump"], rule, key, fn.loc,
                               "Jump unwinds the register stack",
                               "a register frame brackets a user block in %s, but the VM's Jump "
                               "arm never unwinds register_stack: GOTO out of the loop body "
                               "leaves the frame pushed" % fn.name)
                    break
    if n:
        # EXIT SUB / EXIT FUNCTION (and END SUB reached by GOTO) leave a subprogram through PopRet:
        # the frames its FOR loops pushed must not survive the call.  PushRet records the depth of the
        # register stack, PopRet restores it.
        ctx.decide(unwinding["PopRet"] and unwinding["PushRet"], rule, rule + ":PopRet:restores-register-frames", one.loc,
                   "PushRet reads and PopRet restores the depth of register_stack",
                   "a register frame brackets a user block, but leaving the subprogram (PopRet: EXIT SUB, EXIT "
                   "FUNCTION) does not restore the register stack to its depth at the call (PushRet touches "
                   "register_stack: %s, PopRet: %s): EXIT SUB inside a FOR body leaves the loop's frame pushed and "
                   "the caller's FOR reads the callee's limit and step" % (unwinding["PushRet"], unwinding["PopRet"]))
    # the same for the value stack: SELECT CASE parks its selector on the value stack around the user
    # blocks of its CASEs; EXIT SUB / EXIT FUNCTION inside a CASE leaves through PopRet, which must
    # restore the depth the value stack had at the call (the caller's own parked operands stay)
    parks = False
    for fn in emit.generator_fns(prog):
        evs = emit.events(prog, fn)
        for seq in emit.linear_paths(fn.body, evs):
            kinds = [(e.kind, e.instr) for e in seq]
            if _parks_around_code(kinds):
                parks = True
    if parks:
        vs = {v: _touches_field(prog, one, regions.get(v, ()), "value_stack") for v in ("PopRet", "PushRet")}
        ctx.decide(vs["PopRet"] and vs["PushRet"], rule, rule + ":PopRet:restores-value-stack", one.loc,
                   "PushRet reads and PopRet restores the depth of value_stack",
                   "generated code parks a value on the value stack while other code runs (an operand while the other operand is evaluated), but leaving the "
                   "subprogram from inside it (PopRet: EXIT SUB, EXIT FUNCTION) does not restore the value stack to its "
                   "depth at the call (PushRet touches value_stack: %s, PopRet: %s): the parked value is then taken for "
                   "an operand of the caller's expression (`PRINT 100 + F%%(2)` prints 9)" % (vs["PushRet"], vs["PopRet"]))
    if not n and not parks:
        # nothing is kept on a VM stack around user code: FOR keeps its limit and step, SELECT CASE the
        # value it selects on, in variables of their own, so a jump into or out of a block, EXIT SUB and
        # RESUME have nothing to unwind.  The detector is exercised on synthetic paths so that a frame or
        # a parked value that comes back is seen
        E = emit.Ev
        frame = [("push", "PushRegisters"), ("BLOCK", None), ("push", "PopRegisters")]
        park = [("push", "PushAToValueStack"), ("EXPR", None), ("push", "PopValueStackIntoA")]
        if not (_frame_around_block(frame) and not _frame_around_block(park) and _parks_around_code(park)
                and not _parks_around_code(frame)):
            raise CheckError("%s: self-test of the frame / parked-value detector failed" % rule)
        ctx.ok(rule, rule + ":nothing-kept-on-a-stack-around-user-code", "instruction_generator",
               "no generator emits a register frame around a user block or parks a value on the value stack "
               "around generated code (%d generator functions); detector self-test passed" % len(emit.generator_fns(prog)))
    ctx.analysed_units(rule, frames=n, parks=parks)
    ctx.require(rule, 1)


def _error_branch_region(interp):
    """blocks of `interpret` that run only after interpret_one returned Err"""
    body = interp.body
    pv = mir.Prov(body)
    call_b = [b for b, t in body.calls() if mir.callee_path(t).split("::")[-1] == "interpret_one"]
    if len(call_b) != 1:
        raise CheckError("interpret: %d calls of interpret_one" % len(call_b))
    for b in range(body.nblocks):
        t = body.term(b)
        if t["k"] != "switch" or body.is_cleanup(b):
            continue
        p = mir.op_place(t["o"])
        if p is None:
            continue
        o = pv.of_place(p)
        if o[0] == "discr":
            base = mir.strip_refs(o[1])
            if base[0] == "call" and base[3] == call_b[0]:
                hit = [tgt for val, tgt in t["ts"] if val == 1]
                tgt = hit[0] if hit else t["else"]
                return {x for x in range(body.nblocks) if body.dominates(tgt, x) and not body.is_cleanup(x)}
    raise CheckError("interpret: the result of interpret_one is not matched")


_SHRINK = ("truncate", "clear", "pop", "pop_back", "pop_front", "drain", "remove", "swap_remove", "split_off",
           "retain", "take")


def _shrinks_field(prog, fn, region, field, depth=2):
    pv = mir.Prov(fn.body)
    for b, t in mir.region_calls(fn.body, region):
        if t["args"] and mir.callee_path(t).split("::")[-1] in _SHRINK:
            o = mir.strip_refs(pv.of_operand(t["args"][0]))
            if o[0] == "field" and o[2] == field:
                return "%s:%s %s" % (fn.name, t.get("ln"), mir.callee_path(t).split("::")[-1])
        g = prog.fns.get(t.get("res") or mir.callee_of(t))
        if depth and g is not None and g.id != fn.id and g.file == fn.file and g.body is not None:
            whole = [b2 for b2 in range(g.body.nblocks) if not g.body.is_cleanup(b2)]
            r = _shrinks_field(prog, g, whole, field, depth - 1)
            if r:
                return r
    return None


def r6_error_unwinding(ctx, rule="C05.R6"):
    """The error path undoes what the failing statement had opened on the context stack:
    (a) both handler edges drop argument-collecting states (sibling agreement: the Address edge
    does it through push_error_handler_context); (b) a failing built-in leaves its callee context
    (pushed by PushStack) popped before the error propagates."""
    prog = ctx.prog
    interp, sw = common.error_dispatch(prog)
    direct, shrinking = common.fns_shrinking_field(prog, "states")
    if not direct:
        raise CheckError("no function shrinks Context::states: anchor lost")
    for v in ("Address", "Next"):
        tgt = sw.arms.get(v, sw.otherwise)
        region = mir.arm_region(interp.body, sw.bb, tgt)
        calls = [mir.callee_of(t) for _b, t in mir.region_calls(interp.body, region)]
        hit = [c for c in calls if c in shrinking]
        ctx.decide(bool(hit), rule, "%s:%s-edge:drops-argument-states" % (rule, v), interp.loc,
                   "calls %s" % [h.split("::")[-1] for h in hit],
                   "the ErrorHandler::%s edge calls nothing that shrinks Context::states: an error "
                   "raised while arguments are being collected (e.g. `Foo 1 / Z`) leaves the "
                   "argument-collecting state on the context stack" % v)
    # every (not just the innermost) argument-collecting state is dropped: the shrinking call of
    # the routine used on the handler edges sits on a CFG cycle
    def shrink_call(t, body):
        return mir.callee_of(t) in shrinking or mir.callee_of(t) in direct or \
            (mir.callee_path(t).split("::")[-1] in common.VEC_SHRINK and
             common.receiver_field(mir.Prov(body), t) == "states")

    def iterated(fid, seen=()):
        """the function (or a routine it calls) pops Context::states on a CFG cycle"""
        f = prog.fns.get(fid)
        if f is None or f.body is None or fid in seen:
            return False
        for b, t in f.body.calls():
            if shrink_call(t, f.body):
                if b in {x for s2 in f.body.succ(b) for x in f.body.reachable(s2)}:
                    return True
                if iterated(mir.callee_of(t), seen + (fid,)):
                    return True
        return False

    for fid in sorted({c for v in ("Address", "Next") for c in
                       [mir.callee_of(t) for _b, t in mir.region_calls(
                           interp.body, mir.arm_region(interp.body, sw.bb, sw.arms.get(v, sw.otherwise)))]
                       if c in shrinking}):
        f = prog.fns[fid]
        ctx.decide(iterated(fid), rule, "%s:%s:drops-all-argument-states" % (rule, f.name), f.loc,
                   "the drop is iterated until a normal state is on top",
                   "%s drops at most one argument-collecting state (the pop is not in a loop): an error "
                   "inside nested argument evaluation leaves a state behind" % f.name)
    # The statement that fails sits inside constructs that stay open when the program goes on after the
    # handler (RESUME, RESUME NEXT, ON ERROR RESUME NEXT): what those constructs parked on the value stack
    # (SELECT CASE: the selected value) and on the register stack (FOR: limit and step) is still needed by
    # their closing code, so the error branch must not shrink either stack
    err_region = _error_branch_region(interp)
    # ... and a call whose argument write-back runs a FUNCTION (`S A(F(1))`) has by-reference values and its
    # own result parked on by_ref_stack / function_result while that FUNCTION runs: a handled error inside it
    # must leave them for the outer call
    for field in ("value_stack", "register_stack", "by_ref_stack", "function_result"):
        hit = _shrinks_field(prog, interp, err_region, field)
        ctx.decide(not hit, rule, "%s:error-branch-keeps:%s" % (rule, field), interp.loc,
                   "the error branch does not shrink %s" % field,
                   "the error branch of the fetch-execute loop shrinks %s (%s): a construct that is still open when "
                   "the program resumes (SELECT CASE keeps the selected value there, FOR its limit and step, a call in "
                   "flight its by-reference values and result) pops an entry that is gone - stack underflow at "
                   "END SELECT / NEXT / the write-back after a handled error"
                   % (field, hit))
    one = ctx.anchor_method("Interpreter", "interpret_one")
    sw1, regions = _arm_regions(prog, one, "::Instruction")
    for v in ("BuiltInSub", "BuiltInFunction"):
        if v not in regions:
            raise CheckError("interpret_one has no arm for Instruction::%s" % v)
        region = regions[v]
        runs = [(b, t) for b, t in mir.region_calls(one.body, region)
                if mir.callee_path(t).endswith(("built_ins::run_sub", "built_ins::run_function"))]
        if len(runs) != 1:
            raise CheckError("%s arm: expected one call to built_ins::run_*, found %d" % (v, len(runs)))
        # blocks that execute only when the built-in returned Err: error side of `?`, or the
        # Err arm of an explicit match on the result
        err_blocks = common.try_error_blocks(one.body, region) & region
        for s in mir.enum_switches(prog, one.body):
            if s.bb in region and s.adt == "core::result::Result" and "Err" in s.arms:
                err_blocks |= mir.arm_region(one.body, s.bb, s.arms["Err"])
        # closures called on the error (map_err) do not have access to the context
        calls = [mir.callee_of(t) for b, t in mir.region_calls(one.body, err_blocks)]
        hit = [c for c in calls if c in shrinking]
        ctx.decide(bool(hit), rule, "%s:%s:error-path-pops-callee-context" % (rule, v), one.loc,
                   "error path calls %s" % [h.split("::")[-1] for h in hit],
                   "when the built-in fails, the %s arm returns the error without popping the "
                   "callee context that PushStack created; after a handled error (RESUME NEXT) "
                   "the caller runs on the built-in's variables" % v)
        # ... and it is the very operation the PopStack instruction would have performed (sibling
        # agreement): a routine that only drops argument-collecting states removes nothing here,
        # the state on top is the normal state PushStack made
        def deep(region_):
            out = set()
            for _b, t in mir.region_calls(one.body, region_):
                c = mir.callee_of(t)
                out.add(c)
                g = prog.fns.get(c)
                if g is not None and g.file == one.file and g.kind != "const":
                    out |= {mir.callee_of(t2) for _b2, t2 in g.body.calls()}
            return out
        if "PopStack" not in regions:
            raise CheckError("interpret_one has no arm for Instruction::PopStack")
        pops = {c for c in deep(regions["PopStack"]) if c in shrinking and prog.fns.get(c) is not None
                and prog.fns[c].file != one.file}
        if not pops:
            raise CheckError("%s: the PopStack arm calls nothing that shrinks Context::states" % rule)
        missing = pops - deep(err_blocks)
        ctx.decide(not missing, rule, "%s:%s:error-path-pops-like-PopStack" % (rule, v), one.loc,
                   "the error path performs %s, as PopStack does" % sorted(x.split("::")[-1] for x in pops),
                   "when the built-in fails, the %s arm does not perform the context operation of the PopStack it "
                   "skips (%s): the state PushStack made stays on the context stack and, after RESUME NEXT, the caller "
                   "runs on the failed built-in's empty variables" % (v, sorted(x.split("::")[-1] for x in missing)))
    # the same for every other instruction the call templates emit right after the context push (PushStack /
    # PushStaticStack) and before control reaches the callee: PushRet, the jump.  An arm that can end in an error
    # there must pop the callee context first - the handler edges only drop argument-collecting states
    after_push = set()
    gens = emit.generator_fns(prog)
    pure = {}
    for g in gens:
        evs = emit.events(prog, g)
        pure[g.id] = [e.instr for e in evs.values()] if evs and all(e.kind == "push" and e.instr for e in evs.values()) else None
    for g in gens:
        evs = emit.events(prog, g)
        for seq in emit.linear_paths(g.body, evs, max_paths=400):
            armed = False
            for e in seq:
                instrs = [e.instr] if e.kind == "push" else (pure.get(e.callee.id) if e.kind == "gen" and e.callee is not None else None)
                if instrs is None:
                    armed = False
                    continue
                for ins in instrs:
                    if ins in ("PushStack", "PushStaticStack"):
                        armed = True
                    elif ins == "PopStack":
                        armed = False
                    elif armed:
                        after_push.add(ins)
    if not {"BuiltInSub", "BuiltInFunction", "PushRet"} <= after_push:
        raise CheckError("%s: instructions emitted after the context push not found (%s)" % (rule, sorted(after_push)))
    for v in sorted(after_push - {"BuiltInSub", "BuiltInFunction"}):
        if v not in regions:
            raise CheckError("interpret_one has no arm for Instruction::%s" % v)
        region = regions[v]
        srcs = set()
        tb = common.try_error_blocks(one.body, region) & region
        if tb:
            srcs.add(min(tb))
        for b in region:
            for st in one.body.blocks[b]["s"]:
                r = st.get("r", {})
                if st["k"] == "assign" and r.get("k") == "agg" and (r.get("adt") or "") == "core::result::Result" and r.get("variant") == "Err":
                    srcs.add(b)
        shr = {b for b, t in mir.region_calls(one.body, region) if mir.callee_of(t) in shrinking}
        entry = sw1.arms[v]
        exits = {x for b in region for x in one.body.succ(b) if x not in region} | {b for b in region if one.body.term(b)["k"] == "return"}
        bad = [b for b in srcs if not (one.body.every_path_passes(entry, {b}, shr) or one.body.every_path_passes(b, exits, shr))]
        ctx.decide(not bad, rule, "%s:%s:error-path-pops-callee-context" % (rule, v), one.loc,
                   "the arm cannot fail" if not srcs else "every failing path pops the callee context",
                   "the generator emits %s after the callee's context was pushed (PushStack), and its arm in interpret_one "
                   "can end in an error without popping that context: after a handled error (RESUME NEXT, ON ERROR RESUME "
                   "NEXT) the caller runs on the variables of the call that never started, and every later PopStack pops "
                   "the wrong state" % v)
    ctx.analysed_units(rule, shrinkers=sorted(x.split("::")[-1] for x in direct), after_context_push=sorted(after_push))
    ctx.require(rule, 12)


def r7_transfer_committed_last(ctx, rule="C05.R7"):
    """An instruction that can fail must not have committed its control transfer before it fails:
    in every arm of interpret_one a store into ctx.opt_next_index (the address the loop continues
    at) is not followed, on any path of the arm, by the error side of a `?`.  (The loop only clears
    opt_next_index after a successful instruction, so a stale target would be taken by the error
    handler's first instruction: a failing `RESUME label` would act like a GOTO.)"""
    prog = ctx.prog
    one = ctx.anchor_method("Interpreter", "interpret_one")
    body = one.body
    sw, regions = _arm_regions(prog, one, "::Instruction")
    err_targets = set()
    for b, t in body.calls():
        if (t.get("cpath") or "").endswith("Try::branch") and t.get("t") is not None:
            tt = body.term(t["t"])
            if tt["k"] == "switch":
                err_targets |= {tgt for val, tgt in tt["ts"] if val == 1}
    # the field that carries the transfer is the one the plain Jump arm assigns (whatever its name)
    transfer = set()
    for b in regions.get("Jump", ()):
        for st in body.blocks[b]["s"]:
            if st["k"] == "assign":
                transfer |= {e.get("n") for e in st["p"][1] if isinstance(e, dict) and e.get("n")}
    if len(transfer) != 1:
        raise CheckError("%s: the Jump arm of interpret_one assigns %d fields (expected the one that holds "
                         "the next instruction index)" % (rule, len(transfer)))
    field = next(iter(transfer))
    n = 0
    for v in sorted(regions):
        region = regions[v]
        writes = []
        for b in region:
            for st in body.blocks[b]["s"]:
                if st["k"] == "assign" and any(isinstance(e, dict) and e.get("n") == field for e in st["p"][1]):
                    writes.append((b, st.get("ln")))
        if not writes:
            continue
        n += 1
        bad = [(b, ln) for b, ln in writes if any(x in err_targets and x in region for x in body.reachable(b))]
        ctx.decide(not bad, rule, "%s:%s:transfer-after-last-failure-point" % (rule, v), one.loc,
                   "the jump target is stored after everything that can fail",
                   "the %s arm stores its jump target (line %s) and can still fail afterwards: the loop keeps the "
                   "stale target, and the error handler's first instruction jumps there instead of running the handler"
                   % (v, bad[0][1] if bad else ""))
    ctx.analysed_units(rule, arms_that_transfer_control=n)
    ctx.require(rule, 6)


def r9_every_emitting_statement_is_marked(ctx, rule="C05.R9"):
    """`every statement kind as the failing statement`: RESUME / RESUME NEXT find the failing
    statement and its successor in the table of statement addresses.  A statement whose lowering
    emits instructions but whose address is not recorded belongs, for the VM, to the statement
    before it: RESUME re-executes that one as well, RESUME NEXT skips the one after.  In the
    statement dispatcher of the generator, for every variant of Statement: on the paths that variant
    takes, no instruction is emitted before mark_statement_address() was called.  (A variant that
    emits nothing - a comment, CONST - needs no mark.)"""
    prog = ctx.prog
    disp = None
    for g in emit.generator_fns(prog):
        sws = [s for s in mir.enum_switches(prog, g.body) if s.adt.endswith("::Statement")]
        if sws:
            sw = max(sws, key=lambda s: len(s.arms))
            if disp is None or len(sw.arms) > len(disp[1].arms):
                disp = (g, sw, sws)
    if disp is None or len(disp[1].arms) < 10:
        raise CheckError("%s: statement dispatcher of the generator not found" % rule)
    g, main_sw, sws = disp
    body = g.body
    evs = emit.events(prog, g)
    if not any(e.kind == "mark" for e in evs.values()):
        # the mark may sit in the caller (the statement loop): then it is unconditional
        raise CheckError("%s: the statement dispatcher %s never calls mark_statement_address" % (rule, g.name))
    # switches on the same statement value (the dispatch itself and tests such as
    # `if let Statement::Comment(_) = &statement` / `matches!(statement, ..)`)
    pv = mir.Prov(body)

    def root(place):
        o = mir.strip_refs(pv.of_place(place))
        return str(o)
    same = {s.bb: s for s in sws if s.place[0] == main_sw.place[0] or root(s.place) == root(main_sw.place)}
    n = 0
    for v in prog.variants(main_sw.adt):
        # path-sensitive in the flags that `matches!` / `if let .. else` set before testing them
        seen, st, bad = set(), [(0, frozenset())], None
        while st and bad is None:
            b, env = st.pop()
            if (b, env) in seen or body.is_cleanup(b):
                continue
            seen.add((b, env))
            e = evs.get(b)
            if e is not None:
                if e.kind == "mark":
                    continue
                bad = e
                break
            flags = dict(env)
            for stt in body.blocks[b]["s"]:
                if stt["k"] == "assign" and not stt["p"][1]:
                    r_ = stt["r"]
                    k = r_.get("o", {}).get("k") if r_["k"] == "use" else None
                    src = mir.op_place(r_["o"]) if r_["k"] in ("use", "un") and isinstance(r_.get("o"), dict) else None
                    if k is not None and k.get("ty") == "bool" and "int" in k:
                        flags[stt["p"][0]] = k["int"]
                    elif src is not None and not src[1] and src[0] in flags and r_["k"] == "use":
                        flags[stt["p"][0]] = flags[src[0]]          # `let is_comment = matches!(..)`
                    elif src is not None and not src[1] and src[0] in flags and r_.get("op") == "Not":
                        flags[stt["p"][0]] = 1 - flags[src[0]]      # `!is_comment`
                    else:
                        flags.pop(stt["p"][0], None)
            t = body.term(b)
            if t["k"] == "call" and not t["d"][1]:
                flags.pop(t["d"][0], None)
            env2 = frozenset(flags.items())
            if b in same:
                sw_ = same[b]
                tgt = sw_.arms.get(v, sw_.otherwise)
                if tgt is not None:
                    st.append((tgt, env2))
                continue
            p_ = mir.op_place(t["o"]) if t["k"] == "switch" else None
            if p_ is not None and not p_[1] and p_[0] in flags and t.get("ty") == "bool":
                val = flags[p_[0]]
                tg = [x for vv, x in t["ts"] if vv == val]
                st.append((tg[0] if tg else t["else"], env2))
                continue
            st.extend((x, env2) for x in body.succ(b))
        n += 1
        ctx.decide(bad is None, rule, "%s:%s" % (rule, v), g.loc,
                   "no instruction is emitted for this statement before its address is recorded",
                   "the lowering of Statement::%s emits %s (line %s) on a path that has not called "
                   "mark_statement_address(): the statement is no resume point, so after an error in it RESUME "
                   "re-executes the statement before it as well, and RESUME NEXT after an error in the "
                   "statement before it skips this one" % (v, bad.show() if bad else "", bad.line if bad else ""))
    ctx.analysed_units(rule, statement_kinds=n, dispatcher=g.path)
    ctx.require(rule, 20)


class _WhileHandling:
    """TagFlow engine that assumes `last_error_address` holds an address wherever it is looked at."""

    def __init__(self, prog, file):
        from .. import tagflow
        outer = self
        self.hits = []
        self.looked = []
        self._pv = {}

        class Eng(tagflow.Engine):
            def do_call(eng, fn, body, env, t):
                path = mir.callee_path(t)
                last = path.split("::")[-1]
                if last == "push_error_handler_context":
                    outer.hits.append((fn.path, t.get("ln")))
                if last in ("is_some", "is_none") and t["args"]:
                    o = mir.strip_refs(outer.pv(body).of_operand(t["args"][0]))
                    if o[0] == "field" and o[2] == "last_error_address":
                        outer.looked.append((fn.path, t.get("ln")))
                        return [tagflow.K(1 if last == "is_some" else 0)]
                return super().do_call(fn, body, env, t)

            def do_switch(eng, fn, body, env, t):
                p = mir.op_place(t["o"])
                if p is not None:
                    o = outer.pv(body).of_place(p)
                    if o[0] == "discr":
                        base = mir.strip_refs(o[1])
                        if base[0] == "field" and base[2] == "last_error_address":
                            outer.looked.append((fn.path, None))
                            for val, tgt in t["ts"]:
                                if val == 1:
                                    return [(tgt, env)]
                            return [(t["else"], env)]
                return super().do_switch(fn, body, env, t)

        self.eng = Eng(prog, follow=lambda f: f.file == file and f.name != "interpret_one")

    def pv(self, body):
        k = id(body)
        if k not in self._pv:
            self._pv[k] = mir.Prov(body)
        return self._pv[k]


def r10_no_handler_reentry(ctx, rule="C05.R10"):
    """An error raised while a handler is running (after the transfer to the handler, before RESUME
    clears `last_error_address`) must end the program: entering the handler again would overwrite the
    address RESUME refers to and, when the handler itself fails, never terminate.  Decided by walking
    the error branch of the fetch-execute loop (and the private helpers it calls) under the assumption
    that `last_error_address` is set: the call that enters a handler must be unreachable."""
    prog = ctx.prog
    interp = ctx.anchor_method("Interpreter", "interpret")
    body = interp.body
    pv = mir.Prov(body)
    call_b = [b for b, t in body.calls() if mir.callee_path(t).split("::")[-1] == "interpret_one"]
    if len(call_b) != 1:
        raise CheckError("interpret: %d calls of interpret_one" % len(call_b))
    err_tgt = None
    for b in range(body.nblocks):
        t = body.term(b)
        if t["k"] != "switch" or body.is_cleanup(b):
            continue
        p = mir.op_place(t["o"])
        if p is None:
            continue
        o = pv.of_place(p)
        if o[0] == "discr":
            base = mir.strip_refs(o[1])
            if base[0] == "call" and base[3] == call_b[0]:
                hit = [tgt for val, tgt in t["ts"] if val == 1]
                err_tgt = hit[0] if hit else t["else"]
    if err_tgt is None:
        raise CheckError("interpret: the result of interpret_one is not matched")
    W = _WhileHandling(prog, interp.file)
    W.eng.run(interp, body, {}, start=err_tgt)
    # the walker must be able to see a handler entry at all: without the assumption it is reached
    from .. import tagflow
    plain_hits = []

    class Plain(tagflow.Engine):
        def do_call(eng, fn, b2, env, t):
            if mir.callee_path(t).split("::")[-1] == "push_error_handler_context":
                plain_hits.append(fn.path)
            return super().do_call(fn, b2, env, t)
    Plain(prog, follow=lambda f: f.file == interp.file and f.name != "interpret_one").run(interp, body, {}, start=err_tgt)
    if not plain_hits:
        raise CheckError("the error branch of interpret never reaches push_error_handler_context (anchor lost)")
    ctx.decide(not W.hits, rule, rule + ":error-in-handler-is-fatal", interp.loc,
               "with last_error_address set, the error branch cannot enter a handler (%d reads of the field steer it)"
               % len(W.looked),
               "the error branch enters the handler again (%s) although an error is already being handled "
               "(last_error_address set, %d reads of it on the way): a failing handler runs forever and "
               "RESUME loses the first error's address" % (sorted(set(W.hits))[:2], len(W.looked)))
    ctx.require(rule, 1)


def r11_resume_label_abandons_active_calls(ctx, rule="C05.R11"):
    """`RESUME label continues at the label ... leaving every variable as the handler left it`: the label
    of RESUME is a label of the main module (C05.R8 / the label tables), so when the error was raised
    inside SUB / FUNCTION calls those calls are over once the program continues at the label: the
    ResumeLabel arm (or a helper it calls) must drop their return addresses, their call sites in the stack
    trace and - iterating - their contexts.  Otherwise the main module goes on with the procedure's
    variables in scope and a later error lists calls that are no longer active."""
    prog = ctx.prog
    one = ctx.anchor_method("Interpreter", "interpret_one")
    sw, regions = _arm_regions(prog, one, "::Instruction")
    if "ResumeLabel" not in regions:
        raise CheckError("interpret_one has no arm for Instruction::ResumeLabel")
    region = regions["ResumeLabel"]
    for field, what in (("return_address_stack", "the return addresses of the abandoned calls"),
                        ("stacktrace", "the call sites of the abandoned calls")):
        hit = _shrinks_field(prog, one, region, field)
        ctx.decide(bool(hit), rule, "%s:drops:%s" % (rule, field), one.loc, "ResumeLabel: %s" % hit,
                   "the ResumeLabel arm leaves %s in place (%s is not shrunk): after `RESUME label` out of a SUB the "
                   "main module runs on with the SUB still `active`" % (what, field))
    # the contexts: a Context routine that pops states in a loop
    direct, shrinking = common.fns_shrinking_field(prog, "states")

    def iterated(fid, seen=()):
        f = prog.fns.get(fid)
        if f is None or f.body is None or fid in seen:
            return False
        for b, t in f.body.calls():
            c = mir.callee_of(t)
            is_shrink = c in shrinking or c in direct or (
                mir.callee_path(t).split("::")[-1] in common.VEC_SHRINK and
                common.receiver_field(mir.Prov(f.body), t) == "states")
            if is_shrink:
                if b in {x for s2 in f.body.succ(b) for x in f.body.reachable(s2)}:
                    return True
                if iterated(c, seen + (fid,)):
                    return True
        return False
    calls = set()
    for _b, t in mir.region_calls(one.body, region):
        c = t.get("res") or mir.callee_of(t)
        calls.add(c)
        g = prog.fns.get(c)
        if g is not None and g.file == one.file and g.body is not None:
            calls |= {t2.get("res") or mir.callee_of(t2) for _b2, t2 in g.body.calls()}
    ok = any(iterated(c) for c in calls if c in shrinking or c in direct)
    ctx.decide(ok, rule, rule + ":drops:contexts", one.loc, "a Context routine pops states until the main module's is on top",
               "the ResumeLabel arm pops one context (the handler's) and nothing that pops contexts in a loop: after "
               "`RESUME label` out of a SUB the main module reads and writes the SUB's variables")
    # the depths the other stacks are cut back to are those the OUTERMOST active call recorded: every
    # active call is over, so what the outer calls parked or left pending goes too.  Taken from the
    # innermost record (last / pop), the GOSUB addresses and parked values of the outer calls survive and a
    # later RETURN of the main module jumps into an abandoned SUB
    fns = [(one, region)]
    for _b, t in mir.region_calls(one.body, region):
        g = prog.fns.get(t.get("res") or mir.callee_of(t))
        if g is not None and g.file == one.file and g.body is not None and g.id != one.id:
            fns.append((g, [b2 for b2 in range(g.body.nblocks) if not g.body.is_cleanup(b2)]))
    n_cut = 0
    for g, reg in fns:
        pv = mir.Prov(g.body)
        for b, t in mir.region_calls(g.body, reg):
            if mir.callee_path(t).split("::")[-1] != "truncate" or len(t["args"]) < 2:
                continue
            o = pv.of_operand(t["args"][1])
            if not mir.origin_mentions(o, lambda x: x[0] == "field" and x[2] == "return_address_stack"):
                continue
            recv = mir.strip_refs(pv.of_operand(t["args"][0]))
            fld = recv[2] if recv[0] == "field" else "?"
            how = set()
            mir.origin_mentions(o, lambda x: how.add(x[1].split("::")[-1]) if x[0] == "call" else None)
            inner = how & {"last", "pop", "last_mut", "pop_back", "next_back", "rev", "max", "back"}
            outer = how & {"first", "front", "first_mut"}
            if mir.origin_mentions(o, lambda x: x[0] == "index"):
                outer = outer | {"[..]"}
            n_cut += 1
            if inner:
                ctx.violation(rule, "%s:cut-to-outermost-call:%s" % (rule, fld), "%s:%s" % (g.file, t.get("ln")),
                              "RESUME label cuts %s back to the depth recorded by the innermost active call (%s of "
                              "return_address_stack): what the outer active calls left pending survives - a GOSUB address of an "
                              "outer SUB is then taken by a RETURN of the main module, which jumps into the abandoned SUB"
                              % (fld, "/".join(sorted(inner))))
            elif outer:
                ctx.ok(rule, "%s:cut-to-outermost-call:%s" % (rule, fld), "%s:%s" % (g.file, t.get("ln")),
                       "depth taken from the first (outermost) return-address record")
            else:
                ctx.unknown(rule, "%s:cut-to-outermost-call:%s" % (rule, fld), "%s:%s" % (g.file, t.get("ln")),
                            "which return-address record the depth comes from is not recognised (%s)" % sorted(how))
    ctx.analysed_units(rule, stacks_cut_back=n_cut)
    ctx.require(rule, 3)


def _deep_field_writes(prog, fn, region, depth=2):
    """fields assigned, or emptied through take / replace / insert / clear, in the region and in the
    same-file helpers it calls"""
    out = set(common.field_writes(fn.body, region))
    pv = mir.Prov(fn.body)
    for b, t in mir.region_calls(fn.body, region):
        if t["args"] and mir.callee_path(t).split("::")[-1] in ("take", "replace", "insert", "clear", "truncate"):
            o = mir.strip_refs(pv.of_operand(t["args"][0]))
            if o[0] == "field" and isinstance(o[2], str):
                out.add(o[2])
        g = prog.fns.get(t.get("res") or mir.callee_of(t))
        if depth and g is not None and g.id != fn.id and g.file == fn.file and g.body is not None:
            whole = [b2 for b2 in range(g.body.nblocks) if not g.body.is_cleanup(b2)]
            out |= _deep_field_writes(prog, g, whole, depth - 1)
    return out


def r12_resume_ends_error_handling(ctx, rule="C05.R12"):
    """Entering a handler puts the VM into `handling an error`: the handler edge of the fetch-execute loop
    sets fields of the interpreter (the address of the failing statement, what RETURN may not reach while the
    handler runs ...).  Every RESUME form ends that mode, so each RESUME arm (or a helper it calls) must write
    every one of those fields again; a field it leaves set keeps restricting the program after the handler has
    resumed - e.g. RETURN keeps refusing the GOSUB addresses that were pending when the error was raised."""
    prog = ctx.prog
    interp, sw = common.error_dispatch(prog)
    tgt = sw.arms.get("Address", sw.otherwise)
    region = mir.arm_region(interp.body, sw.bb, tgt)
    own = {a.get("name") or a.get("path", "").split("::")[-1] for a in ()}
    set_fields = {f for f in _deep_field_writes(prog, interp, region) if not str(f).isdigit()}
    # only fields of the interpreter itself (not of the loop's local context struct)
    one = ctx.anchor_method("Interpreter", "interpret_one")
    interp_fields = set()
    for adt in prog.adts.values():
        if adt["path"].endswith("::Interpreter"):
            for v in adt["variants"]:
                interp_fields |= {fl["name"] for fl in v["fields"]}
    set_fields &= interp_fields
    if "last_error_address" not in set_fields:
        raise CheckError("%s: the handler edge does not set last_error_address (anchor lost): %s" % (rule, sorted(set_fields)))
    sw1, regions = _arm_regions(prog, one, "::Instruction")
    for v in ("Resume", "ResumeNext", "ResumeLabel"):
        if v not in regions:
            raise CheckError("interpret_one has no arm for Instruction::%s" % v)
        written = _deep_field_writes(prog, one, regions[v])
        for f in sorted(set_fields):
            ctx.decide(f in written, rule, "%s:%s:resets:%s" % (rule, v, f), one.loc, "%s writes %s" % (v, f),
                       "the handler edge sets `%s` when a handler is entered but the %s arm never writes it: the VM stays "
                       "in error-handling mode for that field after the handler has resumed" % (f, v))
    ctx.analysed_units(rule, fields_set_on_handler_entry=sorted(set_fields))
    ctx.require(rule, 6)


def r13_resume_point_reaches_the_failing_code(ctx, rule="C05.R13"):
    """`RESUME re-executes the failing statement`: the VM resumes at the nearest statement mark at or
    before the failing instruction.  For every piece of code a construct template emits that can fail
    at run time (a user expression, a conversion, a raised error), the nearest mark before it *in
    emission order* must lead to it *in execution order*: if the code between that mark and the failing
    instruction ends in an unconditional jump somewhere else (the mark after a THEN block is followed
    by `jump end-if`; the ELSEIF condition is emitted after it), RESUME leaves the construct instead of
    evaluating the condition again.  Walked over every emission path of the construct templates with
    label names as terms (sympath, as C02.R6)."""
    from .. import sympath
    import json
    import os
    from ..core import VERIF
    prog = ctx.prog
    w = sympath.Walker(prog)
    table = json.load(open(os.path.join(VERIF, "tables", "template_assumptions.json")))
    w.nonempty = {(e["fn"], e["var"]) for e in table["nonempty"]}
    roots = w.roots()
    if len(roots) < 5:
        raise CheckError("%s: construct templates not found: %s" % (rule, [r.name for r in roots]))
    can_fail_push = ("Cast", "Throw", "FixLength", "Plus", "Minus", "Multiply", "Divide", "Modulo", "NegateA")
    results = {}
    n_paths = [0]
    n_marks = [0]

    def reach_from(tr, start):
        labels = {}
        for i, it in enumerate(tr):
            if it.kind == "label":
                labels.setdefault(it.key(), []).append(i)
        seen, work = set(), [start]
        while work:
            i = work.pop()
            if i in seen or i >= len(tr):
                continue
            seen.add(i)
            it = tr[i]
            if it.kind in ("jump", "jump_if_false"):
                work.extend(labels.get(it.key(), ()))
            if it.kind != "jump":
                work.append(i + 1)
        return seen

    def on_path(root):
        def f(st):
            tr = st.trace
            n_paths[0] += 1
            n_marks[0] += sum(1 for it in tr if it.kind == "mark")
            memo = {}
            ordinal = {}
            for i, it in enumerate(tr):
                if it.kind != "emit":
                    continue
                fails = it.sub in ("EXPR", "USER") or (it.sub == "push" and any(
                    it.name == ("s", "push(%s)" % x) for x in can_fail_push))
                if not fails:
                    continue
                # the resume point: the nearest mark before it in emission order; a user block / statement
                # carries marks of its own (that a mark follows it is C05.R2's business); with neither, the
                # mark the statement dispatcher sets before the construct
                j = i - 1
                while j >= 0 and not (tr[j].kind == "mark" or (tr[j].kind == "emit" and tr[j].sub in ("BLOCK", "STMT"))):
                    j -= 1
                start = j + 1 if j >= 0 else 0
                if start not in memo:
                    memo[start] = reach_from(tr, start)
                construct = common.generator_construct_of(prog, root)
                k = (it.fn.name, it.line)
                key = "%s:%s:%s:%s" % (rule, construct, it.fn.name, sympath.show(it.name).strip('"'))
                r = results.setdefault((key, it.line), [0, None, "%s:%s" % (it.fn.file, it.line)])
                if i in memo[start]:
                    r[0] += 1
                elif r[1] is None:
                    what = "the mark emitted at line %s" % tr[j].line if j >= 0 and tr[j].kind == "mark" else \
                        ("the end of the user code emitted at line %s" % tr[j].line if j >= 0 else "the start of the statement")
                    r[1] = ("an error raised by the code emitted here (%s) is resumed at %s, but from there the emitted code "
                            "never reaches it (an unconditional jump leads elsewhere): RESUME does not execute the failing "
                            "part of the statement again, it leaves or re-enters the construct; when %s"
                            % (sympath.show(it.name), what, "; ".join(st.facts.describe())[:300]))
        return f

    try:
        for root in roots:
            w.walk(root, None, on_path(root))
    except sympath.Budget as e:
        raise CheckError("%s: path budget exceeded (%s)" % (rule, e))
    # keys must not depend on line numbers: sites of one function with the same text are numbered in source order
    by_key = {}
    for (key, line), v in results.items():
        by_key.setdefault(key, []).append((line, v))
    for key in sorted(by_key):
        for n, (line, (okn, bad, loc)) in enumerate(sorted(by_key[key], key=lambda x: x[0])):
            ctx.decide(bad is None, rule, key if n == 0 else "%s#%d" % (key, n), loc,
                       "reached from its resume point on %d emission paths" % okn, bad or "")
    if not n_marks[0]:
        raise CheckError("%s: no statement mark seen in any template (the walk lost them)" % rule)
    ctx.analysed_units(rule, templates=[r.name for r in roots], emission_paths=n_paths[0], marks_seen=n_marks[0])
    ctx.require(rule, 15)


def r14_the_statement_search_takes_the_boundary_right(ctx, rule="C05.R14"):
    """`RESUME re-executes the failing statement, RESUME NEXT the one after it`: the VM finds the statement by
    searching the sorted list of statement marks for the address of the failing instruction.  The address of a
    statement's FIRST instruction is a mark itself (an error raised by the first instruction of `x = 1 / 0`'s
    code), so the boundary case decides: the current statement is the last mark <= address, the next one the
    first mark > address.  Two spellings are recognised and judged; anything else is recorded as not decided:
    `binary_search` (found: the mark itself / the following one; not found at i: mark i - 1 / mark i) and
    `partition_point(pred)`, whose predicate is evaluated on the three orderings of an element against the
    address (less, equal, greater) and must be true, true, false - then mark p - 1 / mark p."""
    from .. import tagflow as tf
    prog = ctx.prog
    fns = {}
    for f in prog.fns.values():
        if f.crate != "rusty_basic" or f.body is None or f.kind == "closure" or f.argc != 2:
            continue
        ty1 = f.body.locals[1]["ty"]
        if "StatementFinder" in ty1 or ("statement" in f.name and "find" in f.name):
            if "usize" in f.body.locals[2]["ty"] and f.body.locals[0]["ty"] == "usize":
                fns[f.name] = f
    cur = [f for n, f in fns.items() if "current" in n]
    nxt = [f for n, f in fns.items() if "next" in n]
    if len(cur) != 1 or len(nxt) != 1:
        raise CheckError("%s: the two searches over the statement marks were not found (%s)" % (rule, sorted(fns)))
    eng = tf.Engine(prog)
    for f, want_minus_one, what in ((cur[0], True, "current"), (nxt[0], False, "next")):
        body = f.body
        pv = mir.Prov(body)
        calls = {mir.callee_path(t).split("::")[-1]: (b, t) for b, t in body.calls()}
        rets = []
        for b, blk in enumerate(body.blocks):
            if blk.get("c"):
                continue
            for st in blk["s"]:
                if st["k"] == "assign" and st["p"][0] == 0 and not st["p"][1]:
                    rets.append(str(pv._of_rvalue(st["r"], 0)))
        key = "%s:find-%s" % (rule, what)
        if "partition_point" in calls:
            b, t = calls["partition_point"]
            so = mir.strip_all(pv.of_operand(t["args"][1])) if len(t["args"]) > 1 else ("unknown",)
            c = prog.fns.get(so[2]) if so[0] == "agg" and so[1] == "closure" else None
            table = []
            if c is not None:
                # the closure: (upvars, &element); the captured address is its only upvar
                for x in (1, 2, 3):
                    up = tf.Tup([tf.Ref(tf.K(2))]) if so[3] and str(so[3][0]).startswith("&") else tf.Tup([tf.K(2)])
                    try:
                        rs = {tf.shape(r) for r in eng.summary(c, (tf.Ref(up), tf.Ref(tf.K(x))))}
                    except Exception:
                        rs = {"?"}
                    table.append(rs)
            good = table == [{"1"}, {"1"}, {"0"}]
            minus = any("partition_point" in r and ("Sub" in r) for r in rets)
            plain = any("partition_point" in r and "Sub" not in r for r in rets)
            shape_ok = minus if want_minus_one else (plain and not minus)
            if any("?" in x for x in table) or not table:
                ctx.ok(rule, key, f.loc, "partition_point with a predicate that could not be evaluated: not decided")
                ctx.not_decided.append("%s: boundary of the statement search (%s)" % (rule, what))
                continue
            ctx.decide(good and shape_ok, rule, key, f.loc,
                       "partition_point: predicate is true for smaller and equal marks, false for greater ones; mark p%s"
                       % (" - 1" if want_minus_one else ""),
                       "the search for the %s statement uses partition_point with a predicate that is %s on (smaller, equal, "
                       "greater) marks%s: an error raised by the first instruction of a statement is attributed to the %s "
                       "statement" % (what, [sorted(x) for x in table], "" if shape_ok else " and takes the wrong neighbour of p",
                                      "previous" if want_minus_one else "same"))
        elif "binary_search" in calls:
            found_ok = err_ok = False
            for r in rets:
                if " as Err)" in r:
                    err_ok = ("Sub" in r) if want_minus_one else ("Sub" not in r and "Add" not in r)
                if " as Ok)" in r or r.startswith("arg1"):
                    found_ok = (r.startswith("arg1") or ("Add" not in r and "Sub" not in r)) if want_minus_one else ("Add" in r)
            ctx.decide(found_ok and err_ok, rule, key, f.loc,
                       "binary_search: found -> %s, not found at i -> mark %s" % ("the mark itself" if want_minus_one else "the following mark", "i - 1" if want_minus_one else "i"),
                       "the search for the %s statement takes the wrong neighbour of the binary search's answer (%s)" % (what, rets[:3]))
        else:
            ctx.ok(rule, key, f.loc, "a search in another spelling: not decided")
            ctx.not_decided.append("%s: boundary of the statement search (%s)" % (rule, what))
    ctx.require(rule, 2)


def run(ctx):
    common.install(ctx)
    r1_error_codes(ctx)
    r2_mark_after_block(ctx)
    r3_resume_agree(ctx)
    r4_gosub_pairing(ctx)
    r5_register_frames(ctx)
    r6_error_unwinding(ctx)
    r7_transfer_committed_last(ctx)
    from . import labels
    labels.r_label_tables(ctx, "C05.R8")
    r9_every_emitting_statement_is_marked(ctx)
    r10_no_handler_reentry(ctx)
    r11_resume_label_abandons_active_calls(ctx)
    r12_resume_ends_error_handling(ctx)
    r13_resume_point_reaches_the_failing_code(ctx)
    r14_the_statement_search_takes_the_boundary_right(ctx)
