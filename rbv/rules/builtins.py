"""C08.R2 / C12.R3: contract between a built-in's lint() and its run() (see DESIGN.md)."""
from .. import mir
from ..core import CheckError


def r_contract(ctx, rule):
    ctx.not_decided.append("%s (built-in argument contract): not built in this revision" % rule)
