#!/usr/bin/env python3
"""Regenerates MANIFEST.json from the rule modules that exist (maintenance helper)."""
import importlib, json, os, sys
sys.path.insert(0, os.path.dirname(os.path.abspath(__file__)))
PROPS = [json.loads(l)["id"] for l in open("properties.jsonl")]
NA = {
}
TECH = {
 "C01": "MIR arm-table extraction + abstract interpretation over enum tags (dispatch identity); call-graph reachability (nondeterminism sources); clone/emit provenance",
 "C02": "emission-event dataflow over the generator's MIR (label key discipline, register-frame pairing, single emission)",
 "C03": "who-may-call / field-ownership over MIR; sibling-predicate agreement by abstract interpretation; arm-table pairing",
 "C04": "must-pass-through over generator emission paths; guard presence/dominance in MIR; arm-table identity",
 "C05": "arm-table totality and sibling agreement over MIR; must-pass-through over generator emission paths",
 "C06": "cross-table agreement by abstract interpretation of MIR over enum tags (static type vs VM result tag, cast table); store-route must-pass-through",
 "C07": "call-graph panic-site audit; nullability dataflow over parser-constructing functions; provenance",
 "C08": "field-coverage (slot) dataflow over effective trait methods vs ADT table; reachability of todo!/unimplemented!; arm-table cross-checks",
 "C09": "provenance of compared text (case folding) over MIR; compile-fail witness; guard presence",
 "C10": "exhaustive abstract interpretation of the precedence predicates over operator tags; return-shape analysis of literal converters",
 "C11": "position provenance over MIR at error-attach and emission sites; who-may-call on the stack trace",
 "C12": "cross-table agreement by abstract interpretation (checker accepts => VM has no TypeMismatch); field-coverage; predicate tables",
 "C13": "must-pass-through (SHARED gate), table-writer ownership, dominance of insert by clash check over MIR",
 "C14": "cross-table agreement by abstract interpretation of the constant folder vs the VM handlers over enum tags",
 "C15": "counter dataflow over emitted templates with VM stack effects derived from MIR; clone/emit provenance; arm tables",
 "C16": "arm-table identity of the device / item dispatch over MIR; constant propagation over every path of the PRINT state machine; field ownership and must-pass-through of the per-device column counter; truth table over ASCII of the line-end predicate; format-template decoding of the number frame",
 "C17": "accessor provenance of count/position arguments over MIR",
 "C18": "dominance of insert by contains_key guard; Result-must-propagate; sibling agreement of console/file branches",
 "C19": "truth tables of the element-wise boolean functions read from the branch structure of the loop body; linear form of the NOT result; writer byte tables against the reader's walk (sibling-table agreement); layout constants of the double format on the encoding and decoding side",
 "C20": "typestate walk of every Parser::parse body (position/softness contract), inductive over parser construction",
}
checks = []
na = []
for p in PROPS:
    try:
        mod = importlib.import_module("rbv.rules." + p.lower())
    except ModuleNotFoundError:
        na.append({"property_id": p, "reason": NA.get(p, "check not built yet in this revision (see DESIGN.md section 7 build order)")})
        continue
    level = getattr(mod, "LEVEL", "other")
    checks.append({
        "property_id": p,
        "quick_cmd": "./check %s --tier quick" % p,
        "thorough_cmd": "./check %s --tier thorough" % p,
        "evidence_file": "/verif/evidence/%s.json" % p,
        "replay_cmd_template": "./check %s --replay {path}" % p,
        "engine": "rbv",
        "level_claimed": {"category": level, "text": mod.EXPLANATION + " Decides these structural clauses on every path of the current tree, not the behavioural property as a whole; clauses not decided: " + "; ".join(getattr(mod, "NOT_DECIDED", [])),
                          "design_ref": "DESIGN.md section 4, " + p},
        "level_note": "trusted base: rustc nightly front end and MIR construction (opt-level 0), the mirfacts serializer, the rbv rule implementation; instance floors and fail-closed anchors guard against vacuous passes; known findings are matched by exact obligation key. The thorough tier extracts the facts afresh, runs the rules with their deeper bounds where they have any, and adds a self-validation to the evidence: every kept breaking change of the property (seeded/<id>, each confirmed to build, to pass the test suite and to change behaviour) is applied to a scratch copy and the quick check is run on the copy - reported, never part of the verdict on the tree",
        "technique": "static analysis: " + TECH.get(p, "rules over MIR facts"),
    })
m = {
 "version": 1,
 "setup_cmd": "cd /verif/mirfacts && CARGO_NET_OFFLINE=true cargo +nightly build --release --offline && cd /verif && python3 -m compileall -q rbv",
 "hooks": {"guard": "rusty_basic_verif",
           "enable": "none needed: the checks read /repo's unmodified source through a rustc_private driver (RUSTC_WORKSPACE_WRAPPER); RUSTFLAGS=--cfg rusty_basic_verif would enable hooks if any existed",
           "baseline_off_cmd": "cd /repo && cargo test --workspace --no-fail-fast --offline",
           "source_commits": [], "add_only": True},
 "engines": [
  {"name": "mirfacts", "path": "/verif/mirfacts", "serves_properties": [c["property_id"] for c in checks], "kind_free_text": "rustc_private driver: serialises MIR, ADTs, traits and impls of every workspace crate to JSON (no rule logic)"},
  {"name": "rbv", "path": "/verif/rbv", "serves_properties": [c["property_id"] for c in checks], "kind_free_text": "Python rules over the facts: CFG/dominators, provenance, arm tables, emission events, counter dataflow, abstract interpretation over enum tags"},
 ],
 "checks": checks,
 "notes": "Static analysis only: nothing under /repo is executed by any check. See DESIGN.md; known findings in known_findings.json.",
 "not_applicable": na,
}
json.dump(m, open("MANIFEST.json", "w"), indent=1)
print("claimed:", [c["property_id"] for c in checks]); print("n/a:", [n["property_id"] for n in na])
