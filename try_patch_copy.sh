#!/bin/bash
# usage: try_patch_copy.sh <patch> <prop>...   apply to a scratch COPY of /repo's working tree, run the checks there, remove the copy
P=$(realpath "$1"); shift
T=$(mktemp -d /tmp/rbv-try-XXXX)
rsync -a --exclude target --exclude .git /repo/ $T/
patch -p1 -s -d $T -i "$P" || { echo "patch does not apply"; rm -rf $T; exit 2; }
for p in "$@"; do RBV_REPO=$T RBV_EVIDENCE_DIR=$T/_ev $(dirname $0)/check $p ${RBV_ARGS:-} | grep -v "^KNOWN-FINDING" | cut -c1-${CUT:-300}; done
rm -rf $T
