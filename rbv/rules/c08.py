"""C08 - accepted programs compile and run to a BASIC-level outcome (C08.R1-R6)."""
import json
import os
import re

from .. import mir
from ..core import CheckError, VERIF
from . import common, labels, c05

LEVEL = "other"
EXPLANATION = (
    "The contract between the checker and the back end: (R1) traversal completeness - for every "
    "post-conversion pass that inspects calls, the set of AST slots (ADT, variant, field) whose "
    "value reaches one of its calls is computed from the effective methods (override or default) "
    "and compared with the ADT table: every field that can contain an expression must be descended "
    "into; (R2) built-in argument contract: where a built-in's run() reads argument k with the unchecked "
    "string accessor, its lint() demands a string at k on every accepting path; (R3) every constructible run-time error has a code; "
    "(R4) every label the generator leaves symbolic is checked and resolved; (R5) no reachable "
    "todo!/unimplemented!; (R6) explicit panic sites reachable from generate_instructions and "
    "Interpreter::interpret (in rusty_basic and the value crates it calls) are each audited, and the "
    "implicit ones (bounds check of an index expression, zero check of integer / and %) are proved from "
    "their dominating comparisons or audited; (R7) the error path of the fetch-execute loop unwinds the "
    "context states a failing statement had opened (shared with C05.R6); (R11) after every user block the next emitted instruction is preceded by a resume point (shared with C05.R2): RESUME NEXT after the last statement of the main module must not run into a subprogram body; (R12) array subscripts and bounds are refused unless castable to a numeric type (shared with C12.R9), so nothing unresolved reaches the generator."
    " (R14 = C05.R11) RESUME label leaves every active call, cutting the VM stacks back to what the outermost call recorded."
    " (R15 = C12.R11) what the casting emitter cannot convert (arrays, records) the checker lets through by value only for a parameter of the same type - evaluated on every pair."
    " (R16) to_str_unchecked, which panics on anything but a string, is applied only to the arguments of a built-in call (context()[i], typed by the built-in's lint()), never to a variable looked up by name."
    " (R17 = C03.R4) the call templates write back exactly the list of by-reference arguments they stashed, in the stashing order: nothing stays on the by-reference stack for the enclosing call to pop into a variable of another type."
    " (R18 = C02.R6) on every emission path of the construct templates each reachable jump targets a label that is emitted exactly once: the generator's label resolver does not panic on a missing label.")
NOT_DECIDED = ["panic-freedom in general (arithmetic overflow in the debug profile, stack depth, panics inside std)"]

PCL = labels.PCL
ER = "rusty_linter::post_linter::expression_reducer::ExpressionReducer"
EXPR = "rusty_parser::expr::types::Expression"
GENERIC_CONTAINERS = ("rusty_common::positioned::Positioned",)


def _table(name):
    with open(os.path.join(VERIF, "tables", name)) as fh:
        return json.load(fh)


def ast_holders(prog, target):
    """Local ADTs that transitively contain `target` (including itself)."""
    holders = {target}
    changed = True
    while changed:
        changed = False
        for a in prog.adts.values():
            if a["id"] in holders or not a.get("local") or a["id"] in GENERIC_CONTAINERS:
                continue
            for v in a["variants"]:
                for f in v["fields"]:
                    if any(x in holders for x in f.get("adts", [])):
                        holders.add(a["id"])
                        changed = True
    return holders


def reachable_adts(prog, root):
    seen = set()
    st = [root]
    while st:
        a = st.pop()
        if a in seen or a not in prog.adts:
            continue
        seen.add(a)
        for v in prog.adts[a]["variants"]:
            for f in v["fields"]:
                for x in f.get("adts", []):
                    if x in prog.adts and prog.adts[x].get("local"):
                        st.append(x)
    return seen


def required_slots(prog, target=EXPR):
    root = None
    for a in prog.adts.values():
        if a["id"].startswith("rusty_parser::") and a["id"].endswith("::GlobalStatement"):
            root = a["id"]
    if root is None:
        raise CheckError("GlobalStatement ADT not found")
    holders = ast_holders(prog, target)
    reach = reachable_adts(prog, root)
    out = []
    for aid in sorted(reach):
        a = prog.adts[aid]
        if aid in GENERIC_CONTAINERS or not aid.startswith("rusty_parser::"):
            continue
        for v in a["variants"]:
            for f in v["fields"]:
                if any(x in holders for x in f.get("adts", [])):
                    out.append((aid, v["name"], f["name"]))
    return out, holders


def tuple_conversion_adt(prog, t):
    """`let (a, b) = x.into()` on a bi_tuple struct: the struct ADT, else None."""
    cp = t.get("cpath") or ""
    if cp not in ("std::convert::Into::into", "std::convert::From::from"):
        return None
    g = (t["f"].get("k") or {}).get("gargs") or []
    if len(g) != 2:
        return None
    src = g[0] if cp.endswith("into") else g[1]
    name = re.sub(r"^&('\w+ )?(mut )?", "", src)
    name = re.sub(r"<.*", "", name).split("::")[-1]
    cands = [a for a in prog.adts.values() if a.get("local") and a["path"].split("::")[-1] == name
             and a["kind"] == "struct" and [f["name"] for f in a["variants"][0]["fields"]] == ["0", "1"]]
    if len(cands) != 1:
        return None
    return cands[0]


NOT_A_DESCENT = ("std::clone::Clone::clone", "std::cmp::PartialEq::eq", "std::cmp::PartialEq::ne",
                 "std::fmt::Debug::fmt", "std::fmt::Display::fmt")


_COV_MEMO = {}
FN_CALL = re.compile(r"^std::ops::Fn(Once|Mut)?::call(_once|_mut)?$")


VIS = "rusty_linter::core::visitor::Visitor"


def _is_visit_sink(t):
    return t.get("ctrait") in (PCL, ER, VIS)


def _is_closure_call(t):
    return bool(FN_CALL.match(t.get("cpath") or ""))


def coverage_resolved(prog, fn, sink=_is_visit_sink, depth=0, param_seeds=None):
    """Slots (adt, variant, field) whose value may reach a *descent* in fn or its closures: a call
    to a method of the traversal trait (visit_*), or - inside higher-order helpers of the AST types
    (e.g. bi_tuple's try_map_right) that are handed a closure - the closure invocation.
    Flow-insensitive: slots(local) is the union over all definitions of the local, results of calls
    derive from their arguments (iterator adapters, as_ref, unboxing ...)."""
    key = (id(prog), fn.id, sink.__name__,
           tuple(sorted((l, tuple(sorted(map(str, v)))) for l, v in (param_seeds or {}).items())))
    if key in _COV_MEMO:
        return _COV_MEMO[key]
    _COV_MEMO[key] = set()
    out = set()
    upvars = {}    # closure fn id -> {capture index: slots}
    seeds = {}     # closure fn id -> slots its parameters may carry (from the receiver of the
    #                higher-order call the closure is handed to)
    for f in [fn] + prog.closures_of(fn):
        body = f.body
        if depth < 2:
            for b, t in body.calls():
                g = prog.fns.get(mir.callee_of(t))
                if g is None or g.crate not in ("rusty_parser", "rusty_common") or g.kind == "const":
                    continue
                passes_closure = False
                for a in t["args"]:
                    p = mir.op_place(a)
                    if p is not None and "{closure" in body.locals[p[0]]["ty"]:
                        passes_closure = True
                if passes_closure:
                    out |= coverage_resolved(prog, g, _is_closure_call, depth + 1)
        conv = {}
        for b, t in body.calls():
            a = tuple_conversion_adt(prog, t)
            if a is not None:
                conv[t["d"][0]] = a
        slots = {}
        if f.id in seeds:
            for l in range(2, f.argc + 1):
                slots[l] = set(seeds[f.id])
        if f is fn and param_seeds:
            for l, v in param_seeds.items():
                slots.setdefault(l, set()).update(v)

        def place_slots(p):
            res = set(slots.get(p[0], ()))
            first = True
            for e in p[1]:
                if isinstance(e, dict) and "f" in e:
                    if first and p[0] == 1 and f.kind == "closure" and "a" not in e:
                        res |= upvars.get(f.id, {}).get(e["f"], set())
                    if "a" in e:
                        res.add((e["a"], e.get("v"), e.get("n", str(e["f"]))))
                    elif first and p[0] in conv:
                        a = conv[p[0]]
                        res.add((a["id"], a["variants"][0]["name"], str(e["f"])))
                    first = False
            return res

        def op_slots(op):
            p = mir.op_place(op)
            return place_slots(p) if p is not None else set()

        changed = True
        rounds = 0
        while changed and rounds < 12:
            changed = False
            rounds += 1
            for blk in body.blocks:
                for s in blk["s"]:
                    if s["k"] != "assign":
                        continue
                    r = s["r"]
                    src = set()
                    if "p" in r:
                        src |= place_slots(r["p"])
                    for kk in ("o", "a", "b"):
                        if kk in r and isinstance(r[kk], dict):
                            src |= op_slots(r[kk])
                    for o in r.get("ops", []):
                        src |= op_slots(o)
                    if r["k"] == "discr":
                        src = set()
                    d = s["p"][0]
                    if not src <= slots.get(d, set()):
                        slots.setdefault(d, set()).update(src)
                        changed = True
                t = blk["t"]
                if t["k"] == "call":
                    src = set()
                    for a in t["args"]:
                        src |= op_slots(a)
                    d = t["d"][0]
                    if not src <= slots.get(d, set()):
                        slots.setdefault(d, set()).update(src)
                        changed = True
        for blk in body.blocks:
            for st in blk["s"]:
                if st["k"] == "assign" and st["r"]["k"] == "agg" and st["r"].get("a") == "closure":
                    for i, o in enumerate(st["r"]["ops"]):
                        upvars.setdefault(st["r"]["def"], {}).setdefault(i, set()).update(op_slots(o))
        for b, t in body.calls():
            # closures handed to a higher-order call receive (elements of) the other arguments
            cl = []
            other = set()
            for a in t["args"]:
                p = mir.op_place(a)
                if p is not None and not p[1] and "{closure" in body.locals[p[0]]["ty"]:
                    d = body.single_def(p[0])
                    if d is not None and d[1] != "T" and d[2]["r"]["k"] == "agg" and d[2]["r"].get("a") == "closure":
                        cl.append(d[2]["r"]["def"])
                        continue
                other |= op_slots(a)
            for c in cl:
                seeds.setdefault(c, set()).update(other)
            if not sink(t):
                # a private helper of the pass that is handed a part of the node (`&f.body`) and
                # descends into it on the caller's behalf
                g = prog.fns.get(t.get("res") or mir.callee_of(t))
                if g is not None and depth < 2 and g.id != fn.id and g.kind != "closure" and g.crate == fn.crate \
                        and g.file == fn.file and not g.trait_item:
                    ps = {i + 1: op_slots(a) for i, a in enumerate(t["args"])}
                    ps = {l: v for l, v in ps.items() if v}
                    if ps:
                        out |= coverage_resolved(prog, g, sink, depth + 1, ps)
                continue
            for a in t["args"]:
                out |= op_slots(a)
    _COV_MEMO[key] = out
    return out


def effective_methods(prog, impl, trait):
    out = {}
    for it in trait["items"]:
        fid = prog.effective_method(impl, trait, it["name"])
        if fid and fid in prog.fns:
            out[it["name"]] = prog.fns[fid]
    return out


def helpers_in_module(prog, fns):
    """Non-trait functions of the same source file called from fns (lint helpers)."""
    out = {}
    files = {f.file for f in fns}
    st = list(fns)
    seen = set(f.id for f in fns)
    while st:
        f = st.pop()
        for c in prog.call_edges(f):
            g = prog.fns.get(c)
            if g is None or g.id in seen or g.kind == "closure":
                continue
            if g.file in files and g.impl is not None and g.impl.get("trait") not in (PCL, ER):
                seen.add(g.id)
                out[g.id] = g
                st.append(g)
    return list(out.values())


def r1_traversal(ctx, rule="C08.R1"):
    prog = ctx.prog
    required_expr, _h = required_slots(prog, EXPR)
    stmt_adt = [a["id"] for a in prog.adts.values() if a["id"].startswith("rusty_parser::")
                and a["id"].endswith("::Statement") and a["kind"] == "enum"]
    if len(stmt_adt) != 1:
        raise CheckError("Statement enum not found")
    required_stmt, _h2 = required_slots(prog, stmt_adt[0])
    exceptions = {(e["adt"], e["variant"], e["field"]): e["reason"]
                  for e in _table("traversal_exceptions.json")["constant_only_or_irrelevant"]}
    passes = []
    for trait_id in (PCL, ER):
        tr = prog.traits.get(trait_id)
        if tr is None:
            raise CheckError("trait %s not found" % trait_id)
        for impl in prog.impls_of_trait(trait_id):
            over = {it["name"] for it in impl["items"]}
            name = re.sub(r"<.*", "", impl["self_ty"]).split("::")[-1]
            if over & {"visit_expression", "visit_built_in_sub_call"} and name != "DotsLinter":
                passes.append((name, impl, tr, "expr"))
            elif "visit_sub_call" in over:
                passes.append((name, impl, tr, "stmt"))
    if len(passes) < 4:
        raise CheckError("only %d call-inspecting passes found" % len(passes))
    # the generic deep statement walker that drives ForNextCounterMatch, PrintLinter, ...
    deep = [f for f in prog.fns.values() if f.name == "visit" and f.impl and f.impl.get("trait") == VIS
            and re.sub(r"<.*", "", f.impl["self_ty"]).split("::")[-1] == "DeepStatementVisitor"]
    if len(deep) < 8:
        raise CheckError("only %d Visitor impls of DeepStatementVisitor found" % len(deep))
    passes.append(("DeepStatementVisitor", {"file": deep[0].file, "line": deep[0].line, "self_ty": "DeepStatementVisitor",
                                            "_fns": deep}, None, "stmt"))
    n_slots = 0
    for name, impl, tr, kind in sorted(passes, key=lambda x: x[0]):
        required = required_expr if kind == "expr" else required_stmt
        if "_fns" in impl:
            fns = list(impl["_fns"])
        else:
            eff = effective_methods(prog, impl, tr)
            fns = list(eff.values())
            fns += helpers_in_module(prog, [f for f in fns if f.impl is impl or (f.impl and f.impl["id"] == impl["id"])])
        covered = set()
        for f in fns:
            covered |= coverage_resolved(prog, f)
        for slot in required:
            adt, variant, field = slot
            short = "%s::%s.%s" % (adt.split("::")[-1], variant, field) if variant != adt.split("::")[-1] \
                else "%s.%s" % (variant, field)
            key = "%s:%s:%s" % (rule, name, short)
            loc = impl.get("file", "?") + ":" + str(impl.get("line", "?"))
            n_slots += 1
            if slot in covered:
                ctx.ok(rule, key, loc, "descended")
            elif (adt.split("::")[-1], variant, field) in exceptions:
                ctx.ok(rule, key, loc, "exception: " + exceptions[(adt.split("::")[-1], variant, field)])
            else:
                ctx.violation(rule, key, loc,
                              "pass %s never descends into %s (a field that can contain an "
                              "expression): a call placed there is not checked by this pass"
                              % (name, short), {"pass": impl["self_ty"]})
    n_entry = _deep_entry(ctx, rule, deep)
    ctx.analysed_units(rule, passes=[p[0] for p in passes], expression_slots=len(required_expr),
                       statement_slots=len(required_stmt), deep_entries=n_entry)
    ctx.require(rule, 4 * 30 + 3)


def _deep_entry(ctx, rule, deep):
    """The slots above say which fields the deep walker descends into once it is inside a statement;
    this part says that it gets inside: in Visitor<GlobalStatement> for DeepStatementVisitor every
    variant that carries statements (a main-module statement, a FUNCTION / SUB body) is handed to the
    walker itself (`self.visit`, receiver type DeepStatementVisitor<P>) on every non-failing path of
    its arm - handing it only to the delegate (`self.delegate.visit`, receiver type P) checks the
    statement but nothing nested inside it."""
    prog = ctx.prog
    gs = [f for f in deep if "GlobalStatement" in f.path]
    if len(gs) != 1:
        raise CheckError("Visitor<GlobalStatement> for DeepStatementVisitor: %d matches" % len(gs))
    f = gs[0]
    body = f.body
    sws = [sw for sw in mir.enum_switches(prog, body) if sw.adt.endswith("::GlobalStatement")]
    if len(sws) != 1:
        raise CheckError("Visitor<GlobalStatement>::visit: no match over GlobalStatement")
    sw = sws[0]
    deep_calls = {b for b, t in body.calls() if (t.get("cpath") or "").endswith("::Visitor::visit")
                  and "DeepStatementVisitor" in (t.get("self_ty") or "")}
    failing = {b for b, t in body.calls() if (t.get("cpath") or "").endswith("FromResidual::from_residual")}
    exits = set(body.exits())
    n = 0
    for variant in ("Statement", "FunctionImplementation", "SubImplementation"):
        tgt = sw.arms.get(variant, sw.otherwise)
        n += 1
        if tgt is None:
            ctx.violation(rule, "%s:DeepStatementVisitor:GlobalStatement::%s:deep-entry" % (rule, variant), f.loc,
                          "no arm for GlobalStatement::%s" % variant, {})
            continue
        region = body.reachable(tgt, avoid=failing)
        ok = bool(region & deep_calls) and body.every_path_passes(tgt, (exits & region) or exits, deep_calls | failing)
        ctx.decide(ok, rule, "%s:DeepStatementVisitor:GlobalStatement::%s:deep-entry" % (rule, variant), f.loc,
                   "handed to the deep walker on every non-failing path",
                   "GlobalStatement::%s is not handed to the deep walker itself (only to the delegate, or not "
                   "at all): PrintLinter, ForNextCounterMatch and the other passes built on DeepStatementVisitor "
                   "no longer look inside IF / SELECT / FOR / WHILE / DO blocks of %s, so an ill-formed statement "
                   "nested there is accepted" % (variant, "the main module" if variant == "Statement" else "that subprogram"))
    return n


def r2_builtin_contract(ctx, rule="C08.R2"):
    from . import builtins
    builtins.r_contract(ctx, rule)


PANIC_MACROS = ("todo", "unimplemented")


def r5_no_todo(ctx, rule="C08.R5"):
    prog = ctx.prog
    interp = ctx.anchor_method("Interpreter", "interpret")
    gen = [f for f in prog.fns.values() if f.name == "generate_instructions" and f.crate == "rusty_basic"]
    main_roots = [f for f in prog.fns.values() if f.crate == "rusty_basic.bin" and f.name == "main"]
    reach = prog.reachable_from([interp] + gen + main_roots)
    n = 0
    for fid in sorted(reach):
        fn = prog.fns.get(fid)
        if fn is None or fn.crate not in ("rusty_basic", "rusty_basic.bin", "rusty_variant", "rusty_linter"):
            continue
        if fn.crate == "rusty_linter" and "qb_casting" not in fn.id:
            continue
        seen_lines = set()
        for b, t in fn.body.calls():
            mx = t.get("mx", [])
            hit = [m for m in mx if m.rstrip("!") in PANIC_MACROS]
            if not hit or not mir.is_panic_call(t):
                continue
            owner = prog.enclosing_fn(fn) or fn
            ident = "%s:%s" % (owner.path.split("::", 1)[1], hit[0].rstrip("!"))
            if (ident, ) in seen_lines:
                continue
            seen_lines.add((ident,))
            n += 1
            ctx.violation(rule, "%s:%s" % (rule, ident), "%s:%s" % (fn.file, t.get("ln")),
                          "%s! is reachable from the interpreter's entry points in %s: an accepted "
                          "program that gets here ends in a panic instead of a BASIC error"
                          % (hit[0].rstrip("!"), owner.path))
    ctx.ok(rule, rule + ":scan", "rusty_basic", "scanned %d reachable functions" % len(reach))
    ctx.analysed_units(rule, reachable=len(reach), sites=n)
    if len(reach) < 700:
        raise CheckError("only %d functions reachable from interpret/generate" % len(reach))
    ctx.require(rule, 1)


def r9_string_growth_is_bounded(ctx, rule="C08.R9"):
    """`never ends in an internal failure` / `bounded time`: `+` on two strings is the one operator
    whose result is larger than its operands, in the constant folder as well as in the VM; forty
    doublings exhaust memory.  Variant::plus must compare the combined length with a limit before it
    builds the result, and refuse with an error value."""
    prog = ctx.prog
    fs = [f for f in prog.fns.values() if f.crate == "rusty_variant" and f.name == "plus" and f.impl
          and f.impl["self_ty"].endswith("Variant") and f.kind != "closure"]
    if len(fs) != 1:
        raise CheckError("anchor Variant::plus: %d matches" % len(fs))
    f = fs[0]

    def vstring_builds(g):
        return [b for b, blk in enumerate(g.body.blocks) for st in blk["s"]
                if st["k"] == "assign" and st["r"].get("k") == "agg"
                and (st["r"].get("adt") or "").endswith("::Variant")
                and st["r"].get("variant") == "VString" and not g.body.is_cleanup(b)]

    def length_guard_dominates(g, b):
        pv = mir.Prov(g.body)
        for d in range(g.body.nblocks):
            t = g.body.term(d)
            if t["k"] != "switch" or not g.body.dominates(d, b) or t.get("ty") != "bool":
                continue
            o = pv.of_operand(t["o"])
            if o[0] == "bin" and o[1] in ("Gt", "Ge", "Lt", "Le") and \
                    mir.origin_mentions(o, lambda z: z[0] == "call" and z[1].split("::")[-1] == "len"):
                return True
        return False

    # the string arm may live in a helper of the same crate called from plus: the guard then sits
    # in the helper, or in plus before the call
    sites = [(f, b, None) for b in vstring_builds(f)]
    for cb, t in f.body.calls():
        g = prog.fns.get(t.get("res") or t.get("callee"))
        if g is None or g.id == f.id or g.crate != f.crate or f.body.is_cleanup(cb):
            continue
        sites += [(g, b, cb) for b in vstring_builds(g)]
    if not sites:
        raise CheckError("%s: Variant::plus builds no VString" % rule)
    guarded = all(length_guard_dominates(g, b) or (cb is not None and length_guard_dominates(f, cb))
                  for g, b, cb in sites)
    ctx.decide(guarded, rule, rule + ":Variant::plus:length-checked", f.loc,
               "the concatenated length is compared with a limit before the string is built",
               "Variant::plus concatenates two strings without comparing the combined length with a limit: "
               "`A$ = A$ + A$` in a loop (or a chain of CONSTs in the checker) doubles the string until the "
               "process runs out of memory instead of ending with error 14")
    ctx.require(rule, 1)


def r10_child_helper_on_own_node(ctx, rule="C08.R10"):
    """The traversal traits have two kinds of methods: `visit_expression(x)` looks at the node x
    (and then at its parts), `visit_child_expressions(x)` looks only at the parts of x.  The second
    is the tail of the first and must be applied to the node the method is working on.  Applied to a
    child (an argument of the call being checked), the child itself is never looked at: a call that
    is directly an argument of another call escapes the argument checks.  Every call of a
    `*child*` method of the traversal traits must receive the method's own node, or a bare expression
    that has no position of its own (an assignment target, the left side of a property) - never the
    `.element` of a positioned child, which visit_expression would have taken whole."""
    from . import c07
    prog = ctx.prog
    traits = (PCL, ER, VIS)
    n = 0
    for f in sorted(prog.fns.values(), key=lambda f: f.id):
        if f.crate != "rusty_linter" or f.kind == "closure":
            continue
        tr = f.impl.get("trait") if f.impl else None
        is_default = any(f.id == it["id"] for tid in traits for it in prog.traits[tid]["items"])
        if tr not in traits and not is_default:
            continue
        pv = mir.Prov(f.body)
        for b, t in f.body.calls():
            nm = (t.get("cpath") or "").split("::")[-1]
            if t.get("ctrait") not in traits or "child" not in nm or len(t["args"]) < 2:
                continue
            n += 1
            ch = c07._proj_chain(pv.of_operand(t["args"][1]))
            # `child.element` of a positioned child could have been handed to visit_expression(child);
            # a bare Expression without a position (assignment target, left side of a property) cannot
            skipped_node = ch is not None and len(ch[1]) > 1 and ch[1][-1] == "element"
            ok = not skipped_node
            name = f.path.split("::", 1)[1]
            k = sum(1 for x in ctx.obs if x.key.startswith("%s:%s" % (rule, name)))
            ctx.decide(ok, rule, "%s:%s%s" % (rule, name, "#%d" % k if k else ""), "%s:%s" % (f.file, t.get("ln")),
                       "%s is applied to the method's own node" % nm,
                       "%s applies %s to %s, a part of the node it is working on: that part itself is never "
                       "visited, only what is nested inside it - a call that is directly an argument of another call "
                       "is not checked (wrong argument count or type accepted, Type mismatch at run time)"
                       % (name, nm, ".".join(ch[1]) if ch else "a derived value"))
    ctx.require(rule, 3)


def r13_argument_validators_mean_what_they_say(ctx, rule="C08.R13"):
    """The checks of the built-ins are built from a handful of shared validators; the run functions rely
    on them (STR$ matches on the four numeric variants and panics on anything else, the count / handle
    accessors cast).  Each validator's predicate is evaluated (TagFlow) on an argument of every kind of
    type: the numeric validators accept the four numeric built-in types and nothing else - no record, no
    whole array, no unresolved expression -, the string validator a string or STRING * n."""
    from .. import optables as ot, tagflow as tf
    prog = ctx.prog
    T = ot.OpTables(prog)
    ets = [a["id"] for a in prog.adts.values() if a["path"].endswith("::ExpressionType")]
    if len(ets) != 1:
        raise CheckError("anchor ExpressionType")
    ET = ets[0]
    allq = ["BangSingle", "HashDouble", "DollarString", "PercentInteger", "AmpersandLong"]
    cases = [("BuiltIn(%s)" % q, T.eng.make(ET, "BuiltIn", {0: tf.Tag(ot.TQ, q)}), "str" if q == "DollarString" else "num")
             for q in allq]
    cases += [("STRING*n", T.eng.make(ET, "FixedLengthString", {}), "str"),
              ("record", T.eng.make(ET, "UserDefined", {}), None),
              ("unresolved", T.eng.make(ET, "Unresolved", {}), None)]
    for q in ("PercentInteger", "DollarString"):
        cases.append(("array of %s" % q, T.eng.make(ET, "Array", {0: tf.Box(T.eng.make(ET, "BuiltIn", {0: tf.Tag(ot.TQ, q)}))}), None))
    fns = [f for f in prog.fns.values() if f.crate == "rusty_linter" and "arg_validation" in (f.file or "")
           and f.kind != "closure" and f.impl is not None
           and f.name in ("require_integer_argument", "require_long_argument", "require_double_argument",
                          "require_numeric_argument", "require_string_argument")]
    if len(fns) < 5:
        raise CheckError("%s: %d of the five argument validators found" % (rule, len(fns)))
    for f in sorted(fns, key=lambda x: x.name):
        cl = prog.closures_of(f)
        if len(cl) != 1:
            raise CheckError("%s: %s has %d predicate closures" % (rule, f.name, len(cl)))
        want_kind = "str" if "string" in f.name else "num"
        for form, slot in (("Variable", 1), ("ArrayElement", 2), ("Property", 2), ("FunctionCall", None)):
            if slot is None:
                continue
            for name, et, kind in cases:
                e = T.eng.make(ot.EXPR, form, {slot: et})
                rs = {tf.shape(x) for x in T.eng.summary(cl[0], (tf.Ref(tf.TOP), tf.Ref(e)))}
                want = {"1"} if kind == want_kind else {"0"}
                # `A()` (no subscripts) is the whole array: with the subscript list unknown an element of
                # an acceptable type may also be refused
                good = rs == want or (form == "ArrayElement" and want == {"1"} and "1" in rs)
                ctx.decide(good, rule, "%s:%s(%s %s)" % (rule, f.name, form, name), f.loc,
                           "accepts" if want == {"1"} else "refuses",
                           "%s %s an Expression::%s whose type is %s (predicate yields %s): %s"
                           % (f.name, "does not refuse" if want == {"0"} else "does not accept", form, name, sorted(rs),
                              "the run function of the built-in gets a value it has no case for (a panic, or Type "
                              "mismatch at run time in an accepted program)" if want == {"0"} else "a correct call is refused"))
    ctx.require(rule, 5 * 3 * 10)


def r16_unchecked_string_reads_are_argument_reads(ctx, rule="C08.R16"):
    """`to_str_unchecked` panics on anything but a string.  The checker types the *arguments* of a built-in (its
    lint() demands a string where run() reads one - C08.R2), so the unchecked read is sound on an argument of the
    call: `context()[i]`.  A value that run() looks up by name in the caller's variables (FIELD variables of PUT)
    has whatever type the program gave a variable of that name - an array, say - and has to be matched, not
    assumed."""
    prog = ctx.prog
    n = 0
    for f in sorted(prog.fns.values(), key=lambda f: f.id):
        if f.crate != "rusty_basic" or f.body is None:
            continue
        pv = None
        k = 0
        for b, t in f.body.calls():
            if not mir.callee_path(t).endswith("::to_str_unchecked") or not t["args"]:
                continue
            pv = pv or mir.Prov(f.body)
            o = mir.strip_all(pv.of_operand(t["args"][0]))
            n += 1
            # context()[i] / context().variables()[i]: the i-th argument of the call
            base = o
            while base[0] == "field":
                base = mir.strip_all(base[1])
            while base[0] in ("field", "downcast"):
                base = mir.strip_all(base[1])
            is_arg = base[0] == "index" or (base[0] == "call" and base[1].split("::")[-1] in ("index", "index_mut"))
            if base[0] == "call" and base[1].split("::")[-1] == "get" and base[2]:
                # `context().variables().get(i)`: the optional i-th argument
                is_arg = mir.origin_mentions(base[2][0], lambda x: x[0] == "call" and x[1].split("::")[-1] == "variables")
            by_name = mir.origin_mentions(o, lambda x: x[0] == "call" and x[1].split("::")[-1] in
                                          ("get_built_in", "get_user_defined", "get_by_name", "caller_variables"))
            owner = (prog.enclosing_fn(f) or f).path.split("::", 1)[1]
            key = "%s:%s%s" % (rule, owner, "#%d" % k if k else "")
            k += 1
            ctx.decide(is_arg and not by_name, rule, key, "%s:%s" % (f.file, t.get("ln")),
                       "reads an argument of the call",
                       "%s reads a value with to_str_unchecked that is not an argument of the built-in (%s): a variable "
                       "looked up by name can be of any type (`DIM N$(1 TO 2)` and `FIELD #1, 4 AS N$` in a SUB: PUT "
                       "panics with `Variant was not a string VArray`)" % (owner, mir.short_origin(o)[:90]))
    ctx.require(rule, 15)


def run(ctx):
    common.install(ctx)
    r1_traversal(ctx)
    r2_builtin_contract(ctx)
    c05.r1_error_codes(ctx, "C08.R3")
    labels.r_label_tables(ctx, "C08.R4")
    r5_no_todo(ctx)
    c05.r6_error_unwinding(ctx, "C08.R7")
    common.r_stack_discipline(ctx, "C08.R8")
    r9_string_growth_is_bounded(ctx)
    r10_child_helper_on_own_node(ctx)
    # a resume point recorded at the wrong place lets RESUME NEXT run into code that was never called
    c05.r2_mark_after_block(ctx, "C08.R11")
    # what the checker lets through as an array subscript the generator must be able to resolve
    from . import c12
    c12.r9_subscripts_are_numeric(ctx, "C08.R12")
    r13_argument_validators_mean_what_they_say(ctx)
    # RESUME label leaves every active call: what an outer call left on the VM stacks goes with it, or a
    # later RETURN / EXIT SUB of the main module runs on the stacks of a call that is over (PopRet underflows)
    c05.r11_resume_label_abandons_active_calls(ctx, "C08.R14")
    # the casting emitter panics on a target it has no conversion for (arrays, records): the checker's by-value
    # predicate accepts an array / a record only for a parameter of the very same type
    from .. import optables as _ot
    c12.r11_no_conversion_between_arrays(ctx, _ot.OpTables(ctx.prog), "C08.R15")
    r16_unchecked_string_reads_are_argument_reads(ctx)
    # what a call puts on the by-reference stack it takes off again: the list written back is the list stashed
    # (a copy left behind is popped by the enclosing call into a variable of another type: the VM panics)
    from . import c03
    c03.r4_activation_pairing(ctx, "C08.R17")
    # every jump the templates emit has its label emitted on the same path: a label that is missing makes the label
    # resolver of the generator panic on a program the checker accepted
    from . import c02
    c02.r6_template_reachability(ctx, "C08.R18")
    from . import panics
    panics.r_audit(ctx, "C08.R6", scope="backend")
