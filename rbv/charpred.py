"""Truth tables of character predicates (lexer classes, skip predicates) over ASCII, and the set of
characters for which a converter diverges: the TagFlow engine interpreting the predicate's MIR on
each of the 128 constants, with models for the std char methods and RangeInclusive."""
from . import tagflow as tf

CHAR_METHODS = {
    "is_ascii_digit": lambda c: chr(c).isdigit() and c < 128,
    "is_ascii_hexdigit": lambda c: chr(c) in "0123456789abcdefABCDEF",
    "is_ascii_alphabetic": lambda c: c < 128 and chr(c).isalpha(),
    "is_ascii_alphanumeric": lambda c: c < 128 and chr(c).isalnum(),
    "is_ascii_uppercase": lambda c: 65 <= c <= 90,
    "is_ascii_lowercase": lambda c: 97 <= c <= 122,
    "is_ascii_whitespace": lambda c: c in (9, 10, 12, 13, 32),
    "is_whitespace": lambda c: c in (9, 10, 11, 12, 13, 32, 0x85, 0xA0),
    "is_ascii_punctuation": lambda c: c < 128 and not chr(c).isalnum() and 33 <= c <= 126,
    "is_ascii_control": lambda c: c < 32 or c == 127,
    "is_alphabetic": lambda c: chr(c).isalpha(),
    "is_numeric": lambda c: chr(c).isnumeric(),
    "is_alphanumeric": lambda c: chr(c).isalnum(),
    "is_ascii": lambda c: c < 128,
}
CHAR_MAPS = {
    "to_ascii_uppercase": lambda c: ord(chr(c).upper()) if c < 128 else c,
    "to_ascii_lowercase": lambda c: ord(chr(c).lower()) if c < 128 else c,
}


def intrinsics(eng, t, args):
    cp = t.get("cpath") or ""
    name = cp.split("::")[-1]
    if "char" in cp and args:
        a0 = tf.deref(args[0])
        if a0[0] == "k":
            if name in CHAR_METHODS:
                return [tf.K(int(CHAR_METHODS[name](a0[1])))]
            if name in CHAR_MAPS:
                return [tf.K(CHAR_MAPS[name](a0[1]))]
            if name == "eq_ignore_ascii_case" and len(args) > 1:
                a1 = tf.deref(args[1])
                if a1[0] == "k":
                    lo = CHAR_MAPS["to_ascii_lowercase"]
                    return [tf.K(int(lo(a0[1]) == lo(a1[1])))]
    if "RangeInclusive" in cp:
        if name == "new" and len(args) == 2:
            return [tf.Tup([tf.deref(args[0]), tf.deref(args[1])])]
        if name == "contains" and len(args) == 2:
            r = tf.deref(args[0])
            x = tf.deref(args[1])
            if r[0] == "tup" and len(r[1]) == 2 and r[1][0][0] == "k" and r[1][1][0] == "k" and x[0] == "k":
                return [tf.K(int(r[1][0][1] <= x[1] <= r[1][1][1]))]
    return None


def engine(prog):
    return tf.Engine(prog, intrinsics=intrinsics)


def predicate_value(eng, prog, pred, code):
    """pred: ('closure', fn) | ('fnitem', path) | ('fn', Fn).  Returns set of possible results {0,1}
    or None when not decided."""
    kind, f = pred
    if kind == "fnitem":
        name = f.split("::")[-1]
        if name in CHAR_METHODS:
            return {int(CHAR_METHODS[name](code))}
        cands = prog.by_path.get(f, [])
        if len(cands) != 1:
            return None
        kind, f = "fn", cands[0]
    if kind == "closure":
        byref = f.body.locals[2]["ty"].startswith("&")
        rs = eng.summary(f, (tf.TOP, tf.Ref(tf.K(code)) if byref else tf.K(code)))
    else:
        byref = f.body.locals[1]["ty"].startswith("&")
        rs = eng.summary(f, (tf.Ref(tf.K(code)) if byref else tf.K(code),))
    out = set()
    for r in rs:
        r = tf.deref(r)
        if r[0] != "k":
            return None
        out.add(int(bool(r[1])))
    return out


def accepted(eng, prog, pred, universe=range(128)):
    """(definitely-or-possibly accepted chars, undecided chars)"""
    acc, und = set(), set()
    for c in universe:
        v = predicate_value(eng, prog, pred, c)
        if v is None:
            und.add(c)
        elif 1 in v:
            acc.add(c)
    return acc, und


def pred_of_operand(prog, fn, op):
    """The predicate passed as call operand `op` inside fn: a closure literal or a fn item."""
    k = op.get("k")
    if k and k.get("fn"):
        cands = [f for f in prog.fns.values() if f.id == k["fn"]]
        if cands:
            return ("fn", cands[0])
        return ("fnitem", k.get("fnpath") or k["fn"])
    from . import mir
    p = mir.op_place(op)
    if p is None:
        return None
    d = fn.body.single_def(p[0])
    if d is None or d[1] == "T":
        return None
    r = d[2]["r"]
    if r.get("k") == "agg" and r.get("a") == "closure":
        f = prog.fns.get(r["def"])
        return ("closure", f) if f is not None else None
    if r.get("k") == "use":
        return pred_of_operand(prog, fn, r["o"])
    return None
