"""C14 - a CONST has the value and type its expression would have at run time (C14.R1-R3)."""
from .. import emit, mir, optables as ot, tagflow as tf
from ..core import CheckError
from . import common

LEVEL = "other"
EXPLANATION = (
    "Agreement of the two evaluators at the level of operations applied, result tags and error "
    "kinds: (R1) for every operator and operand tag pair the abstract outcome of the constant "
    "folder (ConstEvaluator::eval_const, evaluated on literal operands) is compared with the "
    "abstract outcome of the VM's handler for the same tags - same set of result tags, same set of "
    "error kinds; the six comparison predicates accept the same Ordering values; (R2) constants are "
    "inlined as the literal of their folded tag, CONST emits no instruction; (R3) both constant "
    "passes evaluate with eval_const and convert with CastVariant::cast when the name carries a suffix; "
    "(R4) constant lookup consults the current scope before the global scope at every two-level "
    "lookup, so the folder and the expression converter resolve a shadowing CONST alike.  (R6) where the error of evaluating or converting a constant is re-wrapped, the wrapper looks at the error it receives (the kind - Overflow, Division by zero - reaches the user unchanged)."
    " (R7) the parser's arithmetic on literals (negating a literal's payload, and the parser functions built on it) is called from the parser crate only."
    " (R8 = C06.R1) the static type of an operator application is the tag of the VM's result.")
NOT_DECIDED = ["equality of the folded value with the run-time value (value-level)"]

ERR_NAMES = {"LinterError(NotFiniteNumber)": "NotFiniteNumber"}


def r1_folder_vs_vm(ctx, T, rule="C14.R1"):
    prog = ctx.prog
    one, htab = T.handler_table()
    folder_fn = T.folder_fn()
    t2q = {t: q for q, t in T.qualifier_tags().items()}
    from . import c06
    normalised = c06._self_normalising_ops(prog, T)
    q2t = T.qualifier_tags()
    for op in prog.variants(ot.OP):
        hs = htab.get(op, [])
        if len(hs) != 1:
            raise CheckError("no unique handler for Instruction::%s" % op)
        for lt in ot.BUILTIN_TAGS:
            for rt in ot.BUILTIN_TAGS:
                key = "%s:%s(%s,%s)" % (rule, op, lt, rt)
                _sfn, st = T.static_type(op, t2q[lt], t2q[rt])
                if st == {None}:
                    ctx.ok(rule, key, folder_fn.loc, "rejected by the type checker before folding")
                    continue
                ftags, ferrs = T.folder(op, lt, rt)
                vtags, verrs = T.vm(hs[0], lt, rt)
                verrs = sorted({ERR_NAMES.get(e, e) for e in verrs})
                if op in normalised and len(st) == 1 and None not in st and vtags:
                    # the generated code converts the handler's result to the expression's static type
                    vtags = [q2t[next(iter(st))]]
                key = "%s:%s(%s,%s)" % (rule, op, lt, rt)
                if "?" in ftags or "?" in vtags or "?" in ferrs or "?" in verrs:
                    ctx.unknown(rule, key, folder_fn.loc, "folder %s/%s vm %s/%s" % (ftags, ferrs, vtags, verrs))
                    continue
                same = ftags == vtags and ferrs == verrs
                ctx.decide(same, rule, key, folder_fn.loc, "tags %s errors %s" % (ftags, ferrs),
                           "CONST c = a %s b with a:%s b:%s - the folder yields tags %s / errors %s but "
                           "the VM yields tags %s / errors %s for the same expression"
                           % (op, lt, rt, ftags, ferrs, vtags, verrs), {"handler": hs[0].path})
    for u, ins in (("Minus", "NegateA"), ("Not", "NotA")):
        h = htab[ins][0]
        for tg in ot.BUILTIN_TAGS:
            ftags, ferrs = T.folder(u, tg, None, unary=True)
            vtags, verrs = T.vm(h, tg, None)
            key = "%s:%s(%s)" % (rule, u, tg)
            ctx.decide(ftags == vtags and ferrs == verrs, rule, key, folder_fn.loc,
                       "tags %s errors %s" % (ftags, ferrs),
                       "unary %s on %s: folder %s/%s, VM %s/%s" % (u, tg, ftags, ferrs, vtags, verrs))
    # comparison predicates of the folder
    sets = T.ordering_set(folder_fn)
    from .c01 import ORDERINGS
    got = sorted(sorted(v) for v in sets.values())
    want = sorted(sorted(v) for v in ORDERINGS.values())
    ctx.decide(got == want, rule, rule + ":folder-ordering-sets", folder_fn.loc,
               "the six predicates accept %s" % want,
               "the folder's comparison closures accept Ordering sets %s, expected %s" % (got, want))
    ctx.require(rule, 13 * 25 + 10 + 1)


def r2_inlined_as_literal(ctx, T, rule="C14.R2"):
    prog = ctx.prog
    fs = [f for f in prog.fns.values() if f.name == "const_variant_to_expression" and f.crate == "rusty_linter"]
    if len(fs) != 1:
        raise CheckError("anchor const_variant_to_expression")
    fn = fs[0]
    for tag, lit in ot.OpTables.LIT.items():
        rs = T.eng.summary(fn, (tf.Tag(ot.VARIANT, tag, [tf.TOP]),))
        got = {tf.deref(x)[2] if tf.deref(x)[0] == "tag" else "?" for x in rs}
        ctx.decide(got == {lit}, rule, "%s:literal-of:%s" % (rule, tag), fn.loc, lit,
                   "a constant whose folded value is %s is inlined as %s" % (tag, sorted(got)))
    qf = [f for f in prog.fns.values() if f.name == "qualifier_of_variant" and f.crate == "rusty_linter"]
    if len(qf) != 1:
        raise CheckError("anchor qualifier_of_variant")
    q2t = T.qualifier_tags()
    for q, tag in q2t.items():
        rs = T.eng.summary(qf[0], (tf.Ref(tf.Tag(ot.VARIANT, tag, [tf.TOP])),))
        got = set()
        for x in rs:
            x = tf.deref(x)
            if x[0] == "tag" and x[2] == "Ok":
                inner = tf.deref(x[3][0])
                got.add(inner[2] if inner[0] == "tag" else "?")
            else:
                got.add("Err")
        ctx.decide(got == {q}, rule, "%s:qualifier-of:%s" % (rule, tag), qf[0].loc, q,
                   "qualifier_of_variant(%s) = %s" % (tag, sorted(got)))
    # CONST emits nothing
    stmt = prog.method("InstructionGenerator", "visit", trait=emit.STATEMENT_TRAIT_REF)
    sws = [s for s in mir.enum_switches(prog, stmt.body) if s.adt.endswith("::Statement")]
    sw = max(sws, key=lambda s: len(s.arms))
    tgt = sw.arms.get("Const")
    evs = emit.events(prog, stmt)
    if tgt is None:
        raise CheckError("generator has no arm for Statement::Const")
    region = mir.arm_region(stmt.body, sw.bb, tgt)
    em = [evs[b].show() for b in region if b in evs and evs[b].kind != "mark"]
    ctx.decide(not em, rule, rule + ":const-emits-nothing", stmt.loc, "no emission in the Const arm",
               "Statement::Const emits %s" % em)
    ctx.require(rule, 11)


def r3_both_passes(ctx, rule="C14.R3"):
    prog = ctx.prog
    sites = []
    for f in prog.fns.values():
        if f.crate != "rusty_linter":
            continue
        if f.name == "new_const" and "const_rules" in f.id:
            sites.append(("converter", f))
        if "constant_map" in f.id and f.kind != "closure" and f.name in ("visit", "visit_const", "on_const"):
            sites.append(("pre-linter", f))
    if not sites:
        raise CheckError("no const pass found")
    cm = [f for f in prog.fns.values() if "pre_linter::constant_map" in f.id]
    if not cm:
        raise CheckError("pre_linter::constant_map not found")
    groups = {"converter": [f for k, f in sites if k == "converter"], "pre-linter": cm}
    for name, fns in groups.items():
        if not fns:
            raise CheckError("const pass %s not found" % name)
        reach = set()
        for f in fns:
            reach |= prog.reachable_from([f])
        evals = any(r.split("::")[-1] == "eval_const" for r in reach)
        casts = any(r.endswith("::cast") and "qb_casting" in r for r in reach)
        ctx.decide(evals, rule, "%s:%s:evaluates-with-eval_const" % (rule, name), fns[0].loc,
                   "uses ConstEvaluator::eval_const", "the %s const pass no longer evaluates with eval_const" % name)
        ctx.decide(casts, rule, "%s:%s:casts-to-suffix" % (rule, name), fns[0].loc,
                   "converts with CastVariant::cast", "the %s const pass no longer casts to the declared suffix" % name)
    ctx.require(rule, 4)


def r5_stored_constant_is_the_converted_value(ctx, rule="C14.R5"):
    """`CONST c<suffix> = e` stores e converted to the suffix type: in both passes that keep a
    constant table the value that is stored is the *result* of the cast to the name's qualifier, not
    the value that went into the cast (a later constant that uses c would see another type/value
    than the run time does)."""
    prog = ctx.prog
    fs = [f for f in prog.fns.values() if f.name == "cast_resolved_value_to_declared_type" and f.crate == "rusty_linter"]
    if len(fs) != 1:
        raise CheckError("anchor ConstantMap::cast_resolved_value_to_declared_type")
    fn = fs[0]
    body = fn.body
    pv = mir.Prov(body)
    casts = [(b, t) for b, t in body.calls() if mir.callee_path(t).split("::")[-1] == "cast"]
    if len(casts) != 1:
        raise CheckError("%s: expected one cast call, found %d" % (fn.name, len(casts)))
    cb, ct = casts[0]
    # every definition of the return value that lies on a path through the cast derives from its result
    bad = []
    n_defs = 0
    after_cast = body.reachable(cb)
    is_cast = lambda x: x[0] == "call" and x[1].split("::")[-1] == "cast"
    for b, i, st in body.defs().get(0, []):
        if body.is_cleanup(b) or b not in after_cast:
            continue
        n_defs += 1
        if i == "T":
            o = mir.Origin(("call", st.get("cpath") or "", tuple(pv.of_operand(a) for a in st["args"])))
            ok = any(mir.origin_mentions(pv.of_operand(a), is_cast) for a in st["args"]) or is_cast(o)
            what = "%s(..)" % (st.get("cpath") or "").split("::")[-1]
        else:
            r = st["r"]
            ops = r.get("ops") or ([r["o"]] if "o" in r else [])
            ok = any(mir.origin_mentions(pv.of_operand(a), is_cast) for a in ops)
            what = "%s" % ", ".join(mir.short_origin(pv.of_operand(a)) for a in ops)
        if not ok:
            bad.append("line %s: returns %s" % (st.get("ln"), what))
    n_ok = n_defs
    direct = False
    ctx.decide(not bad and (n_ok > 0 or direct), rule, rule + ":pre-linter-constant-map", fn.loc,
               "the value returned after the cast derives from the cast result",
               "after casting to the declared type the function returns %s - the unconverted value: "
               "`CONST A%% = 2.5 : CONST B = 1 / (A - 2.5)` is folded with A = 2.5 and rejected although the run "
               "time computes with A = 3" % (bad or "a value that does not come from the cast"))
    ctx.require(rule, 1)


def r6_const_errors_keep_their_kind(ctx, rule="C14.R6"):
    """`rejected for overflow or division by zero exactly when evaluating it at run time would raise
    that error`: the folder and the conversion to the constant's suffix report the error the value
    arithmetic reported.  Where the checker evaluates or converts a constant (a call of eval_const or
    of CastVariant::cast) and re-wraps the error (map_err), the wrapping function looks at the error
    it receives - one that ignores its argument reports every failure as the same kind
    (`CONST A% = 40000` inside a SUB: Type mismatch instead of Overflow)."""
    prog = ctx.prog
    n = 0
    for f in sorted(prog.fns.values(), key=lambda f: f.id):
        if f.crate != "rusty_linter" or f.kind == "const":
            continue
        body = f.body
        names = {(t.get("cpath") or "").split("::")[-1] for _b, t in body.calls()}
        if not (names & {"eval_const", "cast"}):
            continue
        pv = mir.Prov(body)
        for b, t in body.calls():
            if not (t.get("cpath") or "").endswith("Result::<T, E>::map_err") or len(t["args"]) < 2:
                continue
            recv = pv.of_operand(t["args"][0])
            if not mir.origin_mentions(recv, lambda z: z[0] == "call" and z[1].split("::")[-1] in ("eval_const", "cast")):
                continue
            pl = mir.op_place(t["args"][1])
            cl = None
            if pl is not None:
                d = body.single_def(pl[0])
                if d and d[1] != "T" and d[2]["r"].get("a") == "closure":
                    cl = prog.fns.get(d[2]["r"]["def"])
            if cl is None:
                continue        # a named function (From::from ...) receives the error by construction
            uses = False
            for blk in cl.body.blocks:
                for stt in blk["s"]:
                    if stt["k"] != "assign":
                        continue
                    r = stt["r"]
                    places = [r.get("p")] + [mir.op_place(r[k]) for k in ("o", "a", "b") if isinstance(r.get(k), dict)] + \
                             [mir.op_place(o) for o in r.get("ops", [])]
                    if any(p_ is not None and p_[0] == 2 for p_ in places):
                        uses = True
                tt = blk["t"]
                if tt["k"] == "call" and any(mir.op_place(a) is not None and mir.op_place(a)[0] == 2 for a in tt["args"]):
                    uses = True
            n += 1
            name = f.path.split("::", 1)[1]
            ctx.decide(uses, rule, "%s:%s@%d" % (rule, name, n), "%s:%s" % (f.file, t.get("ln")),
                       "the wrapped error is built from the error received",
                       "%s replaces whatever error the evaluation / conversion of a constant reports (line %s) by a fixed "
                       "one: an overflow in `CONST A%% = 200 * 200` is no longer reported as the Overflow the same "
                       "expression raises at run time" % (name, t.get("ln")))
    ctx.analysed_units(rule, rewrapped_errors=n)
    ctx.require(rule, 3)


def r7_only_the_folder_computes_on_literals(ctx, rule="C14.R7"):
    """`a CONST has the value and type its expression would have at run time`, and a constant is inlined as a
    literal where it is used.  The parser rewrites `-32768` (a minus sign in front of digits) into one wider
    literal, because there the digits alone would not fit; that is arithmetic on the spelling of a program.
    Applied after constants were inlined it computes on *values*: `-LOWEST` with CONST LOWEST = -32768 becomes
    the LONG 32768 where the VM and the constant folder both raise Overflow.  The functions of the parser that
    negate the payload of a literal (and the parser functions built on them) are called from the parser crate
    only; the one place of the checker that computes values is the constant folder, which is compared with the
    VM cell by cell (R1)."""
    prog = ctx.prog
    family = set()
    for f in prog.fns.values():
        if f.crate != "rusty_parser" or f.body is None:
            continue
        if any(st["k"] == "assign" and st["r"].get("k") == "un" and st["r"].get("op") == "Neg"
               for blk in f.body.blocks if not blk.get("c") for st in blk["s"]):
            family.add(f.id)
    callers = prog.callers()
    work = list(family)
    while work:
        x = work.pop()
        for c in callers.get(x, ()):
            g = prog.fns.get(c)
            if g is not None and g.crate == "rusty_parser" and c not in family and "::expr::" in c:
                family.add(c)
                work.append(c)
    inside = 0
    outside = []
    for f in prog.fns.values():
        if f.body is None:
            continue
        for _b, t in f.body.calls():
            c = t.get("res") or mir.callee_of(t)
            if c in family:
                if f.crate == "rusty_parser":
                    inside += 1
                else:
                    outside.append("%s (%s:%s)" % (f.path.split("::", 1)[1], f.file, t.get("ln")))
    if len(family) < 2 or inside < 2:
        raise CheckError("%s: the literal arithmetic of the parser was not found (%d functions, %d calls inside the parser)"
                         % (rule, len(family), inside))
    ctx.decide(not outside, rule, rule + ":literal-arithmetic-stays-in-the-parser", "rusty_parser/src/expr/types.rs",
               "%d parser functions compute on literals; called %d times, from the parser only" % (len(family), inside),
               "the parser's arithmetic on literals is applied outside the parser: %s - after constants were inlined it computes "
               "a value the VM and the constant folder refuse (`-LOWEST` with CONST LOWEST = -32767 - 1 is 32768 instead of "
               "Overflow)" % ", ".join(outside[:4]))
    ctx.analysed_units(rule, family=len(family), calls_inside_parser=inside)
    ctx.require(rule, 1)


def run(ctx):
    common.install(ctx)
    T = ot.OpTables(ctx.prog)
    r1_folder_vs_vm(ctx, T)
    r2_inlined_as_literal(ctx, T)
    r3_both_passes(ctx)
    from . import c13
    c13.r5_local_before_global(ctx, "C14.R4")
    r5_stored_constant_is_the_converted_value(ctx)
    r6_const_errors_keep_their_kind(ctx)
    r7_only_the_folder_computes_on_literals(ctx)
    # `the expression would have at run time`: the type the checker gives an expression is the tag the VM's result
    # has (else no conversion is emitted where the expression is stored, while the folded constant is converted)
    from . import c06
    c06.r1_static_vs_dynamic(ctx, T, "C14.R8")
