"""C03 - calls, by-reference arguments, STATIC and SHARED state (C03.R1-R5)."""
from .. import emit, mir, optables as ot, tagflow as tf, vm as vmmod
from ..core import CheckError
from . import common

LEVEL = "other"
EXPLANATION = (
    "(R1) index-stable storage: a Vec whose indices are *stored* elsewhere (memory blocks addressed "
    "by State::memory_block_index and by the STATIC map; IndexedMap::entries addressed by "
    "keys_to_indices) is only mutated by operations that keep existing indices valid; (R2) the three "
    "definitions of `passed by reference` - the checker's routing, Expression::is_by_ref, and the "
    "generator's stash / un-stash / push loops - select the same expression variants, and the number "
    "of values enqueued equals the number dequeued because both loops test is_by_ref over the same "
    "argument list; (R3) the by-ref queue is touched only by enqueue (push_back) and dequeue "
    "(pop_front): write-back is left to right; (R4) activation pairing in the VM and in the call "
    "template (arguments collected before PushStack, function value stashed before PopStack, every "
    "call template ends with the callee context popped); (R5) fresh locals for ordinary procedures, "
    "one persistent block per STATIC procedure; (R6) every VM container is used at the end its role "
    "prescribes; (R7, R8) SHARED variables are found from every subprogram (gate and fallback, shared "
    "with C13); (R9) the global by-ref queue is not re-entered while values are still queued; (R10) "
    "IndexedMap::insert keeps the position of a key that is already present.  R8 also requires every lookup of a constant's value on the scoped name table (inherent or through ConstLookup) to fall back to the module level, so a CONST is the same object in a subprogram's own CONST expressions and STRING * n lengths."
    " (R4, extended) the call templates write back the very argument list they stashed."
    " (R12) wherever the generator builds the path of a variable the shared flag is the one the checker resolved, or - for a name of the generator's own - the constant false; (R1, extended) the re-indexing follows the shift on every path."
    " (R13) a DIM inside a STATIC procedure is allocated once whatever is declared: in the emitter of the IsVariableDefined guard, walked per call site with the constants of that site, every path that reaches the allocation without the guard carries the answer `the procedure is not STATIC`.")
NOT_DECIDED = ["visibility of values over arbitrary call histories (run-time behaviour)"]

SHIFTING = ("remove", "swap_remove", "insert", "drain", "retain", "truncate", "split_off", "dedup",
            "sort", "sort_by", "reverse", "rotate_left", "rotate_right", "clear")


def stored_index_vectors(prog):
    """Vec fields of rusty_basic structs that are indexed with an index read from another field or
    from a map (a *stored* index): {field name: [evidence]}"""
    out = {}
    for fn in prog.fns.values():
        if fn.crate != "rusty_basic" or fn.kind == "const":
            continue
        pv = mir.Prov(fn.body)
        for b, t in fn.body.calls():
            name = mir.callee_path(t).split("::")[-1]
            if name not in ("index", "index_mut", "get", "get_mut") or len(t["args"]) < 2:
                continue
            recv = mir.strip_refs(pv.of_operand(t["args"][0]))
            if recv[0] != "field":
                continue
            ty = ""
            p = mir.op_place(t["args"][0])
            idx = pv.of_operand(t["args"][1])
            stored = mir.origin_mentions(idx, lambda o: o[0] == "field" and o[2] in ("memory_block_index",)) or \
                mir.origin_mentions(idx, lambda o: o[0] == "call" and o[1].split("::")[-1] in (
                    "current_memory_block_index", "caller_variables_memory_block_index")) or \
                mir.origin_mentions(idx, lambda o: o[0] == "call" and "HashMap" in o[1] and o[1].split("::")[-1] == "get")
            if stored:
                out.setdefault(recv[2], []).append("%s: %s[%s]" % (fn.name, recv[2], mir.short_origin(idx)))
    return out


def _reindexes_holders(fn, shift_bb, op="remove", prog=None):
    """After the shifting call in block shift_bb the function walks both places that hold indices
    into memory_blocks and rewrites them the way the shift moved the elements.  Only `remove(i)` is
    modelled: every element above i moves down by one, so each holder must be rewritten as
    `if idx > i { idx -= 1 }` with the same i - a values_mut()/iter_mut() over static_memory_blocks
    with a store through the yielded reference, and a store into some State::memory_block_index.
    Any other reordering (swap_remove moves the LAST element into the hole, insert shifts up ...)
    needs a different rewrite and is not accepted."""
    if op != "remove":
        return False
    body = fn.body
    after = body.reachable(shift_bb)
    pv = mir.Prov(body)
    shift = body.term(shift_bb)
    removed = mir.strip_all(pv.of_operand(shift["args"][1])) if len(shift["args"]) > 1 else None
    # the rewrite follows the shift on EVERY path: a shortcut around it (`the removed block was the last one`)
    # rests on arithmetic about lengths that nothing here can check, and one slip leaves stale indices behind
    walks = {b for b, t in body.calls() if b in after and mir.callee_path(t).split("::")[-1] in ("values_mut", "iter_mut")
             and common.receiver_field(pv, t) in ("static_memory_blocks", "states")}
    helper_calls = {b for b, t in body.calls() if b in after and prog is not None and
                    (prog.fns.get(t.get("res") or mir.callee_of(t)) is not None) and
                    prog.fns[t.get("res") or mir.callee_of(t)].file == fn.file and
                    any(mir.strip_all(pv.of_operand(a)) == removed for a in t["args"])}
    through = walks | helper_calls
    if through and not body.every_path_passes(shift_bb, set(body.exits()), through):
        return False
    if _reindex_in(body, after, removed):
        return True
    if prog is not None and _reindex_chains(prog, fn, after, removed):
        return True
    # the rewrite may have been moved into a private helper that is handed the removed index
    for b, t in body.calls():
        if b not in after or prog is None:
            continue
        g = prog.fns.get(t.get("res") or mir.callee_of(t))
        if g is None or g.file != fn.file or g.id == fn.id:
            continue
        for j, a in enumerate(t["args"]):
            if mir.strip_all(pv.of_operand(a)) == removed:
                whole = {x for x in range(g.body.nblocks) if not g.body.is_cleanup(x)}
                if _reindex_in(g.body, whole, ("param", j)):
                    return True
    return False


def _reindex_chains(prog, fn, after, removed):
    """the iterator spelling of the rewrite, for both holders:
    `holder.values_mut() / iter_mut() .filter(|x| x > removed) .for_each(|x| x -= 1)` - the filter closure
    compares with `>` against the captured removed index, the for_each closure subtracts the constant 1 and
    stores through its item (or into its memory_block_index)"""
    body = fn.body
    pv = mir.Prov(body)
    done = set()
    for b, t in body.calls():
        if b not in after or mir.callee_path(t).split("::")[-1] not in ("values_mut", "iter_mut"):
            continue
        holder = common.receiver_field(pv, t)
        if holder not in ("static_memory_blocks", "states"):
            continue
        filt = dec = False
        for _b2, t2 in body.calls():
            nm = mir.callee_path(t2).split("::")[-1]
            if nm not in ("filter", "for_each") or len(t2["args"]) < 2:
                continue
            if not mir.origin_mentions(pv.of_operand(t2["args"][0]), lambda z: z[0] == "call" and len(z) > 3 and z[3] == b):
                continue
            so = mir.strip_all(pv.of_operand(t2["args"][1]))
            if not (so[0] == "agg" and so[1] == "closure"):
                continue
            c = prog.fns.get(so[2])
            if c is None or c.body is None:
                continue
            stmts = [st for blk in c.body.blocks if not blk.get("c") for st in blk["s"] if st["k"] == "assign"]
            if nm == "filter":
                captures = [mir.strip_all(x) for x in so[3]]
                gt = any(st["r"].get("k") == "bin" and st["r"]["op"] == "Gt" for st in stmts)
                filt = gt and removed in captures
            else:
                sub1 = any(st["r"].get("k") == "bin" and st["r"]["op"] in ("Sub", "SubWithOverflow")
                           and (st["r"]["b"].get("k") or {}).get("int") == 1 for st in stmts)
                store = any(st["p"][1] and (st["p"][1][-1] == "*" or any(isinstance(e, dict) and e.get("n") == "memory_block_index"
                                                                          for e in st["p"][1])) for st in stmts)
                dec = sub1 and store
        if filt and dec:
            done.add(holder)
    return done == {"static_memory_blocks", "states"}


def _reindex_in(body, after, removed):
    pv = mir.Prov(body)
    walks_static = False
    for b, t in body.calls():
        if b in after and mir.callee_path(t).split("::")[-1] in ("values_mut", "iter_mut") \
                and common.receiver_field(pv, t) == "static_memory_blocks":
            walks_static = True
    # blocks guarded by `holder > removed index`
    guarded = set()
    for b in after:
        blk = body.blocks[b]
        t = blk["t"]
        if t["k"] != "switch":
            continue
        for st in blk["s"]:
            r = st.get("r", {})
            if st["k"] == "assign" and r.get("k") == "bin" and r["op"] == "Gt" and \
                    mir.strip_all(pv.of_operand(r["b"])) == removed:
                true_t = [tg for v, tg in t["ts"] if v != 0] or [t["else"]]
                false_t = [tg for v, tg in t["ts"] if v == 0]
                tgt = t["else"] if false_t else true_t[0]
                guarded |= {x for x in body.reachable(tgt, avoid=set(false_t)) if body.dominates(tgt, x)}
    dec_blocks = set()
    for b in after:
        for st in body.blocks[b]["s"]:
            r = st.get("r", {})
            if st["k"] == "assign" and r.get("k") == "bin" and r["op"] in ("Sub", "SubWithOverflow") \
                    and (r["b"].get("k") or {}).get("int") == 1:
                dec_blocks.add(b)
    writes_state = False
    writes_through_ref = False
    for b in after:
        for st in body.blocks[b]["s"]:
            if st["k"] != "assign":
                continue
            proj = st["p"][1]
            is_state = any(isinstance(e, dict) and e.get("n") == "memory_block_index" for e in proj)
            is_ref = proj == ["*"]
            if not (is_state or is_ref):
                continue
            # the stored value is the decrement computed in a guarded block
            ok = b in guarded or any(d in guarded and b in body.reachable(d) and body.dominates(d, b) for d in dec_blocks)
            if not ok:
                return False
            if is_state:
                writes_state = True
            if is_ref:
                writes_through_ref = True
    return walks_static and writes_through_ref and writes_state and bool(dec_blocks)


def r1_index_stable(ctx, rule="C03.R1"):
    prog = ctx.prog
    vecs = stored_index_vectors(prog)
    if "entries" not in vecs and prog.method("IndexedMap", "get_by_index") is not None:
        vecs["entries"] = ["IndexedMap::get_by_index(index): positional access is part of the map's API"]
    if "memory_blocks" not in vecs or "entries" not in vecs:
        raise CheckError("index-addressed vectors not recognised: %s" % sorted(vecs))
    for field in sorted(vecs):
        n = 0
        for fn in sorted(prog.fns.values(), key=lambda f: f.id):
            if fn.crate != "rusty_basic" or fn.kind == "const":
                continue
            pv = mir.Prov(fn.body)
            for b, t in fn.body.calls():
                if common.receiver_field(pv, t) != field:
                    continue
                cp = mir.callee_path(t)
                if not (cp.startswith("std::vec::Vec") or "slice" in cp):
                    continue
                name = cp.split("::")[-1]
                n += 1
                if name in SHIFTING and field == "memory_blocks" and _reindexes_holders(fn, b, name, prog):
                    ctx.ok(rule, "%s:%s:%s:%s" % (rule, field, fn.name, name), "%s:%s" % (fn.file, t.get("ln")),
                           "remove(i) is followed by `if idx > i { idx -= 1 }` on both index holders "
                           "(static_memory_blocks values, State::memory_block_index)")
                    continue
                if name in SHIFTING:
                    owner = prog.enclosing_fn(fn) or fn
                    ctx.violation(rule, "%s:%s:%s:%s" % (rule, field, owner.path.split("::", 1)[1].split("::")[-1], name),
                                  "%s:%s" % (fn.file, t.get("ln")),
                                  "%s.%s(..) shifts the elements of a vector whose indices are stored "
                                  "elsewhere (%s): every stored index above the removed slot now points at the "
                                  "wrong element" % (field, name, vecs[field][0]), {"function": fn.path})
        ctx.ok(rule, "%s:%s:mutators-scanned" % (rule, field), "rusty_basic", "%d Vec operations on %s" % (n, field))
    ctx.analysed_units(rule, index_addressed=vecs)
    ctx.require(rule, 2)


def r10_indexed_map_insert(ctx, rule="C03.R10"):
    """Variables / memory blocks are IndexedMaps read by position (EnqueueToReturnStack(index),
    context[index]): inserting a key that is already present must keep its position.  Every push onto
    `entries` in IndexedMap::insert must therefore sit on the not-found side of a lookup of the key
    in `keys_to_indices` (a STATIC procedure re-inserts its parameter names on every call)."""
    prog = ctx.prog
    ins = prog.method("IndexedMap", "insert")
    if ins is None:
        raise CheckError("anchor IndexedMap::insert")
    body = ins.body
    pv = mir.Prov(body)
    pushes = [(b, t) for b, t in body.calls()
              if mir.callee_path(t).split("::")[-1] in ("push", "insert", "extend", "append")
              and mir.callee_path(t).startswith("std::vec::Vec") and common.receiver_field(pv, t) == "entries"]
    if not pushes:
        raise CheckError("IndexedMap::insert: no append to `entries` found")
    not_found = set()
    lookups = 0
    for sw in mir.enum_switches(prog, body):
        if sw.adt != "core::option::Option":
            continue
        o = mir.strip_all(pv.of_place(sw.place))
        if o[0] != "call" or "HashMap" not in o[1] or o[1].split("::")[-1] not in ("get", "get_mut", "remove"):
            continue
        lookups += 1
        tgt = sw.arms.get("None", sw.otherwise)
        if tgt is not None:
            not_found |= mir.arm_region(body, sw.bb, tgt)
    for b, t in pushes:
        ctx.decide(b in not_found, rule, "%s:insert:append-only-when-key-absent" % rule, "%s:%s" % (ins.file, t.get("ln")),
                   "the append is on the not-found side of the key lookup",
                   "IndexedMap::insert appends to `entries` %s: a key that is already present gets a second "
                   "position, and positional readers (by-reference write-back, context[index]) keep reading "
                   "the stale first entry" % ("without looking the key up first" if not lookups else
                                              "also when the key lookup succeeded"))
    ctx.analysed_units(rule, function=ins.path, lookups=lookups, appends=len(pushes))
    ctx.require(rule, 1)


def r2_by_ref_agreement(ctx, rule="C03.R2"):
    prog = ctx.prog
    eng = tf.Engine(prog)
    fs = [f for f in prog.fns.values() if f.name == "is_by_ref" and f.impl and f.impl["self_ty"].endswith("types::Expression")]
    if len(fs) != 1:
        raise CheckError("anchor Expression::is_by_ref")
    isb = fs[0]
    by_ref = set()
    for v in prog.variants(ot.EXPR):
        rs = {tf.shape(x) for x in eng.summary(isb, (tf.Ref(eng.make(ot.EXPR, v)),))}
        if rs == {"1"}:
            by_ref.add(v)
        elif rs != {"0"}:
            ctx.unknown(rule, rule + ":is_by_ref:" + v, isb.loc, str(rs))
    ctx.decide(by_ref == {"Variable", "ArrayElement", "Property"}, rule, rule + ":is_by_ref-variants", isb.loc,
               "Variable, ArrayElement, Property", "Expression::is_by_ref is true for %s" % sorted(by_ref))
    # checker routing (lint_call_arg) selects the same set
    arg = [f for f in prog.fns.values() if f.name == "lint_call_arg" and "user_defined_function_linter" in f.id]
    if len(arg) != 1:
        raise CheckError("anchor lint_call_arg")
    brf = [f for f in prog.fns.values() if f.name == "lint_by_ref_arg" and "user_defined_function_linter" in f.id][0]
    sw = [s for s in mir.enum_switches(prog, arg[0].body) if s.adt == ot.EXPR][0]
    from .c12 import routed_variants
    routed, mixed = routed_variants(arg[0], sw, brf)
    if mixed:
        routed = routed | {"%s(only under a guard)" % m for m in mixed}
    ctx.decide(routed == by_ref, rule, rule + ":checker-routing-agrees", arg[0].loc,
               "the checker types exactly the by-ref variants by equality",
               "the checker routes %s to the by-reference check but the generator passes %s by reference"
               % (sorted(routed), sorted(by_ref)))
    # generator loops: each tests is_by_ref on the element of its `args` parameter
    for name, guarded in (("generate_stash_by_ref_args", "EnqueueToReturnStack"),
                          ("generate_un_stash_by_ref_args", "DequeueFromReturnStack"),
                          ("generate_push_unnamed_args_instructions", "PushUnnamedByRef")):
        f = ctx.anchor_method("InstructionGenerator", name)
        evs = emit.events(prog, f)
        pv = mir.Prov(f.body)
        tests = [(b, t) for b, t in f.body.calls() if mir.callee_path(t).split("::")[-1] == "is_by_ref"]
        ok = len(tests) == 1
        if ok:
            o = mir.short_origin(pv.of_operand(tests[0][1]["args"][0]))
            ok = o.startswith("arg1")
        # the guarded push is reachable only through the true edge of the test
        if ok:
            tb, tt = tests[0]
            sw_t = f.body.term(tt["t"])
            false_t = [tg for v, tg in sw_t["ts"] if v == 0] if sw_t["k"] == "switch" else []
            pushes = [e for e in evs.values() if e.kind == "push" and e.instr == guarded]
            ok = bool(pushes) and bool(false_t)
            for e in pushes:
                # every path from the test to the push avoids the false edge
                if e.bb in f.body.reachable(false_t[0], avoid={tt["t"]}) and not f.body.dominates(sw_t["else"], e.bb):
                    ok = False
                if not f.body.dominates(sw_t["else"], e.bb):
                    ok = False
        if not ok and not tests:
            ok = _filtered_chain_form(prog, f, guarded)
        ctx.decide(ok, rule, "%s:%s:guarded-by-is_by_ref" % (rule, name), f.loc,
                   "%s is emitted exactly for the arguments with is_by_ref()" % guarded,
                   "%s does not emit %s under an is_by_ref() test of its argument list: enqueued and "
                   "dequeued values go out of step" % (name, guarded))
    ctx.require(rule, 5)


def _filtered_chain_form(prog, f, guarded):
    """the iterator spelling of the guarded loop: `args.iter()..filter(|a| a.is_by_ref()).for_each(|a| push(X))` -
    one closure of f that answers is_by_ref of its item is handed to `filter`, and X is pushed only by a closure
    that is applied to what the filter lets through"""
    closures = prog.closures_of(f, deep=False) if "deep" in prog.closures_of.__code__.co_varnames else prog.closures_of(f)
    testers = [c for c in closures if any(mir.callee_path(t).split("::")[-1] == "is_by_ref" for _b, t in c.body.calls())]
    if len(testers) != 1:
        return False
    pv = mir.Prov(f.body)
    filt_blocks = []
    for b, t in f.body.calls():
        if mir.callee_path(t).split("::")[-1] == "filter" and len(t["args"]) > 1:
            so = mir.strip_all(pv.of_operand(t["args"][1]))
            if so[0] == "agg" and so[1] == "closure" and so[2] == testers[0].id:
                filt_blocks.append(b)
    if len(filt_blocks) != 1:
        return False

    def pushes_guarded(body):
        cpv = mir.Prov(body)
        for _b, t in body.calls():
            if mir.callee_path(t).split("::")[-1] == "push" and len(t["args"]) > 1:
                so = mir.strip_all(cpv.of_operand(t["args"][1]))
                if so[0] == "agg" and (so[2] or "").endswith("::" + guarded):
                    return True
        return False
    if pushes_guarded(f.body):
        return False          # also pushed outside the filtered chain
    pushers = [c for c in closures if pushes_guarded(c.body)]
    if len(pushers) != 1:
        return False
    for b, t in f.body.calls():
        if mir.callee_path(t).split("::")[-1] in ("for_each", "try_for_each", "map") and len(t["args"]) > 1:
            so = mir.strip_all(pv.of_operand(t["args"][1]))
            recv = pv.of_operand(t["args"][0])
            if so[0] == "agg" and so[1] == "closure" and so[2] == pushers[0].id and \
                    mir.origin_mentions(recv, lambda z: z[0] == "call" and len(z) > 3 and z[3] == filt_blocks[0]):
                return True
    return False


def r3_fifo(ctx, rule="C03.R3"):
    prog = ctx.prog
    users = {}
    for fn in prog.fns.values():
        if fn.crate != "rusty_basic" or fn.kind == "const":
            continue
        pv = mir.Prov(fn.body)
        for b, t in fn.body.calls():
            if not t["args"]:
                continue
            o = mir.strip_refs(pv.of_operand(t["args"][0]))
            is_q = (o[0] == "call" and o[1].split("::")[-1] == "by_ref_stack") or (o[0] == "field" and o[2] == "by_ref_stack")
            if is_q and "VecDeque" in mir.callee_path(t):
                users.setdefault(fn.name, []).append(mir.callee_path(t).split("::")[-1])
    ctx.decide(users.get("enqueue_to_return_stack") == ["push_back"], rule, rule + ":enqueue-at-back", "subprogram.rs",
               "enqueue pushes at the back", "enqueue_to_return_stack does %s" % users.get("enqueue_to_return_stack"))
    deq = users.get("dequeue_from_return_stack")
    discipline = {"pop_front": "FIFO", "pop_back": "LIFO"}.get(deq[0]) if deq and len(deq) == 1 else None
    # the generator side: in which order are the values stashed / written back?
    stash = ctx.anchor_method("InstructionGenerator", "generate_stash_by_ref_args")
    un = ctx.anchor_method("InstructionGenerator", "generate_un_stash_by_ref_args")

    def reversed_loop(f):
        return any(mir.callee_path(t).split("::")[-1] == "rev" for _b, t in f.body.calls())
    stash_rev, un_rev = reversed_loop(stash), reversed_loop(un)
    ctx.decide(not un_rev, rule, rule + ":write-back-left-to-right", un.loc,
               "the write-back loop runs over the arguments in order",
               "generate_un_stash_by_ref_args iterates the arguments in reverse: when two arguments alias, the "
               "first parameter's value wins instead of the last")
    first_first = discipline is not None and ((discipline == "FIFO") != stash_rev)
    ctx.decide(first_first, rule, rule + ":dequeue-at-front", "subprogram.rs",
               "the value of the first by-ref argument is the first one taken back (%s container, stash loop %s)"
               % (discipline, "reversed" if stash_rev else "forward"),
               "dequeue_from_return_stack does %s (%s) while the generator stashes the arguments %s: by-ref values "
               "are written back in the wrong order" % (deq, discipline, "in reverse" if stash_rev else "in order"))
    others = {k: v for k, v in users.items() if k not in ("enqueue_to_return_stack", "dequeue_from_return_stack", "new")}
    ctx.decide(not others, rule, rule + ":no-other-user", "rusty_basic", "queue touched by enqueue/dequeue only",
               "by_ref_stack is also used by %s" % others)
    # enqueue reads the callee's variable by positional index (the argument order)
    f = [x for x in prog.fns.values() if x.name == "enqueue_to_return_stack"]
    if len(f) != 1:
        raise CheckError("anchor enqueue_to_return_stack")
    pv = mir.Prov(f[0].body)
    ok = False
    for b, t in f[0].body.calls():
        if mir.callee_path(t).split("::")[-1] == "index" and len(t["args"]) > 1:
            ok = mir.strip_all(pv.of_operand(t["args"][1])) == ("param", 1)
    ctx.decide(ok, rule, rule + ":enqueue-reads-argument-index", f[0].loc, "context()[index]",
               "enqueue_to_return_stack no longer reads the callee variable at the argument's index")
    ctx.require(rule, 5)


def _emitted_instructions(prog, g, depth=2, _memo={}):
    """Instruction variants a generator function emits itself or through the generator functions it calls"""
    k = (id(prog), g.id, depth)
    if k in _memo:
        return _memo[k]
    _memo[k] = set()
    out = set()
    if emit.is_generator_fn(g):
        for e in emit.events(prog, g).values():
            if e.kind == "push" and e.instr:
                out.add(e.instr)
            elif depth and e.callee is not None and e.kind == "gen":
                out |= _emitted_instructions(prog, e.callee, depth - 1)
        # pushes made by the closures of an iterator chain (`.for_each(|a| self.push(Instruction::X ..))`)
        for c in prog.closures_of(g):
            cpv = mir.Prov(c.body)
            for _b, t in c.body.calls():
                if mir.callee_path(t).split("::")[-1] == "push" and len(t["args"]) > 1:
                    so = mir.strip_all(cpv.of_operand(t["args"][1]))
                    if so[0] == "agg" and "Instruction::" in (so[2] or ""):
                        out.add(so[2].split("::")[-1])
    _memo[k] = out
    return out


def r4_activation_pairing(ctx, rule="C03.R4"):
    prog = ctx.prog
    V = vmmod.VM(prog)
    eff, one = V.instruction_effects()
    dims = vmmod.DIMS

    def e(instr):
        return [{d: k for d, k in zip(dims, v) if k} for v in eff.get(instr, [])]
    ctx.decide(e("PushStack") == [{"trace": 1}] and e("PushStaticStack") == [{"trace": 1}], rule,
               rule + ":push-stack-effects", one.loc, "argument state replaced by callee state, call site traced",
               "PushStack/PushStaticStack effects are %s / %s" % (e("PushStack"), e("PushStaticStack")))
    ctx.decide(e("PopStack") == [{"ctx": -1, "trace": -1}], rule, rule + ":pop-stack-effects", one.loc,
               "callee context and trace entry removed", "PopStack effects are %s" % e("PopStack"))
    ctx.decide(e("BeginCollectArguments") == [{"ctx": 1}], rule, rule + ":begin-collect", one.loc,
               "argument-collecting state pushed", "BeginCollectArguments effects are %s" % e("BeginCollectArguments"))
    # call templates
    for name in ("generate_function_call_instructions", "generate_sub_call_instructions",
                 "generate_built_in_function_call_instructions", "generate_built_in_sub_call_instructions"):
        f = ctx.anchor_method("InstructionGenerator", name)
        evs = emit.events(prog, f)
        seqs = emit.linear_paths(f.body, evs)
        if not seqs:
            raise CheckError("%s: no paths" % name)
        okall = True
        why = ""
        for seq in seqs:
            # each event by what it emits (directly, or through the private helper it calls - two levels):
            # helpers are recognised by their instructions, not by their names
            names = []
            for ev in seq:
                if ev.kind == "push":
                    names.append({ev.instr})
                elif ev.callee is not None:
                    names.append(_emitted_instructions(prog, ev.callee))
                else:
                    names.append(set())

            def pos(*instrs):
                for k, st_ in enumerate(names):
                    if st_ & set(instrs):
                        return k
                return -1
            push_args = pos("BeginCollectArguments")
            push_stack = pos("PushStack", "PushStaticStack")
            pop = pos("PopStack")
            stash = pos("EnqueueToReturnStack")
            unstash = pos("DequeueFromReturnStack")
            conds = [(0 <= push_args < push_stack, "arguments are collected before PushStack"),
                     (push_stack < pop, "PushStack precedes PopStack"),
                     (push_stack < stash < pop, "by-ref values are stashed while the callee context is current"),
                     (pop < unstash, "by-ref values are written back in the caller's context")]
            # what is stashed is what is written back: both walk the same argument list (a list filtered for
            # one of them enqueues values nobody dequeues - the queue grows, and the leftover is taken for an
            # argument of the enclosing call)
            st_ev = [ev for ev in seq if ev.callee is not None and "EnqueueToReturnStack" in _emitted_instructions(prog, ev.callee)]
            un_ev = [ev for ev in seq if ev.callee is not None and "DequeueFromReturnStack" in _emitted_instructions(prog, ev.callee)]
            if st_ev and un_ev and len(st_ev[0].args) > 1 and len(un_ev[0].args) > 1:
                a, b2 = mir.strip_all(st_ev[0].args[1]), mir.strip_all(un_ev[0].args[1])
                conds.append((a == b2, "the list of arguments written back (%s) is the list that was stashed (%s)"
                              % (mir.short_origin(b2), mir.short_origin(a))))
            if "function" in name:
                sf = pos("StashFunctionReturnValue")
                uf = pos("UnStashFunctionReturnValue")
                conds.append((push_stack < sf < pop, "the function value is read before the callee context is popped"))
                conds.append((pop < uf, "the function value is delivered after PopStack"))
            for c, w in conds:
                if not c:
                    okall = False
                    why = w
        ctx.decide(okall, rule, "%s:template:%s" % (rule, name), f.loc, "call template ordered correctly",
                   "%s: violated order - %s" % (name, why))
    ctx.require(rule, 7)


def r5_fresh_and_static(ctx, rule="C03.R5"):
    prog = ctx.prog
    f = ctx.anchor_method("Context", "stop_collecting_arguments")
    calls = [mir.callee_path(t).split("::")[-1] for _b, t in f.body.calls()]
    ctx.decide("do_push_new" in calls and "do_push_existing" not in calls, rule, rule + ":fresh-block-per-activation",
               f.loc, "a new memory block per activation",
               "stop_collecting_arguments no longer allocates a fresh memory block (calls %s): locals "
               "of a previous activation leak into the next" % calls)
    g = ctx.anchor_method("Context", "stop_collecting_arguments_static")
    sws = [s for s in mir.enum_switches(prog, g.body) if s.adt == "core::option::Option"]
    pv = mir.Prov(g.body)
    okk = False
    for sw in sws:
        disc = mir.short_origin(pv.of_place(sw.place))
        some = sw.arms.get("Some")
        none = sw.arms.get("None", sw.otherwise)
        if some is None or none is None:
            continue
        rs = mir.arm_region(g.body, sw.bb, some)
        rn = mir.arm_region(g.body, sw.bb, none)
        cs = [mir.callee_path(t).split("::")[-1] for _b, t in mir.region_calls(g.body, rs)]
        cn = [mir.callee_path(t).split("::")[-1] for _b, t in mir.region_calls(g.body, rn)]
        if "do_push_existing" in cs and "apply_arguments" in cs and "do_push_new" in cn and "insert" in cn:
            okk = True
    ctx.decide(okk, rule, rule + ":static-block-reused", g.loc,
               "known STATIC procedure: reuse its block and apply the arguments; first call: new block, remembered",
               "stop_collecting_arguments_static no longer reuses / registers the procedure's memory block")
    # the lookup key is the procedure's scope name
    ok = False
    for b, t in g.body.calls():
        if mir.callee_path(t).split("::")[-1] == "get" and common.receiver_field(pv, t) == "static_memory_blocks":
            ok = mir.strip_all(pv.of_operand(t["args"][1])) == ("param", 1)
    ctx.decide(ok, rule, rule + ":static-keyed-by-scope-name", g.loc, "static_memory_blocks.get(&scope_name)",
               "the STATIC block is not looked up by the procedure's scope name")
    # `a FUNCTION returns the last value assigned to its name (zero or empty string if none)`: the
    # result variable lives in the function's memory block, which a STATIC function keeps; the read
    # of the result at the end of the call must therefore also reset the variable (take it), else a
    # call that assigns nothing returns the value of the previous call
    h = [f for f in prog.fns.values() if f.name == "stash_function_return_value" and f.crate == "rusty_basic"]
    if len(h) != 1:
        raise CheckError("anchor stash_function_return_value")
    h = h[0]
    hpv = mir.Prov(h.body)
    taken = False
    cloned = False
    for b, t in h.body.calls():
        if mir.callee_path(t).split("::")[-1] == "set_function_result" and len(t["args"]) > 1:
            o = hpv.of_operand(t["args"][1])
            taken = mir.origin_mentions(o, lambda x: x[0] == "call" and x[1].split("::")[-1] in ("replace", "take", "swap"))
            cloned = o[0] == "clone" or mir.origin_mentions(o, lambda x: x[0] == "clone")
    ctx.decide(taken, rule, rule + ":function-result-is-taken", h.loc,
               "the result variable is reset when it is read",
               "stash_function_return_value %s the function's result variable and leaves it set: a STATIC "
               "function keeps its memory block, so a later call that does not assign its name returns the "
               "value of the earlier call instead of zero / the empty string" % ("clones" if cloned else "reads"))
    # what is left behind is the default value of the function's own type - the very value a fresh
    # variable of that name starts with (sibling agreement with Variables::get_or_create): an untyped
    # zero would make a STATIC string function return the integer 0 on a call that assigns nothing
    goc = prog.method("Variables", "get_or_create")
    if goc is None:
        raise CheckError("anchor Variables::get_or_create")
    # what get_or_create calls to make the fresh entry: in its closures, and in helpers of its own
    # file that it calls or hands over by name
    makers, todo = [], [goc]
    while todo:
        g = todo.pop()
        if g in makers:
            continue
        makers.append(g)
        todo += prog.closures_of(g)
        for c in prog.call_edges(g):
            cf = prog.fns.get(c)
            if cf is not None and cf.crate == "rusty_basic" and cf.file == goc.file and cf.name != "get_or_create":
                todo.append(cf)
    creators = {mir.callee_path(t) for g in makers for _b, t in g.body.calls()
                if "rusty_basic" in (mir.callee_of(t) or "") and not mir.callee_path(t).endswith("get_or_create")}
    repl_ok = None
    for g in [h] + [prog.fns[c] for c in prog.call_edges(h) if c in prog.fns and prog.fns[c].crate == "rusty_basic"]:
        gpv = mir.Prov(g.body)
        for b, t in g.body.calls():
            if mir.callee_path(t).split("::")[-1] == "replace" and "mem" in mir.callee_path(t) and len(t["args"]) > 1:
                o = gpv.of_operand(t["args"][1])
                repl_ok = mir.origin_mentions(o, lambda x: x[0] == "call" and x[1] in creators)
    if repl_ok is not None:
        ctx.decide(repl_ok, rule, rule + ":function-result-reset-to-typed-default", h.loc,
                   "the variable is reset with the default value a fresh variable of that name gets",
                   "the function's result variable is reset to a value that does not come from %s (the default "
                   "Variables::get_or_create uses for a fresh variable of that name): a STATIC function of type $ / & / ! / # "
                   "that assigns nothing on a later call returns an untyped 0" % sorted(c.split("::")[-1] for c in creators))
    ctx.require(rule, 4)


def r9_queue_not_reentered(ctx, rule="C03.R9"):
    """The by-ref queue is one global FIFO.  Between the Dequeue of one argument and the Dequeue of
    the next, the write-back must not emit another call template (which enqueues and dequeues on
    the same queue): otherwise the nested call consumes the values still queued for the outer one."""
    prog = ctx.prog
    un = ctx.anchor_method("InstructionGenerator", "generate_un_stash_by_ref_args")
    stash = ctx.anchor_method("InstructionGenerator", "generate_stash_by_ref_args")
    evs = emit.events(prog, un)
    deq = [e for e in evs.values() if e.kind == "push" and e.instr == "DequeueFromReturnStack"]
    if not deq:
        raise CheckError("generate_un_stash_by_ref_args emits no DequeueFromReturnStack")
    # emitters called inside the same loop iteration as the dequeue
    in_loop = [e for e in evs.values() if e.callee is not None and e.kind in ("gen", "EXPR")
               and e.bb in un.body.reachable(deq[0].bb)]
    reentrant = []
    for e in in_loop:
        reach = prog.reachable_from([e.callee])
        if stash.id in reach:
            reentrant.append(e.callee.name)
    # a stack (push and pop at the same end) is safe to re-enter: the nested call pops exactly what it pushed
    deq_fn = [f for f in prog.fns.values() if f.name == "dequeue_from_return_stack"]
    lifo = bool(deq_fn) and any(mir.callee_path(t).split("::")[-1] == "pop_back" for _b, t in deq_fn[0].body.calls())
    ctx.decide(not reentrant or lifo, rule, rule + ":write-back-does-not-reenter-the-queue", un.loc,
               "no call template can be emitted while values are queued, or the container is a stack",
               "after DequeueFromReturnStack the write-back emits %s, which can emit a nested call template "
               "(index expressions containing function calls are evaluated again): the nested call's "
               "dequeue takes the value queued for the next outer argument" % sorted(set(reentrant)))
    ctx.require(rule, 1)


def r12_generator_made_variables_live_with_the_call(ctx, rule="C03.R12"):
    """`each activation has its own locals`: the variables the generator makes for a statement (the limit and
    step of a FOR, the value a SELECT CASE selects on) belong to the activation that runs the statement - a
    recursive call inside the loop body runs its own FOR with its own limit.  Wherever the generator builds the
    path of a variable, the `shared` flag is the one the checker resolved for that variable (a field named
    `shared`, or the parameter of the emitter that is handed it), or - for a name of the generator's own making -
    the constant false.  A constant true files the variable with the module level: every activation of a
    recursive SUB then shares one loop limit."""
    prog = ctx.prog
    n = 0
    for f in sorted(prog.fns.values(), key=lambda f: f.id):
        if f.crate != "rusty_basic" or f.body is None or "instruction_generator" not in f.id or common.is_derived(f):
            continue
        pv = mir.Prov(f.body)
        for blk in f.body.blocks:
            if blk.get("c"):
                continue
            for st in blk["s"]:
                r = st.get("r", {})
                if not (st["k"] == "assign" and r.get("k") == "agg" and r.get("a") == "adt" and r["adt"].endswith("RootPath")
                        and len(r["ops"]) == 2):
                    continue
                n += 1
                k = r["ops"][1].get("k")
                o = mir.strip_all(pv.of_operand(r["ops"][1]))
                if k is not None and k.get("ty") == "bool":
                    ok = k.get("int") == 0
                    what = "the constant %s" % k.get("s")
                else:
                    ok = o[0] == "param" or mir.origin_mentions(o, lambda z: z[0] == "field" and z[2] == "shared") or \
                        mir.origin_mentions(o, lambda z: z[0] == "call" and "variable_info" in z[1])
                    what = mir.short_origin(o)
                name = f.path.split("::")[-1]
                kk = sum(1 for x in ctx.obs if x.key.startswith("%s:%s" % (rule, name)))
                ctx.decide(ok, rule, "%s:%s%s" % (rule, name, "#%d" % kk if kk else ""), "%s:%s" % (f.file, st.get("ln")),
                           "shared = %s" % what,
                           "%s builds a variable path with shared = %s: the variable is filed with the module level, so the "
                           "activations of a recursive SUB / FUNCTION share it (the limit of a FOR that contains the recursive "
                           "call is overwritten by the callee's loop)" % (name, what))
    ctx.analysed_units(rule, root_paths=n)
    ctx.require(rule, 5)


def r13_static_dim_is_allocated_once(ctx, rule="C03.R13"):
    """`STATIC state persists between calls`: a DIM inside a STATIC procedure allocates its variable the first time
    only - the generator puts the allocation behind `IsVariableDefined .. jump over`.  Whether it does may depend on
    two things: is the procedure STATIC (the generator function that reads `is_static`), and what the caller says
    the statement is (DIM or REDIM - a constant argument at each call site).  The function that emits the guard is
    walked once per call site with that site's constants: where the guard can be reached at all, every path that
    reaches the allocation without it carries the answer `not STATIC` - no property of the declared variable
    (array bounds, type) takes a path around the guard."""
    prog = ctx.prog
    gens = emit.generator_fns(prog)
    owners = []
    for g in gens:
        evs = emit.events(prog, g)
        gb = [b for b, e in evs.items() if e.kind == "push" and e.instr == "IsVariableDefined"]
        if gb:
            owners.append((g, evs, gb))
    if len(owners) != 1:
        raise CheckError("%s: expected one emitter of IsVariableDefined, found %d" % (rule, len(owners)))
    g, evs, gb = owners[0]
    body = g.body
    pv = mir.Prov(body)
    static_fns = set()
    for h in prog.fns.values():
        if h.crate != "rusty_basic" or "::instruction_generator::" not in h.id or h.body is None:
            continue
        for blk in h.body.blocks:
            for st in blk["s"]:
                if st["k"] == "assign" and st["r"].get("k") in ("use", "ref", "copyderef"):
                    pl = mir.op_place(st["r"]["o"]) if "o" in st["r"] else st["r"].get("p")
                    if pl and any(isinstance(e, dict) and e.get("n") == "is_static" for e in pl[1]):
                        static_fns.add(h.id)
    if not static_fns:
        raise CheckError("%s: no generator function reads is_static" % rule)
    allocs = {b for b, e in evs.items() if e.kind == "gen"}
    if not allocs:
        raise CheckError("%s: %s emits no allocation" % (rule, g.name))
    callers = prog.callers()
    n = 0
    for cid in sorted(callers.get(g.id, ())):
        c = prog.fns.get(cid)
        if c is None or c.body is None:
            continue
        for cb, ct in c.body.calls():
            if mir.callee_of(ct) != g.id:
                continue
            consts = {}
            for i, a in enumerate(ct["args"]):
                k = a.get("k") if isinstance(a, dict) else None
                if isinstance(k, dict) and k.get("ty") == "bool" and "int" in k:
                    consts[i] = bool(k["int"])
            n += 1
            reach_guard = [False]
            bad = []

            def val_of(op, env):
                k = op.get("k") if isinstance(op, dict) else None
                if isinstance(k, dict) and k.get("ty") == "bool" and "int" in k:
                    return bool(k["int"])
                pl = mir.op_place(op)
                if pl is not None and not pl[1]:
                    if pl[0] in env:
                        return env[pl[0]]
                    if 1 <= pl[0] <= g.argc and (pl[0] - 1) in consts and len(body.defs().get(pl[0], [])) == 0:
                        return consts[pl[0] - 1]
                return None

            def walk(b, seen, static_no, trail, env=None):
                env = dict(env or {})
                if b in seen or body.is_cleanup(b):
                    return
                # values the path itself fixes (`let guarded = a && !b` leaves a constant in a local on each side)
                for st in body.blocks[b]["s"]:
                    if st["k"] != "assign" or st["p"][1]:
                        continue
                    r = st["r"]
                    v = None
                    if r.get("k") == "use":
                        v = val_of(r["o"], env)
                    elif r.get("k") == "un" and r.get("op") == "Not":
                        v = val_of(r["o"], env)
                        v = None if v is None else not v
                    if v is None:
                        env.pop(st["p"][0], None)
                    else:
                        env[st["p"][0]] = v
                if b in gb:
                    reach_guard[0] = True
                    return
                if b in allocs:
                    if not static_no:
                        bad.append(trail)
                    return
                seen = seen | {b}
                t = body.term(b)
                if t["k"] == "switch" and t.get("ty") == "bool":
                    o = mir.strip_all(pv.of_operand(t["o"]))
                    edges = [(False, t["ts"][0][1]), (True, t["else"])]
                    known = val_of(t["o"], env)
                    for val, tgt in edges:
                        if known is not None and known != val:
                            continue
                        if o[0] == "param" and o[1] in consts and consts[o[1]] != val:
                            continue
                        sn = static_no
                        tr = trail
                        if o[0] == "call":
                            hf = prog.fns.get(mir.callee_of(body.term(o[3]))) if len(o) > 3 and body.term(o[3])["k"] == "call" else None
                            if hf is not None and hf.id in static_fns:
                                sn = static_no or (val is False)
                            else:
                                tr = trail + ["%s is %s" % (o[1].split("::")[-1], val)]
                        elif o[0] != "param":
                            tr = trail + ["%s is %s" % (mir.short_origin(o)[:40], val)]
                        walk(tgt, seen, sn, tr, env)
                    return
                for x in body.succ(b):
                    walk(x, seen, static_no, trail, env)
            walk(0, frozenset(), False, [])
            key = "%s:%s->%s(%s)" % (rule, c.name, g.name, ",".join("%d=%s" % kv for kv in sorted(consts.items())))
            if not reach_guard[0]:
                ctx.ok(rule, key, c.loc, "the guard is not in play for this kind of statement")
                continue
            ctx.decide(not bad, rule, key, g.loc,
                       "every path to the allocation without the IsVariableDefined guard answers `not STATIC`",
                       "%s reaches the allocation of a DIM variable without the allocate-once guard although the procedure "
                       "may be STATIC (path: %s): that variable is allocated again - zeroed - on every call of a STATIC "
                       "SUB / FUNCTION" % (g.name, "; ".join(bad[0]) if bad and bad[0] else "no test of STATIC on it"))
    ctx.require(rule, 2)


def run(ctx):
    common.install(ctx)
    r1_index_stable(ctx)
    r2_by_ref_agreement(ctx)
    r3_fifo(ctx)
    r4_activation_pairing(ctx)
    r5_fresh_and_static(ctx)
    common.r_stack_discipline(ctx, "C03.R6")
    from . import c13
    c13.r2_shared_gate(ctx, "C03.R7")
    c13.r6_fallback_keyed_on_same_lookup(ctx, "C03.R8")
    r9_queue_not_reentered(ctx)
    r10_indexed_map_insert(ctx)
    # what a call in flight has parked survives a handled error in a nested call
    from . import c05
    c05.r6_error_unwinding(ctx, "C03.R11")
    r12_generator_made_variables_live_with_the_call(ctx)
    r13_static_dim_is_allocated_once(ctx)
