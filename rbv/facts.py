"""Fact extraction (runs the mirfacts driver over a cargo workspace) and loading.

The analysed program is whatever `cargo +nightly check --workspace` type-checks in the
repository's current working tree.  Facts are cached by content hash of the sources; the
cache is an optimisation only.
"""
import fcntl
import gzip
import hashlib
import json
import os
import shutil
import subprocess
import sys
import tempfile
import time

VERIF = os.path.dirname(os.path.dirname(os.path.abspath(__file__)))
REPO = os.environ.get("RBV_REPO", "/repo")
DRIVER_DIR = os.path.join(VERIF, "mirfacts")
DRIVER = os.path.join(DRIVER_DIR, "target", "release", "mirfacts")
CACHE = os.path.join(VERIF, ".cache")

WORKSPACE_CRATES = [
    "rusty_pc", "rusty_parser", "rusty_linter", "rusty_basic",
    "rusty_variant", "rusty_common", "rusty_bit_vec",
]
# function-count floors: 0.8 x the counts measured on the pinned tree
FLOORS = {"rusty_pc": 160, "rusty_parser": 720, "rusty_linter": 520, "rusty_basic": 440,
          "rusty_variant": 65, "rusty_common": 40, "rusty_bit_vec": 20}


class FactError(Exception):
    pass


def _offline_env():
    env = dict(os.environ)
    env["CARGO_NET_OFFLINE"] = "true"
    return env


def ensure_driver():
    src_m = 0
    for root, _d, files in os.walk(os.path.join(DRIVER_DIR, "src")):
        for f in files:
            src_m = max(src_m, os.path.getmtime(os.path.join(root, f)))
    if os.path.exists(DRIVER) and os.path.getmtime(DRIVER) >= src_m:
        return
    os.makedirs(CACHE, exist_ok=True)
    with open(os.path.join(CACHE, "driver.lock"), "w") as lk:
        fcntl.flock(lk, fcntl.LOCK_EX)
        if os.path.exists(DRIVER) and os.path.getmtime(DRIVER) >= src_m:
            return
        r = subprocess.run(["cargo", "+nightly", "build", "--release", "--offline"],
                           cwd=DRIVER_DIR, env=_offline_env(),
                           stdout=subprocess.PIPE, stderr=subprocess.STDOUT, text=True)
        if r.returncode != 0:
            raise FactError("driver build failed:\n" + r.stdout[-3000:])


def tree_key(root, extra=""):
    h = hashlib.sha256()
    h.update(extra.encode())
    paths = []
    for d, dirs, files in os.walk(root):
        dirs[:] = sorted(x for x in dirs if x not in ("target", ".git", "node_modules"))
        for f in sorted(files):
            if f.endswith(".rs") or f in ("Cargo.toml", "Cargo.lock", "rust-toolchain",
                                          "rust-toolchain.toml"):
                paths.append(os.path.join(d, f))
    for p in paths:
        h.update(os.path.relpath(p, root).encode())
        h.update(b"\0")
        with open(p, "rb") as fh:
            h.update(fh.read())
        h.update(b"\0")
    with open(DRIVER, "rb") as fh:
        h.update(hashlib.sha256(fh.read()).digest())
    return h.hexdigest()[:24]


def _sysroot():
    r = subprocess.run(["rustc", "+nightly", "--print", "sysroot"], stdout=subprocess.PIPE,
                       text=True, check=True)
    return r.stdout.strip()


def extract(root, out_dir, workspace=True):
    """Run the driver over the cargo project at `root`; facts land in out_dir."""
    td = tempfile.mkdtemp(prefix="rbv-target-")
    try:
        env = _offline_env()
        env["MIRFACTS_OUT"] = out_dir
        env["LD_LIBRARY_PATH"] = _sysroot() + "/lib" + (
            ":" + env["LD_LIBRARY_PATH"] if env.get("LD_LIBRARY_PATH") else "")
        env["RUSTFLAGS"] = "-Zmir-opt-level=0 -Awarnings"
        env["RUSTC_WORKSPACE_WRAPPER"] = DRIVER
        env["CARGO_TARGET_DIR"] = td
        env.pop("RUSTC_WRAPPER", None)
        cmd = ["cargo", "+nightly", "check", "--offline"]
        if workspace:
            cmd.append("--workspace")
        r = subprocess.run(cmd, cwd=root, env=env, stdout=subprocess.PIPE,
                           stderr=subprocess.STDOUT, text=True)
        if r.returncode != 0:
            raise FactError("cargo check under the driver failed (the tree does not build?):\n"
                            + r.stdout[-4000:])
    finally:
        shutil.rmtree(td, ignore_errors=True)


def _prune_cache(prefix, keep=3):
    try:
        ents = [os.path.join(CACHE, e) for e in os.listdir(CACHE) if e.startswith(prefix)]
    except FileNotFoundError:
        return
    ents.sort(key=lambda p: os.path.getmtime(p), reverse=True)
    for p in ents[keep:]:
        shutil.rmtree(p, ignore_errors=True)


def facts_dir(root=None, workspace=True, prefix=None):
    """Return a directory holding <crate>.json.gz for the tree at root (extracting if needed)."""
    root = root or REPO
    if prefix is None:
        prefix = "repo-" if os.path.realpath(root) == "/repo" else "scratch-"
    ensure_driver()
    key = tree_key(root)
    d = os.path.join(CACHE, prefix + key)
    done = os.path.join(d, "DONE")
    if os.path.exists(done):
        os.utime(d)
        return d
    os.makedirs(CACHE, exist_ok=True)
    with open(os.path.join(CACHE, prefix + "extract.lock"), "w") as lk:
        fcntl.flock(lk, fcntl.LOCK_EX)
        if os.path.exists(done):
            return d
        tmp = tempfile.mkdtemp(prefix="rbv-facts-")
        try:
            t0 = time.time()
            extract(root, tmp, workspace=workspace)
            os.makedirs(d, exist_ok=True)
            n = 0
            for f in os.listdir(tmp):
                if f.endswith(".json"):
                    with open(os.path.join(tmp, f), "rb") as src, \
                            gzip.open(os.path.join(d, f + ".gz"), "wb", compresslevel=3) as dst:
                        shutil.copyfileobj(src, dst)
                    n += 1
            if n == 0:
                raise FactError("driver produced no fact files")
            with open(done, "w") as fh:
                fh.write("%.1f\n" % (time.time() - t0))
        finally:
            shutil.rmtree(tmp, ignore_errors=True)
        _prune_cache(prefix, keep=3 if prefix == "repo-" else 10)
    return d


def load_crate(d, name):
    p = os.path.join(d, name + ".json.gz")
    if not os.path.exists(p):
        raise FactError("no fact file for crate %s" % name)
    with gzip.open(p, "rb") as fh:
        return json.loads(fh.read())


def fresh_facts_dir(root=None, workspace=True):
    """thorough tier: extract the facts again from the tree at root into a private directory,
    without consulting or updating the cache.  The caller removes the directory."""
    root = root or REPO
    ensure_driver()
    tmp = tempfile.mkdtemp(prefix="rbv-fresh-", dir=CACHE if os.path.isdir(CACHE) else None)
    extract(root, tmp, workspace=workspace)
    n = 0
    for f in os.listdir(tmp):
        if f.endswith(".json"):
            with open(os.path.join(tmp, f), "rb") as src, \
                    gzip.open(os.path.join(tmp, f + ".gz"), "wb", compresslevel=1) as dst:
                shutil.copyfileobj(src, dst)
            os.unlink(os.path.join(tmp, f))
            n += 1
    if n == 0:
        shutil.rmtree(tmp, ignore_errors=True)
        raise FactError("driver produced no fact files")
    return tmp


def load_workspace(root=None, fresh=False):
    if fresh:
        os.makedirs(CACHE, exist_ok=True)
        d = fresh_facts_dir(root)
        try:
            return _load_from(d)
        finally:
            shutil.rmtree(d, ignore_errors=True)
    return _load_from(facts_dir(root))


def _load_from(d):
    crates = {}
    for c in WORKSPACE_CRATES:
        crates[c] = load_crate(d, c)
        n = sum(1 for f in crates[c]["functions"] if f["kind"] != "const")
        if n < FLOORS[c]:
            raise FactError("crate %s: only %d function bodies (floor %d)" % (c, n, FLOORS[c]))
    try:
        crates["rusty_basic.bin"] = load_crate(d, "rusty_basic.bin")
    except FactError:
        pass
    return crates


if __name__ == "__main__":
    t0 = time.time()
    cs = load_workspace()
    for c, d in cs.items():
        print(c, len(d["functions"]), len(d["adts"]), len(d["impls"]))
    print("%.1fs" % (time.time() - t0))
