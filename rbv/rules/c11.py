"""C11 - every diagnostic names the right place (C11.R1-R6)."""
import re
import json
import os

from .. import emit, mir
from ..core import CheckError, VERIF
from . import common

LEVEL = "other"
EXPLANATION = (
    "Position *provenance* - a position is never invented or taken from the wrong node: (R1) "
    "with_pos snapshots the reader position before the child parser runs and attaches that "
    "snapshot; (R2) every invented position (Position::start/new, at_start, at_rc) in non-test code is "
    "enumerated and must be tabled as unable to reach a diagnostic; the Positioned conversions of the "
    "checker re-attach the position they destructured; (R3) every run-time error raised by an "
    "instruction carries the position of that same instruction (interpret passes instructions[i] and "
    "its pos for one and the same i); (R4) the stack trace grows at PushStack, shrinks at PopStack "
    "and is drained only on the path that ends the program; (R6) every instruction the generator "
    "emits carries a position that derives from the construct being lowered; (R7) argument errors of "
    "user SUB / FUNCTION calls are positioned at the call; (R8) the row table counts a CR LF as one line end "
    "wherever the LF exists (the guard of the look-ahead is not stronger than `in range`; shared with C09.R13); (R9) error_envelope only moves positions; (R10) the conversions of a file or string into the input view hand the text over verbatim - no line-splitting or trimming std call on the way, which would merge or drop line ends before rows are counted."
    " (R11) no and_then mapper that can make a ParserError of its own is applied to a seq3..seq6 parser: an error made up after a whole multi-part construct was consumed is reported behind it."
    " (R12 = C20.C with clause P) no parser puts the input position back and then returns an error that is not known to be soft: a fatal error is reported where it was found."
    " (R13 = C09.R21) the text of a string literal does not run over the end of its line: an unclosed literal is reported in the line that has it, not in a later, correct one."
    " (R14) the input module of the parser never asks the program text for its UTF-8 bytes: the row / column table has one entry per character, as the reader's index counts.")
NOT_DECIDED = ["that row/column numbers are correct for arbitrary layouts and line endings (value-level)"]


def r1_with_pos(ctx, rule="C11.R1"):
    prog = ctx.prog
    fs = [f for f in prog.fns.values() if f.name == "parse" and f.impl and f.impl["self_ty"].endswith("WithPosMapper<P>")]
    if len(fs) != 1:
        raise CheckError("anchor WithPosMapper::parse")
    f = fs[0]
    pos_bb = [b for b, t in f.body.calls() if (t.get("cpath") or "").endswith("HasPos::pos")]
    parse_bb = [b for b, t in f.body.calls() if (t.get("ctrait") or "").endswith("parser::Parser")
                and (t.get("cpath") or "").endswith("::parse")]
    ok = len(pos_bb) == 1 and len(parse_bb) == 1 and f.body.dominates(pos_bb[0], parse_bb[0])
    ctx.decide(ok, rule, rule + ":snapshot-before-child", f.loc, "pos() is read before the child parser runs",
               "with_pos reads the position after (or not dominating) the child parse: the node gets its END position")
    # the closure that attaches the position captures that snapshot
    pv = mir.Prov(f.body)
    captured = False
    for blk in f.body.blocks:
        for s in blk["s"]:
            if s["k"] == "assign" and s["r"]["k"] == "agg" and s["r"].get("a") == "closure":
                for o in s["r"]["ops"]:
                    org = mir.strip_all(pv.of_operand(o))
                    if org[0] == "call" and org[1].endswith("HasPos::pos"):
                        captured = True
    ctx.decide(captured, rule, rule + ":snapshot-is-attached", f.loc, "the attached position is the snapshot",
               "with_pos attaches a position other than the snapshot taken before parsing")
    ctx.require(rule, 2)


INVENT = ("Position::start", "Position::new", "::at_start", "::at_rc")


def r2_no_invented_positions(ctx, rule="C11.R2"):
    prog = ctx.prog
    allowed = dict(json.load(open(os.path.join(VERIF, "tables", "invented_positions.json")))["allowed"])
    # a tabled function that was renamed: an untabled function of the same type / module takes over the
    # entry of a tabled one that no longer exists (one for one)
    present = {(prog.enclosing_fn(f) or f).path.split("::", 1)[1] for f in prog.fns.values()}
    gone = {}
    for k in sorted(allowed):
        if k not in present:
            gone.setdefault(k.rsplit("::", 1)[0], []).append(k)
    n = 0
    for fn in sorted(prog.fns.values(), key=lambda f: f.id):
        if fn.crate not in ("rusty_parser", "rusty_linter", "rusty_basic", "rusty_basic.bin") or fn.kind == "const":
            continue
        for b, t in fn.body.calls():
            cp = mir.callee_path(t)
            if not cp.endswith(INVENT):
                continue
            n += 1
            owner = prog.enclosing_fn(fn) or fn
            name = owner.path.split("::", 1)[1]
            if name not in allowed:
                # moved to another module under its own name
                moved = [k for ks in gone.values() for k in ks if k.rsplit("::", 1)[1] == name.rsplit("::", 1)[1]]
                if moved:
                    old_name = moved[0]
                    gone[old_name.rsplit("::", 1)[0]].remove(old_name)
                    allowed[name] = allowed[old_name] + " (tabled as %s)" % old_name
            if name not in allowed and gone.get(name.rsplit("::", 1)[0]):
                old_name = gone[name.rsplit("::", 1)[0]].pop(0)
                allowed[name] = allowed[old_name] + " (tabled as %s)" % old_name.rsplit("::", 1)[1]
            key = "%s:%s:%s" % (rule, name, cp.split("::")[-1])
            if name in allowed:
                ctx.ok(rule, key, "%s:%s" % (fn.file, t.get("ln")), "tabled: " + allowed[name])
            else:
                ctx.violation(rule, key, "%s:%s" % (fn.file, t.get("ln")),
                              "%s invents a position with %s: a diagnostic raised on the value built here "
                              "names a place that is not in the source" % (name, cp.split("::")[-1]))
    # checker's Positioned conversion re-attaches the destructured position
    conv = [f for f in prog.fns.values() if f.name == "convert" and f.impl and "convertible" in f.id
            and f.impl["self_ty"].startswith("rusty_common::Positioned")]
    if len(conv) != 1:
        raise CheckError("anchor Convertible for Positioned<T>")
    f = conv[0]
    pv = mir.Prov(f.body)
    ok_in = ok_out = False
    for g in [f] + prog.closures_of(f):
        pvg = mir.Prov(g.body)
        for b, t in g.body.calls():
            nm = (t.get("cpath") or "").split("::")[-1]
            if nm == "convert_in" and len(t["args"]) >= 3:
                o = mir.strip_all(pvg.of_operand(t["args"][2]))
                ok_in = ok_in or (o[0] == "field" and o[2] == "pos")
            if nm == "at_pos" and len(t["args"]) >= 2:
                o = mir.strip_all(pvg.of_operand(t["args"][1]))
                ok_out = ok_out or (o[0] == "field" and o[2] == "pos") or (g.kind == "closure" and o[0] == "field")
    ctx.decide(ok_in and ok_out, rule, rule + ":converter-reattaches-pos", f.loc,
               "convert_in receives, and the result is re-attached at, the node's own pos",
               "the checker's Positioned conversion no longer threads the node's own position")
    ctx.analysed_units(rule, invented_position_sites=n)
    ctx.require(rule, 8)


def r3_runtime_error_positions(ctx, rule="C11.R3"):
    prog = ctx.prog
    one = ctx.anchor_method("Interpreter", "interpret_one")
    pv = mir.Prov(one.body)
    n = 0
    bad = []
    for b, t in one.body.calls():
        if (t.get("cpath") or "").endswith("WithErrAt::with_err_at"):
            n += 1
            o = mir.strip_all(pv.of_operand(t["args"][1]))
            if o != ("param", 3):
                bad.append(t.get("ln"))
    ctx.decide(n >= 20 and not bad, rule, rule + ":with_err_at-uses-pos-parameter", one.loc,
               "%d with_err_at sites all attach the instruction's pos" % n,
               "with_err_at at lines %s attaches something other than the instruction's position" % bad)
    interp = ctx.anchor_method("Interpreter", "interpret")
    pvi = mir.Prov(interp.body)
    ok = False
    for b, t in interp.body.calls():
        if mir.callee_of(t) == one.id:
            a_i = mir.short_origin(pvi.of_operand(t["args"][1]))
            a_ins = mir.short_origin(pvi.of_operand(t["args"][2]))
            a_pos = mir.short_origin(pvi.of_operand(t["args"][3]))
            idx_ins = pvi.of_operand(t["args"][2])
            idx_pos = pvi.of_operand(t["args"][3])
            # both derive from index(instructions, <same local>)
            def index_arg(o):
                found = []
                def walk(x):
                    if isinstance(x, mir.Origin):
                        if x[0] == "call" and x[1].split("::")[-1] == "index" and len(x[2]) > 1:
                            found.append(str(mir.strip_all(x[2][1])))
                        for y in x[1:]:
                            walk(y)
                    elif isinstance(x, tuple):
                        for y in x:
                            walk(y)
                walk(o)
                return found
            ii, ip = index_arg(idx_ins), index_arg(idx_pos)
            ok = bool(ii) and ii == ip and str(mir.strip_all(pvi.of_operand(t["args"][1]))) == ii[0]
    ctx.decide(ok, rule, rule + ":instruction-and-pos-share-index", interp.loc,
               "interpret_one(i, &instructions[i].element, instructions[i].pos())",
               "interpret passes an instruction and a position that are not taken from the same index i")
    ctx.require(rule, 2)


def r4_stack_trace(ctx, rule="C11.R4"):
    prog = ctx.prog
    one = ctx.anchor_method("Interpreter", "interpret_one")
    interp = ctx.anchor_method("Interpreter", "interpret")
    from .c05 import _arm_regions
    sw, regions = _arm_regions(prog, one, "::Instruction")
    pv = mir.Prov(one.body)
    per_arm = {}
    drains = {}
    for v, region in regions.items():
        for b, t in mir.region_calls(one.body, region):
            for i, a in enumerate(t["args"]):
                o = mir.strip_refs(pv.of_operand(a))
                if o[0] == "field" and o[2] == "stacktrace":
                    name = mir.callee_path(t).split("::")[-1]
                    if t.get("mx") and any("debug_assert" in m for m in t["mx"]):
                        continue
                    if i == 0 and "Vec" in mir.callee_path(t):
                        per_arm.setdefault(v, []).append(name)
                    elif name in ("with_stacktrace", "new_draining_stacktrace", "appen_draining_stacktrace"):
                        drains.setdefault(v, []).append(name)
    for v, want in (("PushStack", ["insert"]), ("PushStaticStack", ["insert"]), ("PopStack", ["remove"])):
        got = [m for m in per_arm.get(v, []) if m not in ("is_empty", "len")]
        ctx.decide(got == want, rule, "%s:%s:%s" % (rule, v, want[0]), one.loc, "stacktrace.%s" % want[0],
                   "the %s arm does %s on the stack trace" % (v, got))
    # insert / remove at index 0 (innermost first)
    for b, t in one.body.calls():
        nm = mir.callee_path(t).split("::")[-1]
        if nm in ("insert", "remove") and t["args"]:
            o = mir.strip_refs(pv.of_operand(t["args"][0]))
            if o[0] == "field" and o[2] == "stacktrace":
                k = t["args"][1].get("k") or {}
                ctx.decide(k.get("int") == 0, rule, "%s:%s-at-front" % (rule, nm), "%s:%s" % (one.file, t.get("ln")),
                           "index 0: innermost call site first", "stacktrace.%s at index %s" % (nm, k.get("s")))
    for v, ds in sorted(drains.items()):
        ctx.violation(rule, "%s:%s:drains-trace-before-dispatch" % (rule, v), one.loc,
                      "the %s arm drains the stack trace into the error (%s) before it is known whether a "
                      "handler is active: after a handled failure inside a SUB the trace is empty and the "
                      "caller's PopStack removes from an empty vector" % (v, ds[0]))
    # the None edge of interpret is the only place allowed to drain
    interp, sw2 = common.error_dispatch(prog)
    pvi = mir.Prov(interp.body)
    ok = True
    n = 0
    for b, t in interp.body.calls():
        nm = mir.callee_path(t).split("::")[-1]
        if nm in ("with_stacktrace", "new_draining_stacktrace", "appen_draining_stacktrace"):
            n += 1
            region = mir.arm_region(interp.body, sw2.bb, sw2.arms.get("None", sw2.otherwise))
            if b not in region:
                ok = False
    # everywhere else in the VM: the list of active call sites changes only by insert / remove at the front
    # (and is moved out where the error ends the program); truncating, clearing, appending at the far
    # end, sorting ... makes the reported list differ from the calls that are active
    n_other = 0
    for f in sorted(prog.fns.values(), key=lambda x: x.id):
        if f.crate != "rusty_basic" or f.body is None or "/interpreter/" not in (f.file or ""):
            continue
        fpv = mir.Prov(f.body)
        for b, t in f.body.calls():
            if not t["args"] or f.body.is_cleanup(b):
                continue
            o = mir.strip_refs(fpv.of_operand(t["args"][0]))
            if not (o[0] == "field" and o[2] == "stacktrace"):
                continue
            nm = mir.callee_path(t).split("::")[-1]
            if nm in ("len", "is_empty", "iter", "first", "last", "get", "clone", "as_slice", "deref",
                      "with_stacktrace", "new_draining_stacktrace", "appen_draining_stacktrace"):
                continue
            n_other += 1
            at_front = nm in ("insert", "remove") and len(t["args"]) > 1 and (t["args"][1].get("k") or {}).get("int") == 0
            if nm == "clear":
                # no call site is listed exactly when no call is active: the list is emptied together
                # with the return addresses (RESUME label leaves every active call)
                for b2, t2 in f.body.calls():
                    if t2["args"] and mir.callee_path(t2).split("::")[-1] == "clear":
                        o2 = mir.strip_refs(fpv.of_operand(t2["args"][0]))
                        if o2[0] == "field" and o2[2] == "return_address_stack" and \
                                (f.body.dominates(b2, b) or f.body.dominates(b, b2)):
                            at_front = True
            ctx.decide(at_front, rule, "%s:only-front-operations:%s:%s" % (rule, f.name, nm), "%s:%s" % (f.file, t.get("ln")),
                       "%s at index 0" % nm if nm != "clear" else "emptied together with the return addresses",
                       "%s applies `%s` to the list of active call sites: the list reported with an error no longer "
                       "consists of exactly the calls that are active, innermost first, ending in the main module"
                       % (f.name, nm))
    if n_other < 3:
        raise CheckError("%s: only %d operations on the stack trace found" % (rule, n_other))
    ctx.decide(ok and n == 1, rule, rule + ":drained-on-the-terminating-edge", interp.loc,
               "the trace is attached (and drained) only where the error ends the program",
               "interpret drains the stack trace outside the ErrorHandler::None edge")
    ctx.require(rule, 6)


def _roots(o, out):
    k = o[0]
    if k in ("param", "const", "local", "fn", "promoted", "unknown"):
        out.append(o)
        return
    if k == "call":
        if not o[2]:
            out.append(o)
        for a in o[2]:
            _roots(a, out)
        return
    for x in o[1:]:
        if isinstance(x, mir.Origin):
            _roots(x, out)
        elif isinstance(x, tuple):
            for y in x:
                if isinstance(y, mir.Origin):
                    _roots(y, out)


def r6_emitted_positions(ctx, rule="C11.R6"):
    prog = ctx.prog
    allowed = json.load(open(os.path.join(VERIF, "tables", "invented_positions.json")))["allowed"]
    n = 0
    bad = []
    for g in sorted(emit.generator_fns(prog), key=lambda f: f.id):
        evs = emit.events(prog, g)
        for e in evs.values():
            if e.kind not in ("push", "label", "jump", "jump_if_false") or len(e.args) < 3:
                continue
            n += 1
            roots = []
            _roots(e.args[2], roots)
            derived = bool(roots) and all(r[0] in ("param", "local") for r in roots)
            if not derived:
                name = g.path.split("::", 1)[1]
                short = "instruction_generator::main::InstructionGenerator::" + g.name
                if short in allowed and e.kind == "push" and e.instr == "Halt":
                    continue
                bad.append("%s:%s %s" % (g.name, e.line, e.show()))
    ctx.decide(not bad, rule, rule + ":positions-derive-from-the-construct", "instruction_generator",
               "%d emission sites carry a position taken from the construct being lowered" % n,
               "emission sites with a position not derived from the construct: %s" % bad[:6])
    ctx.analysed_units(rule, emission_sites=n)
    if n < 150:
        raise CheckError("only %d emission sites found" % n)
    ctx.require(rule, 1)


def r7_argument_errors_at_the_call(ctx, rule="C11.R7"):
    """Argument-count / argument-type diagnostics of user-defined SUB and FUNCTION calls are
    positioned by the `pos` handed to lint_call_args: at every call site that position must be the
    visitor's own position parameter (the call being checked), not a position read out of the
    declaration tables (functions / subs), which would name the FUNCTION header instead."""
    prog = ctx.prog
    fs = [f for f in prog.fns.values() if f.name == "lint_call_args" and "user_defined_function_linter" in f.id]
    if len(fs) != 1:
        raise CheckError("anchor lint_call_args")
    target = fs[0]
    pos_index = [i for i in range(1, target.argc + 1) if target.body.locals[i]["ty"].endswith("Position")]
    if len(pos_index) != 1:
        raise CheckError("lint_call_args: position parameter not found")
    pi = pos_index[0] - 1
    n = 0
    for g in sorted(prog.fns.values(), key=lambda f: f.id):
        if g.body is None or g.crate != "rusty_linter":
            continue
        pv = None
        for b, t in g.body.calls():
            if mir.callee_of(t) != target.id:
                continue
            pv = pv or mir.Prov(g.body)
            o = pv.of_operand(t["args"][pi])
            txt = mir.short_origin(o)
            from_table = mir.origin_mentions(o, lambda x: x[0] == "field" and x[2] in ("functions", "subs", "linter_context"))
            is_param = mir.strip_all(o)[0] == "param" or re.match(r"^arg\d+(\.\w+)*$", txt) is not None
            n += 1
            owner = g.path.split("::", 1)[1].split("::")[-1]
            ctx.decide(is_param and not from_table, rule, "%s:%s:call-position" % (rule, owner),
                       "%s:%s" % (g.file, t.get("ln")), "position = %s" % txt,
                       "%s reports argument errors at %s, which is not the position of the call being checked%s"
                       % (owner, txt, ": it comes from the declaration table, so a wrong argument count is blamed on "
                          "the SUB/FUNCTION header" if from_table else ""))
    ctx.analysed_units(rule, call_sites=n)
    ctx.require(rule, 2)


TRACE_MOVES = ("append", "push", "pop", "new", "with_capacity", "len", "is_empty", "extend", "extend_from_slice",
               "clone", "iter", "as_slice", "deref", "into_iter", "from_iter", "collect")


def r9_trace_is_moved_unchanged(ctx, rule="C11.R9"):
    """`lists the rows of the active call sites, innermost first`: when an error ends the program the
    VM's call-site list is moved into the error value.  The module that does this (error_envelope)
    may only move and count positions: any operation that drops, merges or reorders entries of a
    Vec<Position> there (dedup, sort, retain, remove, truncate, reverse, drain ...) changes the list
    the user sees - recursion legitimately lists the same call site several times."""
    prog = ctx.prog
    n = 0
    fns = [f for f in prog.fns.values() if f.crate == "rusty_basic" and f.file.endswith("error_envelope.rs")]
    if not fns:
        raise CheckError("%s: no function of error_envelope.rs found" % rule)
    for f in sorted(fns, key=lambda f: f.id):
        for b, t in f.body.calls():
            cp = t.get("cpath") or ""
            st = t.get("self_ty") or ""
            if not (cp.startswith("std::vec::Vec") or "slice::<impl [T]>" in cp):
                continue
            if "Position" not in st and "Position" not in json.dumps((t["f"].get("k") or {}).get("gargs") or []):
                continue
            n += 1
            nm = cp.split("::")[-1]
            name = (prog.enclosing_fn(f) or f).path.split("::", 1)[1]
            k = sum(1 for x in ctx.obs if x.key.startswith("%s:%s:%s" % (rule, name, nm)))
            ctx.decide(nm in TRACE_MOVES, rule, "%s:%s:%s%s" % (rule, name, nm, "#%d" % k if k else ""),
                       "%s:%s" % (f.file, t.get("ln")), "%s moves / counts positions" % nm,
                       "%s applies Vec::%s to the list of call sites: entries are dropped, merged or reordered before "
                       "the error is reported (a directly recursive SUB loses all but one of its call sites)" % (name, nm))
    ctx.require(rule, 3)


LINE_EDITING_STD = ("lines", "split", "split_terminator", "split_inclusive", "rsplit", "splitn", "split_whitespace",
                    "trim", "trim_end", "trim_start", "trim_end_matches", "trim_matches", "strip_suffix", "replace",
                    "replacen", "retain", "dedup", "filter", "skip_while", "take_while")


def r10_program_text_is_read_verbatim(ctx, rule="C11.R10"):
    """`rows counted from 1 in the file as the user sees it under any line-ending convention`: rows
    are counted by the row/column view from the characters it is given; CR, LF and CR LF are told
    apart there (C09.R5, C11.R8).  Whatever turns a file or a string into that view must hand the
    text over unchanged: a line-splitting or trimming API on the way (`BufRead::lines` strips `\n`
    and `\r\n` but not a lone `\r`, so CR followed by CR LF collapses into one line end) shifts every
    row after it.  In the conversions into the input view (From / TryFrom impls of the view type) and
    what they call in the crate: no such std call."""
    prog = ctx.prog
    view = [f for f in prog.fns.values() if f.crate == "rusty_parser" and f.name == "create_row_col_view"]
    if len(view) != 1:
        raise CheckError("anchor create_row_col_view")
    # the view type: what the From impl that calls create_row_col_view builds
    builders = [f for f in prog.fns.values() if f.crate == "rusty_parser" and f.impl and f.kind != "closure"
                and any(mir.callee_of(t) == view[0].id for _b, t in f.body.calls())]
    if not builders:
        raise CheckError("%s: nothing calls create_row_col_view" % rule)
    view_ty = builders[0].impl["self_ty"]
    roots = [f for f in prog.fns.values() if f.crate == "rusty_parser" and f.impl and f.kind != "closure"
             and re.search(r"(^|::)(Try)?From<", (f.impl.get("trait_ref") or "").split(" as ")[-1])
             and f.impl["self_ty"] == view_ty]
    if len(roots) < 2:
        raise CheckError("%s: conversions into the input view not found (%d)" % (rule, len(roots)))
    seen = {}
    todo = list(roots)
    while todo:
        f = todo.pop()
        if f.id in seen or f.id == view[0].id:
            continue
        seen[f.id] = f
        for c in prog.call_edges(f):
            g = prog.fns.get(c)
            if g is not None and g.crate == "rusty_parser":
                todo.append(g)
    n = 0
    for f in sorted(seen.values(), key=lambda f: f.id):
        bad = [t for _b, t in f.body.calls()
               if (t.get("cpath") or "").startswith(("std::", "core::", "alloc::"))
               and (t.get("cpath") or "").split("::")[-1] in LINE_EDITING_STD]
        n += 1
        name = f.path.split("::", 1)[1]
        ctx.decide(not bad, rule, "%s:%s" % (rule, name), f.loc,
                   "hands the text over without splitting or trimming it",
                   "%s passes the program text through %s (line %s) before rows are counted: line ends that this call "
                   "strips or merges (a CR directly followed by CR LF) disappear, and every error after that spot is "
                   "reported one row too early" % (name, (bad[0].get("cpath") if bad else ""), bad[0].get("ln") if bad else ""))
    ctx.analysed_units(rule, conversions=[f.path.split("::", 1)[1] for f in roots], functions=n)
    ctx.require(rule, 2)


def _makes_parser_error(prog, f, depth=1):
    for blk in f.body.blocks:
        if blk.get("c"):
            continue
        for st in blk["s"]:
            r = st.get("r", {})
            if st["k"] == "assign" and r.get("k") == "agg" and r.get("a") == "adt" and r["adt"].endswith("ParserError"):
                return True
    for _b, t in f.body.calls():
        cp = mir.callee_path(t)
        if "ParserError" in cp and cp.split("::")[-1] in ("syntax_error", "expected"):
            return True
        g = prog.fns.get(t.get("res") or mir.callee_of(t))
        if depth and g is not None and g.crate == "rusty_parser" and g.body is not None and g.kind != "closure" \
                and _makes_parser_error(prog, g, depth - 1):
            return True
    return False


def r11_errors_of_a_mapper_are_raised_where_the_text_is(ctx, rule="C11.R11"):
    """A syntax error is reported at the position the reader has when the error is raised.  A mapper given to
    `and_then` runs after its parser has consumed all of its input, so an error the mapper makes up is reported
    behind that input.  That is the right place for a token or a short run of tokens on one line (a literal out
    of range, an identifier with a dot) and the wrong place for a whole multi-part construct: the library's
    `seqN` combinators (N >= 3 parts) are what the grammar builds statements and blocks from, and a mapper on one
    of them that rejects the construct reports `END SELECT` for a misplaced `CASE ELSE` five lines above.  No
    and_then whose mapper can make a ParserError of its own is applied to a seq3 .. seq6 parser."""
    prog = ctx.prog
    n = n_err = 0
    for f in sorted(prog.fns.values(), key=lambda f: f.id):
        if f.crate != "rusty_parser" or f.body is None:
            continue
        pv = None
        for _b, t in f.body.calls():
            cp = mir.callee_path(t)
            if cp.split("::")[-1] != "and_then" or "Parser" not in cp or len(t["args"]) < 2:
                continue
            n += 1
            pv = pv or mir.Prov(f.body)
            so = mir.strip_all(pv.of_operand(t["args"][1]))
            cid = so[2] if so[0] == "agg" and so[1] == "closure" else (so[1] if so[0] == "fn" else None)
            g = prog.fns.get(cid) if cid else None
            if g is None or not _makes_parser_error(prog, g):
                continue
            n_err += 1
            pl = mir.op_place(t["args"][0])
            ty = f.body.locals[pl[0]]["ty"] if pl is not None else ""
            head = ty.split("<")[0]
            m = re.match(r"^rusty_pc::seq::Seq([3-9])$", head)
            name = f.path.split("::", 1)[1]
            k = sum(1 for x in ctx.obs if x.key.startswith("%s:%s" % (rule, name)))
            ctx.decide(m is None, rule, "%s:%s%s" % (rule, name, "#%d" % k if k else ""), "%s:%s" % (f.file, t.get("ln")),
                       "the mapper that can reject runs on %s" % head.split("::")[-1],
                       "%s rejects a whole %s-part construct from an and_then mapper: the error is raised after the last part "
                       "was consumed and is reported there (at END SELECT for a CASE ELSE that is not the last block), not at "
                       "the offending text" % (name, m.group(1) if m else "?"))
    ctx.analysed_units(rule, and_then_sites=n, with_a_rejecting_mapper=n_err)
    if n_err < 5:
        raise CheckError("%s: only %d and_then mappers that make an error were found (the detector is blind)" % (rule, n_err))
    ctx.require(rule, 5)


def r14_positions_are_counted_in_characters(ctx, rule="C11.R14"):
    """A reported position is (row, column) of a *character* of the program text.  The reader indexes the text by
    characters, so the table that turns an index into a row and a column has one entry per character: no function of the
    parser's input module asks the text for its UTF-8 bytes (`as_bytes`, `bytes`, `into_bytes` ...).  A table built from
    the bytes is longer than the text wherever a character above 127 occurs (an accented comment), and every position
    behind it lags."""
    prog = ctx.prog
    from .c18 import _UTF8_BYTES
    fns = [f for f in prog.fns.values() if f.crate == "rusty_parser" and f.kind != "const" and f.file
           and "/src/input/" in f.file]
    if len(fns) < 5:
        raise CheckError("%s: the input module of the parser was not found (%d functions)" % (rule, len(fns)))
    bad = {}
    for f in fns:
        owner = prog.enclosing_fn(f) or f
        for _b, t in f.body.calls():
            cp = t.get("cpath") or ""
            if cp.split("::")[-1] in _UTF8_BYTES and ("str" in cp or "String" in cp or "string" in cp):
                bad.setdefault(owner.id, []).append("%s (line %s)" % (cp.split("::")[-1], t.get("ln")))
    for oid, why in sorted(bad.items()):
        o = prog.fns[oid]
        short = o.path.split("::", 1)[1]
        ctx.violation(rule, "%s:%s" % (rule, short), o.loc,
                      "%s reads the program text through its UTF-8 bytes - %s: the reader counts characters, so behind a character "
                      "above 127 every reported row and column lags" % (short, "; ".join(sorted(set(why))[:3])))
    ctx.ok(rule, rule + ":input-module-scanned", "-", "%d functions of the input module, none reads the text by bytes" % len(fns)
           if not bad else "%d functions scanned" % len(fns))
    ctx.analysed_units(rule, functions=len(fns))
    ctx.require(rule, 1)


def run(ctx):
    common.install(ctx)
    r1_with_pos(ctx)
    r2_no_invented_positions(ctx)
    r3_runtime_error_positions(ctx)
    r4_stack_trace(ctx)
    r6_emitted_positions(ctx)
    r7_argument_errors_at_the_call(ctx)
    from . import c09
    c09.r13_lookahead_guard_is_tight(ctx, "C11.R8")
    r9_trace_is_moved_unchanged(ctx)
    r10_program_text_is_read_verbatim(ctx)
    r11_errors_of_a_mapper_are_raised_where_the_text_is(ctx)
    # a syntax error is reported at the reader's position when the fatal error reaches the top: no parser
    # (the combinators, and the parser's own Parser impls) puts the input back and then returns an error that
    # is not known to be soft (clause P of the combinator contract, with the rest of it)
    from . import c20
    c20.r_contract(ctx, c20.r_error_laws(ctx, "C11.R12e"), "C11.R12")
    # an unclosed string literal is reported in the line that has it: the literal's text does not run over the line end
    c09.r21_string_literal_ends_on_its_line(ctx, "C11.R13")
    r14_positions_are_counted_in_characters(ctx)
