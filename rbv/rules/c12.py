"""C12 - the checker is sound for types (C12.R1-R5)."""
from .. import mir, optables as ot, tagflow as tf
from ..core import CheckError
from . import common, labels

LEVEL = "other"
EXPLANATION = (
    "(R1) operator soundness, exhaustive: for every operator and every pair of the five built-in "
    "types, if the checker assigns a result type (cast_binary_op_q = Some) then the abstract outcome "
    "of the VM's handler for operands of those tags contains no TypeMismatch; same for the two unary "
    "operators against is_applicable_to_expr_type.  (R2, R3) the post-conversion checkers reach "
    "every expression position and the built-in argument contract (rules shared with C08).  (R4) "
    "by-reference arguments are matched by type equality, by-value ones by castability.  (R5) every "
    "conditional construct reaches the condition-type check, which accepts exactly numeric types.  (R10) no function reads the element-type field of an ArrayElement node without its index list (a whole array `A()` is not one of its elements); (R11) the by-value argument check accepts an array only for an array parameter of the very same element type, for all 30 pairs (there is no conversion for arrays); (R12) the number of arguments and the number of parameters of a user-defined subprogram are compared for equality, not order."
    " (R16) every match of the VM on the variant of a value treats the four numeric variants alike with respect to raising Type mismatch; (R17) the FOR checker applies the cast-compatibility predicate to the lower bound, the upper bound and the step."
    " (R18 = C09.R18) no set or map keyed by raw text."
    " (R19 = C13.R13) every pass of the checker starts from the default DEFtype letter table: a DEFtype statement further down does not retype the parameters of a procedure above it in one pass and not in the other.")
NOT_DECIDED = [
    "stability of the verdict under renaming of identifiers",
    "that one local ill-forming edit is rejected *in the edited statement* (position clause)",
]

ALLQ = ["BangSingle", "HashDouble", "DollarString", "PercentInteger", "AmpersandLong"]
ET = "rusty_parser::core::expression_type::ExpressionType"


def r1_operator_soundness(ctx, T, rule="C12.R1"):
    prog = ctx.prog
    q2t = T.qualifier_tags()
    one, htab = T.handler_table()
    converse = []
    for op in prog.variants(ot.OP):
        hs = htab.get(op, [])
        if len(hs) != 1:
            raise CheckError("no unique handler for Instruction::%s" % op)
        for lq in ALLQ:
            for rq in ALLQ:
                sfn, st = T.static_type(op, lq, rq)
                tags, errs = T.vm(hs[0], q2t[lq], q2t[rq])
                key = "%s:%s(%s,%s)" % (rule, op, lq, rq)
                if "?" in st:
                    ctx.unknown(rule, key, sfn.loc, "static %s" % st)
                    continue
                if st == {None}:
                    if tags and "TypeMismatch" not in errs:
                        converse.append("%s(%s,%s)" % (op, lq, rq))
                    ctx.ok(rule, key, sfn.loc, "rejected by the checker")
                    continue
                ctx.decide("TypeMismatch" not in errs and "?" not in errs, rule, key, sfn.loc,
                           "VM outcomes: tags %s errors %s" % (tags, errs),
                           "the checker accepts `%s %s %s` but the VM's handler `%s` can raise %s for "
                           "operands of those types (Type mismatch in an accepted program)"
                           % (lq, op, rq, hs[0].name, errs), {"handler": hs[0].path})
    # unary operators
    fs = [f for f in prog.fns.values() if f.name == "is_applicable_to_expr_type" and f.crate == "rusty_linter"]
    app = fs[0] if len(fs) == 1 else None
    accepted_inline = None
    if app is None:
        # the predicate was inlined into the converter of unary expressions: the accepted qualifiers are read
        # from its `matches!` (the arms of the switch over TypeQualifier on whose other side Type mismatch is built)
        cands = [f for f in prog.fns.values() if f.crate == "rusty_linter" and "expr_rules::unary" in f.id and f.body is not None
                 and any(s2.adt.endswith("::TypeQualifier") for s2 in mir.enum_switches(prog, f.body))]
        if len(cands) != 1:
            raise CheckError("anchor is_applicable_to_expr_type (and no inlined form in the unary converter)")
        app = cands[0]
        sw2 = [s2 for s2 in mir.enum_switches(prog, app.body) if s2.adt.endswith("::TypeQualifier")][0]
        tm = {b for b, blk in enumerate(app.body.blocks) if not blk.get("c") for st in blk["s"]
              if st["k"] == "assign" and st["r"].get("k") == "agg" and st["r"].get("a") == "adt" and st["r"].get("variant") == "TypeMismatch"}
        arm_t = set(sw2.arms.values())
        body2 = app.body

        def flag_of(b):
            """(local, value) of the bool constant the block stores (`matches!` lowers to a flag)"""
            for st in body2.blocks[b]["s"]:
                k = (st["r"].get("o") or {}).get("k") if st["k"] == "assign" and st["r"].get("k") == "use" else None
                if k and k.get("ty") == "bool" and not st["p"][1]:
                    return st["p"][0], k.get("int")
            return None
        fa = [flag_of(x) for x in arm_t]
        fo = flag_of(sw2.otherwise) if sw2.otherwise is not None else None
        if fo is not None and fa and all(x is not None and x[0] == fo[0] and x[1] != fo[1] for x in fa):
            # the switch on the flag: the side of the `otherwise` value builds Type mismatch, the other side does not
            for b in range(body2.nblocks):
                t = body2.term(b)
                pl = mir.op_place(t["o"]) if t["k"] == "switch" else None
                if pl is None or pl[1] or pl[0] != fo[0]:
                    continue
                hit = [tg for v, tg in t["ts"] if v == fo[1]]
                other_side = hit[0] if hit else t["else"]
                arm_side = [tg for v, tg in t["ts"] if v != fo[1]][:1] or [t["else"]]
                if other_side != arm_side[0] and any(x in body2.reachable(other_side, avoid={arm_side[0]}) for x in tm) and \
                        not any(x in body2.reachable(arm_side[0], avoid={other_side}) for x in tm):
                    accepted_inline = set(sw2.arms)
        if accepted_inline is None:
            raise CheckError("the inlined unary applicability test is not recognised")
    for q in ALLQ:
        et = T.eng.make(ET, "BuiltIn", {0: tf.Tag(ot.TQ, q)})
        if accepted_inline is not None:
            rs = {"1"} if q in accepted_inline else {"0"}
        else:
            rs = {tf.shape(x) for x in T.eng.summary(app, (tf.Ref(et),))}
        for u, ins in (("Minus", "NegateA"), ("Not", "NotA")):
            h = htab[ins][0]
            tags, errs = T.vm(h, q2t[q], None)
            key = "%s:%s(%s)" % (rule, u, q)
            if rs == {"0"}:
                ctx.ok(rule, key, app.loc, "rejected by the checker")
            elif rs == {"1"}:
                ctx.decide("TypeMismatch" not in errs, rule, key, app.loc, "VM errors %s" % errs,
                           "the checker accepts unary %s on %s but the VM can raise %s" % (u, q, errs))
            else:
                ctx.unknown(rule, key, app.loc, "predicate result %s" % rs)
    ctx.notes.append("converse (checker rejects, VM would accept): %s" % converse[:20])
    ctx.require(rule, 13 * 25 + 10)


def routed_variants(fn, sw, target_fn):
    """Variants of the match `sw` in fn whose every path to a return calls target_fn, and those
    for which only some paths do (match guards)."""
    body = fn.body
    call_blocks = {b for b, t in body.calls() if mir.callee_of(t) == target_fn.id}
    exits = set(body.exits())
    always, sometimes = set(), set()
    for v, tgt in sw.arms.items():
        reach = body.reachable(tgt)
        if not (reach & call_blocks):
            continue
        if body.every_path_passes(tgt, exits, call_blocks):
            always.add(v)
        else:
            sometimes.add(v)
    return always, sometimes


def r4_by_ref_exact(ctx, T, rule="C12.R4"):
    prog = ctx.prog

    def one(name):
        fs = [f for f in prog.fns.values() if f.name == name and "user_defined_function_linter" in f.id]
        if len(fs) != 1:
            raise CheckError("anchor %s" % name)
        return fs[0]
    # the equality predicate is one part of the by-reference check; it is judged on its own while it
    # exists as a function, the check as a whole is judged end to end below in any case
    preds = [f for f in prog.fns.values() if f.name == "expr_type_matches_type_qualifier_by_ref"
             and "user_defined_function_linter" in f.id]
    pred = preds[0] if len(preds) == 1 else None
    for q1 in (ALLQ if pred is not None else ()):
        for q2 in ALLQ:
            et = T.eng.make(ET, "BuiltIn", {0: tf.Tag(ot.TQ, q1)})
            rs = {tf.shape(x) for x in T.eng.summary(pred, (tf.Ref(et), tf.Tag(ot.TQ, q2)))}
            want = {"1"} if q1 == q2 else {"0"}
            ctx.decide(rs == want, rule, "%s:by-ref-match(%s,%s)" % (rule, q1, q2), pred.loc,
                       "match=%s" % (q1 == q2),
                       "a %s variable passed by reference to a %s parameter: predicate yields %s "
                       "(by-reference needs identical types; a mismatch makes the callee write a value "
                       "of the wrong type into the caller's variable)" % (q1, q2, rs))
    for q2 in (ALLQ if pred is not None else ()):
        et = T.eng.make(ET, "FixedLengthString", {})
        rs = {tf.shape(x) for x in T.eng.summary(pred, (tf.Ref(et), tf.Tag(ot.TQ, q2)))}
        want = {"1"} if q2 == "DollarString" else {"0"}
        ctx.decide(rs == want, rule, "%s:by-ref-match(FixedLengthString,%s)" % (rule, q2), pred.loc,
                   "match=%s" % (q2 == "DollarString"), "STRING*n by-ref to %s yields %s" % (q2, rs))
    by_ref = one("lint_by_ref_arg")
    by_val = one("lint_by_val_arg")
    r_ref = prog.reachable_from([by_ref])
    r_val = prog.reachable_from([by_val])
    uses_cast = lambda reach: any(x.split("::")[-1] == "can_cast_to" for x in reach)
    ctx.decide(not uses_cast(r_ref), rule, rule + ":by-ref-arm:uses-equality", by_ref.loc,
               "by-ref arguments are not checked for mere castability",
               "lint_by_ref_arg reaches can_cast_to")
    ctx.decide(uses_cast(r_val), rule, rule + ":by-val-arm:uses-castability", by_val.loc,
               "by-value arguments are checked with can_cast_to",
               "lint_by_val_arg no longer uses can_cast_to")
    # the variant set routed to the by-ref check = the generator's is_by_ref set (C03.R2)
    arg = one("lint_call_arg")
    sws = [s for s in mir.enum_switches(prog, arg.body) if s.adt == ot.EXPR]
    if not sws:
        raise CheckError("lint_call_arg: no match over Expression")
    sw = sws[0]
    by_ref_variants, mixed = routed_variants(arg, sw, by_ref)
    ctx.decide(by_ref_variants == {"Variable", "ArrayElement", "Property"} and not mixed, rule,
               rule + ":by-ref-variants", arg.loc, "Variable, ArrayElement, Property",
               "lint_call_arg routes %s to the by-reference check on every path and %s only on some paths "
               "(a guard sends the rest to the by-value check): an argument the generator passes by "
               "reference is accepted with a merely castable type, and the callee's value of the "
               "parameter type is written back into the caller's variable"
               % (sorted(by_ref_variants), sorted(mixed)))
    # end to end: the by-reference check itself, for each form an argument passed by reference can
    # take, refuses every pair of different built-in types (the predicate above is only one of its parts)
    rpt = [a for a in prog.adts.values() if a["path"].endswith("::ResolvedParamType")]
    if len(rpt) != 1:
        raise CheckError("anchor ResolvedParamType")
    slot = {"Variable": 1, "ArrayElement": 2, "Property": 2}
    for form in ("Variable", "ArrayElement", "Property"):
        for q1 in ALLQ:
            for q2 in ALLQ:
                e = T.eng.make(ot.EXPR, form, {slot[form]: T.eng.make(ET, "BuiltIn", {0: tf.Tag(ot.TQ, q1)})})
                a = T.eng.make(ot.POS, "Positioned", {0: e})
                pt = T.eng.make(rpt[0]["id"], "BuiltIn", {0: tf.Tag(ot.TQ, q2)})
                rs = {tf.shape(x).split("(")[0] for x in T.eng.summary(by_ref, (tf.Ref(a), tf.Ref(pt)))}
                ok = ("Ok" in rs) if q1 == q2 else (rs == {"Err"})
                ctx.decide(ok, rule, "%s:by-ref-check(%s,%s,%s)" % (rule, form, q1, q2), by_ref.loc,
                           "verdicts %s" % sorted(rs),
                           "an Expression::%s of type %s passed by reference to a %s parameter: lint_by_ref_arg "
                           "yields %s%s" % (form, q1, q2, sorted(rs),
                                            " - accepted, and the callee's value of the parameter type is written "
                                            "back unconverted into the caller's variable" if q1 != q2 else
                                            " - a correct call is refused"))
    # ... and every other kind of type: an array named without parentheses, a record, an unresolved
    # expression are never a variable of a built-in type; STRING * n stands for a string only
    others = [("Unresolved", T.eng.make(ET, "Unresolved", {}), None),
              ("FixedLengthString", T.eng.make(ET, "FixedLengthString", {}), "DollarString"),
              ("UserDefined", T.eng.make(ET, "UserDefined", {}), None),
              ("Array(FixedLengthString)", T.eng.make(ET, "Array", {0: tf.Box(T.eng.make(ET, "FixedLengthString", {}))}), None)]
    for q1 in ALLQ:
        others.append(("Array(%s)" % q1,
                       T.eng.make(ET, "Array", {0: tf.Box(T.eng.make(ET, "BuiltIn", {0: tf.Tag(ot.TQ, q1)}))}), None))
    for form in ("Variable", "ArrayElement", "Property"):
        for tname, et, accept_q in others:
            for q2 in ALLQ:
                e = T.eng.make(ot.EXPR, form, {slot[form]: et})
                a = T.eng.make(ot.POS, "Positioned", {0: e})
                pt = T.eng.make(rpt[0]["id"], "BuiltIn", {0: tf.Tag(ot.TQ, q2)})
                rs = {tf.shape(x).split("(")[0] for x in T.eng.summary(by_ref, (tf.Ref(a), tf.Ref(pt)))}
                ok = ("Ok" in rs) if accept_q == q2 else (rs == {"Err"})
                ctx.decide(ok, rule, "%s:by-ref-check(%s,%s,%s)" % (rule, form, tname, q2), by_ref.loc,
                           "verdicts %s" % sorted(rs),
                           "an Expression::%s of type %s passed by reference to a %s parameter: lint_by_ref_arg "
                           "yields %s%s" % (form, tname, q2, sorted(rs),
                                            " - accepted: the callee gets something that is not a variable of the "
                                            "parameter's type (Type mismatch at run time in an accepted program)"
                                            if accept_q != q2 else " - a correct call is refused"))
    ctx.require(rule, 3 + 75 + 135)


def r5_condition_typing(ctx, T, rule="C12.R5"):
    prog = ctx.prog
    PCL = labels.PCL
    impls = [i for i in prog.impls_of_trait(PCL) if i["self_ty"].endswith("ConditionTypeLinter")]
    if len(impls) != 1:
        raise CheckError("impl PostConversionLinter for ConditionTypeLinter not found")
    over = {it["name"]: prog.fns.get(it["id"]) for it in impls[0]["items"]}
    ens = [f for f in prog.fns.values() if f.name == "ensure_expression_is_condition"]
    if len(ens) != 1:
        raise CheckError("anchor ensure_expression_is_condition")
    ens = ens[0]
    _fn, _adt, dispatch = labels.statement_dispatch(prog)
    tr = prog.traits[PCL]
    for stmt, via in (("While", "visit_conditional_block"), ("DoLoop", "visit_do_loop"), ("IfBlock", "visit_if_block")):
        methods = dispatch.get(stmt, [])
        key = "%s:reaches:%s" % (rule, stmt)
        ok = via in methods
        if ok and via == "visit_if_block":
            # default visit_if_block must call visit_conditional_block for the IF and for each ELSEIF
            fid = prog.effective_method(impls[0], tr, "visit_if_block")
            f = prog.fns.get(fid)
            n = sum(1 for _b, t in f.body.calls() if (t.get("cpath") or "").endswith("::visit_conditional_block")) if f else 0
            ok = n >= 2
            via = "visit_conditional_block"
        if ok:
            f = over.get(via)
            ok = f is not None and any(mir.callee_of(t) == ens.id for _b, t in f.body.calls()) \
                and any((t.get("cpath") or "").endswith("::visit_statements") for _b, t in f.body.calls())
        ctx.decide(ok, rule, key, ens.loc, "Statement::%s reaches the condition check (and nested statements)" % stmt,
                   "the condition of Statement::%s no longer reaches ensure_expression_is_condition "
                   "(or nested statements are skipped)" % stmt)
    # the predicate accepts exactly the numeric built-in types
    cases = [("BuiltIn:" + q, T.eng.make(ET, "BuiltIn", {0: tf.Tag(ot.TQ, q)}), q != "DollarString") for q in ALLQ]
    for v in prog.variants(ET):
        if v != "BuiltIn":
            cases.append((v, T.eng.make(ET, v), False))
    for name, et, accept in cases:
        e = T.eng.make(ot.EXPR, "Variable", {1: et})
        item = T.eng.make(ot.POS, "Positioned", {0: e})
        rs = {tf.deref(x)[2] if tf.deref(x)[0] == "tag" else "?" for x in T.eng.summary(ens, (tf.Ref(item),))}
        want = {"Ok"} if accept else {"Err"}
        ctx.decide(rs == want, rule, "%s:accepts:%s" % (rule, name), ens.loc, "accept=%s" % accept,
                   "a condition of type %s: check yields %s (want %s)" % (name, sorted(rs), sorted(want)))
    ctx.require(rule, 3 + 5 + 4)


def r6_fixed_length_string_is_a_string(ctx, T, rule="C12.R6"):
    """A STRING * n operand is typed by the checker exactly like a `$` string operand: for every
    operator and every type of the other operand, cast_binary_op_et(STRING*n, t) and (t, STRING*n)
    answer what they answer for BuiltIn($) - in particular a number on the other side is rejected.
    (The VM treats both as VString; a pair the checker admits only for STRING*n fails at run time
    with Type mismatch.)"""
    prog = ctx.prog
    # found by what it is: the function of the checker that takes two expression types and an operator and answers with
    # an optional expression type (cast_binary_op_et today)
    fs = [f for f in prog.fns.values() if f.crate == "rusty_linter" and f.kind == "fn" and f.argc == 3
          and "Option<" in f.body.locals[0]["ty"] and "ExpressionType" in f.body.locals[0]["ty"]
          and sorted(l["ty"].split("::")[-1] for l in f.body.locals[1:4]) == ["ExpressionType", "ExpressionType", "Operator"]]
    if len(fs) != 1:
        raise CheckError("anchor cast_binary_op_et")
    fn = fs[0]
    eng = T.eng
    OP = "rusty_parser::core::operator::Operator"
    fls = eng.make(ET, "FixedLengthString", {})
    dollar = eng.make(ET, "BuiltIn", {0: tf.Tag(ot.TQ, "DollarString")})
    others = [("BuiltIn(%s)" % q, eng.make(ET, "BuiltIn", {0: tf.Tag(ot.TQ, q)})) for q in ALLQ]
    others.append(("FixedLengthString", fls))
    for v in prog.variants(ET):
        if v not in ("BuiltIn", "FixedLengthString"):
            others.append((v, eng.make(ET, v)))

    def res(a, b, op):
        out = set()
        for x in eng.summary(fn, (tf.Ref(a), tf.Ref(b), tf.Tag(OP, op))):
            x = tf.deref(x)
            if x[0] == "tag" and x[2] == "None":
                out.add("rejected")
            elif x[0] == "tag" and x[2] == "Some":
                inner = tf.deref(x[3][0]) if x[3] else tf.TOP
                q = tf.deref(inner[3][0]) if inner[0] == "tag" and inner[3] else tf.TOP
                out.add("%s(%s)" % (inner[2] if inner[0] == "tag" else "?", q[2] if q[0] == "tag" else ""))
            else:
                out.add("?")
        return sorted(out)
    n = 0
    for op in prog.variants(OP):
        for name, other in others:
            for side in ("left", "right"):
                a1, b1 = (fls, other) if side == "left" else (other, fls)
                a2, b2 = (dollar, other) if side == "left" else (other, dollar)
                if name == "FixedLengthString":
                    a2, b2 = dollar, dollar
                got, want = res(a1, b1, op), res(a2, b2, op)
                n += 1
                key = "%s:%s(%s STRING*n, %s)" % (rule, op, side, name)
                if "?" in got or "?" in want:
                    ctx.unknown(rule, key, fn.loc, "abstract results %s / %s" % (got, want))
                    continue
                ctx.decide(got == want, rule, key, fn.loc, "typed like a $ string: %s" % want,
                           "`STRING*n %s %s` (STRING*n on the %s) is typed %s but the same expression with a $ "
                           "string is typed %s: the checker and the VM (which sees a VString either way) disagree"
                           % (op, name, side, got, want))
    ctx.analysed_units(rule, cells=n)
    ctx.require(rule, 200)


LIT_OF = {"DollarString": "StringLiteral", "PercentInteger": "IntegerLiteral", "AmpersandLong": "LongLiteral",
          "BangSingle": "SingleLiteral", "HashDouble": "DoubleLiteral"}


def r7_rewrites_preserve_type(ctx, rule="C12.R7"):
    """The post-linter rewrites (ExpressionReducer impls) run AFTER the type checks. An arm of
    visit_expression that replaces an expression of variant V by a literal must pick the literal of
    V's static type: the literal is built under a switch on the type qualifier, and each qualifier's
    arm builds the literal of that type. Otherwise an expression the checker typed as a string is an
    integer at run time (`A$ = F$(1)` with F$ undefined: accepted, Type mismatch when run)."""
    prog = ctx.prog
    tr = [t for t in prog.traits.values() if t["path"].endswith("::ExpressionReducer")]
    if len(tr) != 1:
        raise CheckError("trait ExpressionReducer: %d matches" % len(tr))
    tid = [k for k, v in prog.traits.items() if v is tr[0]][0]
    impls = prog.impls_of_trait(tid)
    n = 0
    for impl in impls:
        fid = next((it["id"] for it in impl["items"] if it["name"] == "visit_expression"), None)
        f = prog.fns.get(fid) if fid else None
        if f is None:
            continue
        body = f.body
        qsw = mir.enum_switches(prog, body, ot.TQ)
        for sw in mir.enum_switches(prog, body, ot.EXPR):
            for variant, tgt in sorted(sw.arms.items()):
                region = mir.arm_region(body, sw.bb, tgt)
                for b, st in mir.region_aggregates(body, region):
                    r = st["r"]
                    if r.get("adt") != ot.EXPR or r.get("variant") not in LIT_OF.values() or r["variant"] == variant:
                        continue
                    quals = set(ALLQ)
                    for q in qsw:
                        if q.bb not in region:
                            continue
                        inside = set()
                        for qn, qt in q.arms.items():
                            if b in mir.arm_region(body, q.bb, qt):
                                inside.add(qn)
                        if q.otherwise is not None and b in mir.arm_region(body, q.bb, q.otherwise):
                            inside |= set(q.wildcard_variants(prog))
                        if inside:
                            quals &= inside
                    bad = sorted(qn for qn in quals if LIT_OF[qn] != r["variant"])
                    n += 1
                    ctx.decide(not bad, rule, "%s:%s:%s->%s" % (rule, impl["self_ty"].split("::")[-1].split("<")[0], variant, r["variant"]),
                               f.loc, "Expression::%s is replaced by %s only where its qualifier is %s"
                               % (variant, r["variant"], sorted(quals)),
                               "%s::visit_expression replaces an Expression::%s by an %s also when its type "
                               "qualifier is %s: the rewrite runs after the type checks, so an expression the "
                               "checker typed as %s is an %s at run time (accepted program, Type mismatch or a "
                               "wrong value when run)" % (impl["self_ty"].split("::")[-1].split("<")[0], variant,
                                                          r["variant"], bad, bad, r["variant"]))
                # the literal may be made by a helper that is handed the qualifier (zero_value_literal(name.qualifier()))
                for _b, t in mir.region_calls(body, region):
                    g = prog.fns.get(t.get("res") or mir.callee_of(t))
                    if g is None or g.crate != "rusty_linter" or g.kind != "fn" or not g.body.locals[0]["ty"].endswith("Expression"):
                        continue
                    gq = mir.enum_switches(prog, g.body, ot.TQ)
                    if not gq:
                        continue
                    for gb, gblk in enumerate(g.body.blocks):
                        if gblk.get("c"):
                            continue
                        for st in gblk["s"]:
                            r = st.get("r", {})
                            if st["k"] != "assign" or r.get("k") != "agg" or r.get("adt") != ot.EXPR or r.get("variant") not in LIT_OF.values():
                                continue
                            quals = set(ALLQ)
                            for q in gq:
                                inside = set()
                                for qn, qt in q.arms.items():
                                    if gb in mir.arm_region(g.body, q.bb, qt):
                                        inside.add(qn)
                                if q.otherwise is not None and gb in mir.arm_region(g.body, q.bb, q.otherwise):
                                    inside |= set(q.wildcard_variants(prog))
                                if inside:
                                    quals &= inside
                            bad = sorted(qn for qn in quals if LIT_OF[qn] != r["variant"])
                            n += 1
                            ctx.decide(not bad, rule, "%s:%s:%s->%s" % (rule, impl["self_ty"].split("::")[-1].split("<")[0], variant, r["variant"]),
                                       g.loc, "Expression::%s is replaced by %s only where its qualifier is %s (in %s)"
                                       % (variant, r["variant"], sorted(quals), g.name),
                                       "%s (called by %s::visit_expression for an Expression::%s) builds an %s also when the type qualifier "
                                       "is %s: the rewrite runs after the type checks, so an expression the checker typed as %s is an %s at "
                                       "run time" % (g.name, impl["self_ty"].split("::")[-1].split("<")[0], variant, r["variant"], bad, bad, r["variant"]))
    ctx.require(rule, 1)


def r9_subscripts_are_numeric(ctx, rule="C12.R9"):
    """`an accepted program never raises Type mismatch`: array subscripts (`A(i)`) and array bounds
    (`DIM A(lo TO hi)`) are converted to integers at run time, so the checker has to refuse a
    non-numeric expression there.  The two converter functions that build these nodes - the one that
    builds Expression::ArrayElement from the parsed arguments and the one that builds an
    ArrayDimension - must test the converted expressions for castability (CanCastTo)."""
    prog = ctx.prog
    n = 0
    for what, pred in (("Expression::ArrayElement", lambda r: (r.get("adt") or "").endswith("::Expression") and r.get("variant") == "ArrayElement"),
                       ("ArrayDimension", lambda r: (r.get("adt") or "").endswith("::ArrayDimension"))):
        builders = []
        for f in prog.fns.values():
            if f.crate != "rusty_linter" or "::converter::" not in f.id or f.kind == "const":
                continue
            if any(st["k"] == "assign" and st["r"].get("k") == "agg" and pred(st["r"])
                   for blk in f.body.blocks for st in blk["s"]):
                builders.append(prog.enclosing_fn(f) or f)
        if not builders:
            raise CheckError("%s: no converter function builds %s" % (rule, what))
        for g in sorted(set(builders), key=lambda f: f.id):
            n += 1
            scope = [g] + prog.closures_of(g)
            # ... or a private helper of the same file that it calls
            scope += [prog.fns[c] for h in list(scope) for c in prog.call_edges(h)
                      if c in prog.fns and prog.fns[c].file == g.file and prog.fns[c] not in scope]
            checks = [t for h in scope for _b, t in h.body.calls()
                      if (t.get("cpath") or "").split("::")[-1] == "can_cast_to"]
            name = g.path.split("::", 1)[1]
            # the test is `castable to a numeric type, else refuse` - not `refuse what is castable to a
            # string`: the two agree on numbers and strings only; an unresolved name, a record, a whole
            # array are castable to nothing and would pass the second form
            shape_bad = None
            for h in scope:
                hpv = mir.Prov(h.body)
                for cb, t in h.body.calls():
                    if (t.get("cpath") or "").split("::")[-1] != "can_cast_to" or len(t["args"]) < 2:
                        continue
                    o = mir.strip_refs(hpv.of_operand(t["args"][1]))
                    target = None
                    if o[0] == "promoted" and o[1] < len(h.promoted):
                        for blk in h.promoted[o[1]].blocks:
                            for st in blk["s"]:
                                if st["k"] == "assign" and st["r"].get("k") == "agg" and (st["r"].get("adt") or "").endswith("::TypeQualifier"):
                                    target = st["r"].get("variant")
                    if target is None:
                        continue
                    nxt = h.body.term(t["t"])
                    if nxt["k"] != "switch":
                        continue
                    false_t = [tg for v, tg in nxt["ts"] if v == 0]
                    true_t = nxt["else"]
                    def refuses(start, avoid):
                        return any(st["k"] == "assign" and st["r"].get("k") == "agg" and (st["r"].get("adt") or "").endswith("::LintError")
                                   for bb in h.body.reachable(start, avoid=avoid) for st in h.body.blocks[bb]["s"])
                    on_false = bool(false_t) and refuses(false_t[0], {true_t})
                    on_true = refuses(true_t, set(false_t))
                    if target == "DollarString" or (on_true and not on_false):
                        shape_bad = (target, t.get("ln"))
            ctx.decide(shape_bad is None, rule, "%s:%s:refuses-unless-numeric" % (rule, name), g.loc,
                       "refuses unless castable to a numeric type",
                       "%s tests the index / bound expressions against %s and refuses on success (line %s) instead of "
                       "requiring a numeric type: an expression that is castable to nothing (an unresolved name, a record, a "
                       "whole array) passes - `cards(N).Value` with a fresh N is accepted and the generator does not find N"
                       % (name, shape_bad[0] if shape_bad else "", shape_bad[1] if shape_bad else ""))
            ctx.decide(bool(checks), rule, "%s:%s" % (rule, name), g.loc,
                       "the index / bound expressions are tested with can_cast_to",
                       "%s builds %s without testing the type of the index / bound expressions: `A(\"x\")` or "
                       "`DIM A(1 TO \"x\")` is accepted by the checker and raises Type mismatch at run time" % (name, what))
    ctx.require(rule, 4)


def r10_array_element_type_field(ctx, rule="C12.R10"):
    """`Expression::ArrayElement(name, indices, type)` with an empty index list is the whole array
    `A()`; its third field is the type of the *elements*.  Code that reads the type field without
    looking at the index list takes a whole array for one of its elements: `LINE INPUT a$()` passed the
    string check and the VM then found an array where a string was promised.  In the checker and the
    generator every function that reads the type field of an ArrayElement also reads its index list
    (or asks expression_type(), which does)."""
    prog = ctx.prog
    n = 0
    for f in sorted(prog.fns.values(), key=lambda f: f.id):
        if f.crate not in ("rusty_linter", "rusty_basic") or f.kind == "const":
            continue
        if f.impl and (f.impl.get("trait_ref") or "").split(" as ")[-1].startswith(("std::clone", "std::fmt", "std::cmp")):
            continue
        fields = set()
        for blk in f.body.blocks:
            if blk.get("c"):
                continue
            places = []
            for st in blk["s"]:
                if st["k"] != "assign":
                    continue
                r = st["r"]
                if "p" in r:
                    places.append(r["p"])
                for kk in ("o", "a", "b"):
                    if isinstance(r.get(kk), dict) and mir.op_place(r[kk]) is not None:
                        places.append(mir.op_place(r[kk]))
            t = blk["t"]
            if t["k"] == "call":
                places += [mir.op_place(a) for a in t["args"] if mir.op_place(a) is not None]
            for pl in places:
                for e in pl[1]:
                    if isinstance(e, dict) and e.get("v") == "ArrayElement" and (e.get("a") or "").endswith("::Expression"):
                        fields.add(e.get("f"))
        if 2 not in fields:
            continue
        n += 1
        name = f.path.split("::", 1)[1]
        ctx.decide(1 in fields, rule, "%s:%s" % (rule, name), f.loc,
                   "reads the index list together with the type",
                   "%s reads the type field of Expression::ArrayElement without its index list: for the whole "
                   "array `A()` (no indices) that field is the element type, so an array is accepted where a "
                   "single value of that type is required" % name)
    ctx.analysed_units(rule, readers_of_the_type_field=n)
    ctx.require(rule, 4)


def r11_no_conversion_between_arrays(ctx, T, rule="C12.R11"):
    """An array is passed as a whole - there is no instruction that converts its elements (the
    casting emitter has no arm for arrays).  Whatever decides `an argument of this type may be
    passed by value to that parameter` must therefore accept an array only for an array parameter
    with the very same element type: evaluated for every pair of element types."""
    prog = ctx.prog
    rpt = [a for a in prog.adts.values() if a["path"].endswith("::ResolvedParamType")]
    if len(rpt) != 1:
        raise CheckError("anchor ResolvedParamType")
    RPT = rpt[0]["id"]
    fs = [f for f in prog.fns.values() if f.name == "can_cast_to" and f.impl and f.kind != "closure"
          and f.impl["self_ty"].endswith("ExpressionType") and "ResolvedParamType" in (f.impl.get("trait_ref") or "")
          and "Box" not in f.impl["self_ty"]]
    if len(fs) != 1:
        raise CheckError("anchor <ExpressionType as CanCastTo<ResolvedParamType>>::can_cast_to: %d" % len(fs))
    fn = fs[0]
    by_val = [f for f in prog.fns.values() if f.name == "lint_by_val_arg" and "user_defined_function_linter" in f.id]
    if by_val and fn.id not in prog.reachable_from(by_val):
        raise CheckError("%s: lint_by_val_arg does not reach %s" % (rule, fn.path))
    arr_e = [i for i, fl in enumerate(T.eng.variant_named(ET, "Array")["fields"])]
    arr_p = [i for i, fl in enumerate(T.eng.variant_named(RPT, "Array")["fields"])]
    elems = [("BuiltIn/" + q, T.eng.make(ET, "BuiltIn", {0: tf.Tag(ot.TQ, q)})) for q in ALLQ] + \
            [("FixedLengthString", T.eng.make(ET, "FixedLengthString", {}))]
    params = [("BuiltIn/" + q, T.eng.make(RPT, "BuiltIn", {0: tf.Tag(ot.TQ, q)})) for q in ALLQ]
    n = 0
    for en, ev in elems:
        for pn, pv_ in params:
            a = T.eng.make(ET, "Array", {arr_e[0]: ev})
            pt = T.eng.make(RPT, "Array", {arr_p[0]: pv_})
            rs = sorted({tf.shape(x) for x in T.eng.summary(fn, (tf.Ref(a), tf.Ref(pt)))})
            key = "%s:array(%s)->array(%s)" % (rule, en, pn)
            n += 1
            if rs not in (["0"], ["1"]):
                ctx.unknown(rule, key, fn.loc, "abstract result %s" % rs)
                continue
            want = "1" if en == pn else "0"
            ctx.decide(rs == [want], rule, key, fn.loc, "accepted=%s" % want,
                       "an array of %s passed by value (in parentheses) to an array parameter of %s is %s: %s"
                       % (en, pn, "accepted" if rs == ["1"] else "refused",
                          "the generator has no conversion for arrays and the program ends in an internal failure "
                          "(`Cannot cast Array(..) into Array(..)`)" if rs == ["1"] else "a correct call is refused"))
    # ... and the same for records: the casting emitter has no arm for a record either.  With names the analysis knows
    # nothing about, `record -> record parameter` may be neither always accepted (the names have to be compared) nor
    # always refused, and a record never goes with a built-in parameter or the other way round
    rec_e = T.eng.make(ET, "UserDefined", {})
    rec_p = T.eng.make(RPT, "UserDefined", {})
    rs = sorted({tf.shape(x) for x in T.eng.summary(fn, (tf.Ref(rec_e), tf.Ref(rec_p)))})
    n += 1
    ctx.decide(rs not in (["1"], ["0"]), rule, "%s:record->record" % rule, fn.loc, "depends on the two type names (%s)" % rs,
               "a record passed by value (in parentheses) to a record parameter is %s whatever the two TYPE names are: %s"
               % ("accepted" if rs == ["1"] else "refused",
                  "the generator has no conversion between records and the program ends in an internal failure "
                  "(`Cannot cast UserDefined(Card) into UserDefined(Account)`)" if rs == ["1"] else "a correct call is refused"))
    for pn, pv_ in params[:2]:
        for what, a, pt in (("record->%s" % pn, rec_e, pv_), ("%s->record" % pn, elems[[e[0] for e in elems].index(pn)][1], rec_p)):
            rs = sorted({tf.shape(x) for x in T.eng.summary(fn, (tf.Ref(a), tf.Ref(pt)))})
            n += 1
            ctx.decide(rs == ["0"], rule, "%s:%s" % (rule, what), fn.loc, "refused",
                       "%s by value is not refused (%s): the generator has no such conversion and the program ends in an "
                       "internal failure" % (what, rs))
    ctx.analysed_units(rule, cells=n)
    ctx.require(rule, 35)


def r12_argument_count_is_compared_for_equality(ctx, rule="C12.R12"):
    """`wrong argument count ... is rejected`: where the number of arguments of a call is compared
    with the number of parameters of the subprogram it names (two lengths known only when the checker
    runs), ArgumentCountMismatch is decided by `!=` / `==`.  An ordering (`<`) lets calls with surplus
    arguments through - the pairing of arguments and parameters afterwards stops at the shorter list,
    so the surplus is neither counted nor typed."""
    prog = ctx.prog
    n = 0
    for f in sorted(prog.fns.values(), key=lambda f: f.id):
        if f.crate != "rusty_linter" or f.kind == "const":
            continue
        body = f.body
        sites = [b for b, blk in enumerate(body.blocks) if not blk.get("c") for st in blk["s"]
                 if st["k"] == "assign" and st["r"].get("k") == "agg" and (st["r"].get("adt") or "").endswith("::LintError")
                 and st["r"].get("variant") == "ArgumentCountMismatch"]
        if not sites:
            continue
        pv = mir.Prov(body)
        for sb in sites:
            for d in range(body.nblocks):
                t = body.term(d)
                if t["k"] != "switch" or t.get("ty") != "bool" or not body.dominates(d, sb) or d == sb:
                    continue
                o = pv.of_operand(t["o"])
                if o[0] != "bin":
                    continue
                sides = [mir.strip_all(x) for x in o[2:4]]
                is_len = [x[0] == "call" and x[1].split("::")[-1] == "len" and
                          mir.origin_mentions(x, lambda z: z[0] == "param") for x in sides]
                if not all(is_len):
                    continue
                n += 1
                name = f.path.split("::", 1)[1]
                ctx.decide(o[1] in ("Ne", "Eq"), rule, "%s:%s" % (rule, name), f.loc,
                           "the two lengths are compared with %s" % o[1],
                           "%s decides ArgumentCountMismatch with `%s` on the number of arguments and the number of "
                           "parameters: a call with more arguments than the subprogram has parameters is accepted and "
                           "its surplus arguments are never checked" % (name, o[1]))
    ctx.analysed_units(rule, count_comparisons=n)
    ctx.require(rule, 1)


def r13_select_case_compares_built_in_values(ctx, T, rule="C12.R13"):
    """`executing it can never raise Type mismatch`: every CASE of a SELECT CASE is lowered to a
    comparison of the selector with the CASE expression, and comparisons exist for numbers and strings
    only (the checker refuses `a = b` on records).  The check of a CASE expression against its
    selector - evaluated for each form (value, range, IS) with a selector of a record type - must
    refuse; two records of the same type are `castable` into each other, which is not enough."""
    prog = ctx.prog
    fs = [f for f in prog.fns.values() if f.name == "visit_case_expression" and f.impl and f.kind != "closure"
          and f.impl.get("trait") == labels.PCL and f.crate == "rusty_linter"
          and any((t.get("cpath") or "").split("::")[-1] == "can_cast_to" for g in [f] + prog.closures_of(f)
                  for _b, t in g.body.calls())]
    if len(fs) != 1:
        raise CheckError("%s: the pass that types CASE expressions against the selector not found (%d)" % (rule, len(fs)))
    fn = fs[0]
    ce = [a["id"] for a in prog.adts.values() if a["path"].endswith("::CaseExpression")]
    if len(ce) != 1:
        raise CheckError("anchor CaseExpression")
    CE = ce[0]

    def expr(et):
        return T.eng.make(ot.POS, "Positioned", {0: T.eng.make(ot.EXPR, "Variable", {1: et})})
    rec = T.eng.make(ET, "UserDefined", {})
    forms = {"Simple": {0: expr(rec)}, "Range": {0: expr(rec), 1: expr(rec)}, "Is": {1: expr(rec)}}
    if set(forms) != set(prog.variants(CE)):
        raise CheckError("%s: CaseExpression has variants %s" % (rule, prog.variants(CE)))
    for form, fields in sorted(forms.items()):
        c = T.eng.make(CE, form, fields)
        rs = sorted({tf.shape(x).split("(")[0] for x in T.eng.summary(fn, (tf.TOP, tf.Ref(c), tf.Ref(expr(rec))))})
        ctx.decide(rs == ["Err"], rule, "%s:%s:record-selector" % (rule, form), fn.loc, "refused",
                   "SELECT CASE on a value of a record type with a `CASE %s` of the same record type can be accepted "
                   "(verdicts %s): the comparison the CASE is lowered to raises Type mismatch at run time" % (form, rs))
    ctx.require(rule, 3)


def r16_numeric_types_are_interchangeable_at_run_time(ctx, rule="C12.R16"):
    """`an accepted program never raises Type mismatch`: the checker accepts a numeric argument of any of the
    four numeric types wherever a number is expected (it asks `can be cast to`), so the VM may not tell them
    apart when it decides whether to raise Type mismatch.  Every `match` of the VM on the variant of a value
    treats VInteger, VLong, VSingle and VDouble alike in that respect: either the arm of each of them can reach
    the construction of RuntimeError::TypeMismatch, or none can.  `STRING$(3, c)` with the code in a SINGLE
    variable is as good as with an INTEGER."""
    prog = ctx.prog
    NUM = ("VInteger", "VLong", "VSingle", "VDouble")
    n = 0
    for f in sorted(prog.fns.values(), key=lambda f: f.id):
        if f.crate != "rusty_basic" or "interpreter" not in f.id or f.body is None:
            continue
        body = f.body
        sws = [sw for sw in mir.enum_switches(prog, body) if sw.adt.endswith("::Variant")]
        if not sws:
            continue
        tm = set()
        for b, blk in enumerate(body.blocks):
            if blk.get("c"):
                continue
            for st in blk["s"]:
                r = st.get("r", {})
                if st["k"] == "assign" and r.get("k") == "agg" and r.get("a") == "adt" and r.get("variant") == "TypeMismatch":
                    tm.add(b)
        for k, sw in enumerate(sws):
            n += 1
            res = {}
            for v in NUM:
                tgt = sw.arms.get(v, sw.otherwise)
                res[v] = bool(tgt is not None and tm & set(body.reachable(tgt)))
            name = f.path.split("::", 1)[1]
            ctx.decide(len(set(res.values())) == 1, rule, "%s:%s%s" % (rule, name, "#%d" % k if k else ""), f.loc,
                       "the four numeric variants are treated alike",
                       "%s raises Type mismatch for %s but not for %s: a numeric argument the checker accepted (it only asks "
                       "whether the type can be cast) fails at run time depending on which numeric type it has"
                       % (name, sorted(v for v in NUM if res[v]), sorted(v for v in NUM if not res[v])))
    ctx.analysed_units(rule, matches_on_variant=n)
    ctx.require(rule, 15)


def r17_for_checks_every_bound_and_the_step(ctx, rule="C12.R17"):
    """`an accepted program never raises Type mismatch`: the lower bound, the upper bound and the STEP of a FOR
    are all combined with the counter at run time (assignment, comparison, addition), so the FOR checker asks of
    each of the three whether it can be cast to the counter's type.  In the checker's function that applies the
    cast-compatibility predicate to parts of a ForLoop node, all three expression fields reach the predicate -
    directly, or through the array / iterator the function loops over."""
    prog = ctx.prog
    want = {"lower_bound", "upper_bound", "step"}
    n = 0
    for f in sorted(prog.fns.values(), key=lambda f: f.id):
        if f.crate != "rusty_linter" or f.body is None or "post_linter" not in f.id:
            continue
        body = f.body
        if not any("ForLoop" in body.locals[i]["ty"] for i in range(1, f.argc + 1)):
            continue
        calls = [(b, t) for b, t in body.calls() if mir.callee_path(t).split("::")[-1] == "can_cast_to" and t["args"]]
        in_closure = any(mir.callee_path(t).split("::")[-1] == "can_cast_to" for c in prog.closures_of(f) for _b, t in c.body.calls())
        if not calls and not in_closure:
            continue
        pv = mir.Prov(body)
        got = set()

        def fields_of(o):
            mir.origin_mentions(o, lambda z: got.add(z[2]) if z[0] == "field" and z[2] in want else None)

        # applied by a closure of an iterator chain (`.find(|e| !e.can_cast_to(counter))`): what the chain runs over
        through_iter = in_closure
        for _b, t in calls:
            o = pv.of_operand(t["args"][0])
            fields_of(o)
            if mir.origin_mentions(o, lambda z: z[0] in ("index", "local") or (z[0] == "call" and z[1].split("::")[-1] in ("next", "into_iter", "iter", "flatten"))):
                through_iter = True
        if through_iter:
            for blk in body.blocks:
                if blk.get("c"):
                    continue
                for st in blk["s"]:
                    r = st.get("r", {})
                    if st["k"] == "assign" and r.get("k") == "agg" and r.get("a") in ("array", "tuple"):
                        for op in r["ops"]:
                            fields_of(pv.of_operand(op))
        n += 1
        name = f.path.split("::", 1)[1]
        ctx.decide(got >= want, rule, "%s:%s" % (rule, name), f.loc,
                   "lower bound, upper bound and step all reach can_cast_to",
                   "%s applies the cast-compatibility predicate to %s only; %s of the FOR is not asked whether it can be "
                   "cast to the counter's type: `FOR k%% = 1 TO 9 STEP inc$` is accepted and raises Type mismatch at run time"
                   % (name, sorted(got), sorted(want - got)))
    ctx.analysed_units(rule, for_checkers=n)
    ctx.require(rule, 1)


def run(ctx):
    common.install(ctx)
    T = ot.OpTables(ctx.prog)
    r1_operator_soundness(ctx, T)
    from . import c08
    c08.r1_traversal(ctx, "C12.R2")
    c08.r2_builtin_contract(ctx, "C12.R3")
    r4_by_ref_exact(ctx, T)
    r5_condition_typing(ctx, T)
    r6_fixed_length_string_is_a_string(ctx, T)
    r7_rewrites_preserve_type(ctx)
    c08.r10_child_helper_on_own_node(ctx, "C12.R8")
    r9_subscripts_are_numeric(ctx)
    r10_array_element_type_field(ctx)
    r11_no_conversion_between_arrays(ctx, T)
    r12_argument_count_is_compared_for_equality(ctx)
    r13_select_case_compares_built_in_values(ctx, T)
    from . import c01
    c01.r3_determinism(ctx, "C12.R14")
    c08.r13_argument_validators_mean_what_they_say(ctx, "C12.R15")
    r16_numeric_types_are_interchangeable_at_run_time(ctx)
    r17_for_checks_every_bound_and_the_step(ctx)
    # the checker and the run time agree on which element a name denotes only if neither tells spellings apart
    from . import c09
    c09.r18_no_container_keyed_by_raw_text(ctx, "C12.R18")
    # the type of an unsuffixed parameter is the same in the signature the calls are checked against and in the body
    # that is generated: both passes start from the default DEFtype table and meet the DEFtype statements in order
    from . import c13
    c13.r13_every_pass_starts_from_the_default_letter_table(ctx, "C12.R19")
