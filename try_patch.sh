#!/bin/bash
# usage: try_patch.sh <patch> <prop>...   apply to /repo, run the checks, always revert
P=$1; shift
git -C /repo apply "$P" || { echo "patch does not apply"; exit 2; }
for p in "$@"; do ./check $p | grep -v "^KNOWN-FINDING" | cut -c1-260; done
git -C /repo checkout -- . ; git -C /repo status --short | head -3
