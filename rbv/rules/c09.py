"""C09 - case, spacing, comments and line endings never change meaning (C09.R1-R6)."""
import json
import os
import re

from .. import mir
from ..core import CheckError, VERIF
from . import common

LEVEL = "other"
EXPLANATION = (
    "The case-folding clause at the level of `who compares program text, and how`: (R1) Hash and Eq "
    "of the case-insensitive string fold every byte through to_ascii_uppercase, on both operands, "
    "and compare the length tail; (R2) every raw (case-sensitive) str/String comparison in the "
    "parser, checker and run time is enumerated: each must be tabled as comparing run-time data, "
    "otherwise it is a comparison of program-derived text; (R3) no table of program names is keyed "
    "by a raw String; (R4) keyword / built-in name recognition goes through cmp_str or "
    "eq_ignore_ascii_case; (R5) exactly the CR[LF] and LF line endings are recognised; (R6) the "
    "lexer never matches an ASCII letter constant exactly; (R7) two characters of program text are "
    "never compared (order or equality) without case folding; (R10) every parser function that recognises the end of a line as the end of something recognises a colon too, or is tabled with the reason a colon is no alternative there; (R11) no token rule of the lexer raises a fatal error, because the lexer also tokenises comment and string text; (R12) every use of the one-token end-of-statement lookahead skips optional blanks first; (R13) the guard of the CR LF look-ahead in create_row_col_view is exactly `the next character exists` (not stronger); (R14) the parenthesis-only parser is used by the list of primary expressions only, so an operand that starts with `(` directly after a keyword is still a whole expression; (R15) every parser that consumes a line end as a separator is followed by the repetition that skips blank lines and indentation; (R16) the label parser accepts the name and the colon only when adjacent (no optional part before the colon in its combinator type), so `Name : Next` stays a call followed by a separator; (R17) only the functions the Eol token is made of, and the row/column table, contain a CR or LF character constant - nothing else decides where a line ends."
    " (R2, extended) the scan for case-sensitive text comparisons includes the crate of the case-insensitive string type itself."
    " (R18) no set or map of the front end and the VM is keyed by raw text (`&str` / `String`); (R19) the characters that may follow a keyword include the lexer's blank class and both line-end characters (truth tables over ASCII)."
    " (R20) every parser made from a token class that contains ':' is followed through the combinators and functions it is handed to until it stands behind optional blanks; in a sequence or delimited list it never follows a parser that does not skip them (the label parser, where the colon is adjacent, excepted)."
    " (R21) the text of a string literal - the middle of the surround whose delimiters are the quote parser - accepts neither the quote nor the end of a line (an Exclude token class holding Eol and the quote, or a character predicate tabulated over ASCII): an unclosed literal does not run on into the following lines.")
NOT_DECIDED = [
    "equality of parse trees under layout transformations (blanks, comments, colon vs newline)",
    "row counting in create_row_col_view beyond the CR / LF guards and the tightness of the CR LF look-ahead guard (R13)",
]


def _fn(prog, crate, name, where=None):
    fs = [f for f in prog.fns.values() if f.crate == crate and f.name == name and f.kind != "closure"
          and (where is None or where in f.id)]
    if len(fs) != 1:
        raise CheckError("anchor %s::%s: %d matches" % (crate, name, len(fs)))
    return fs[0]


def r1_folding_pair(ctx, rule="C09.R1"):
    prog = ctx.prog
    hs = _fn(prog, "rusty_common", "hash_str")
    pv = mir.Prov(hs.body)
    hashed = [t for _b, t in hs.body.calls() if (t.get("cpath") or "") == "std::hash::Hash::hash"]
    ok = bool(hashed)
    for t in hashed:
        o = mir.strip_refs(pv.of_operand(t["args"][0]))
        if not (o[0] == "call" and o[1].endswith("to_ascii_uppercase")):
            ok = False
    ctx.decide(ok, rule, rule + ":hash-folds", hs.loc, "every hashed byte is to_ascii_uppercase(byte)",
               "hash_str feeds a byte to the hasher that is not folded with to_ascii_uppercase: two "
               "spellings of one identifier hash differently")
    # the byte comparison lives in cmp_str or in a private helper of it (cmp_bytes): found by what
    # it does (the function of that module that calls Ord::cmp), not by its name
    cs = _fn(prog, "rusty_common", "cmp_str")
    cands = [cs] + [prog.fns[c] for c in prog.call_edges(cs) if c in prog.fns and prog.fns[c].crate == "rusty_common"]
    cands = [c for c in cands if any((t.get("cpath") or "") == "std::cmp::Ord::cmp" for _b, t in c.body.calls())]
    if len(cands) != 1:
        raise CheckError("%s: the byte comparison of cmp_str is in %d functions" % (rule, len(cands)))
    cb = cands[0]
    pv = mir.Prov(cb.body)
    cmps = [t for _b, t in cb.body.calls() if (t.get("cpath") or "") == "std::cmp::Ord::cmp"]
    ok = len(cmps) == 1
    for t in cmps:
        for a in t["args"]:
            o = mir.strip_refs(pv.of_operand(a))
            if not (o[0] == "call" and o[1].endswith("to_ascii_uppercase")):
                ok = False
    ctx.decide(ok, rule, rule + ":eq-folds-both-sides", cb.loc,
               "both operands of the byte comparison are folded",
               "cmp_bytes compares a byte that is not folded (one side or both): equality of names "
               "becomes case-sensitive")
    # tail: lengths compared, three-way result
    built = {s["r"]["variant"] for blk in cb.body.blocks for s in blk["s"]
             if s["k"] == "assign" and s["r"]["k"] == "agg" and s["r"].get("adt") == "core::cmp::Ordering"}
    lens = sum(1 for blk in cb.body.blocks for s in blk["s"]
               if s["k"] == "assign" and s["r"]["k"] == "bin" and s["r"]["op"] == "Lt")
    ctx.decide(built >= {"Less", "Greater", "Equal"} and lens >= 4, rule, rule + ":length-tail", cb.loc,
               "a longer string is never equal to its prefix",
               "cmp_bytes no longer distinguishes strings of different length (builds %s)" % sorted(built))
    # the impls use the pair
    for trait, helper in (("core::hash::Hash", "hash_str"), ("core::cmp::PartialEq", "cmp_str")):
        impls = [i for i in prog.impls.values() if i.get("trait") == trait and i["self_ty"].endswith("CaseInsensitiveString")]
        if len(impls) != 1:
            raise CheckError("impl %s for CaseInsensitiveString" % trait)
        ok = False
        for it in impls[0]["items"]:
            f = prog.fns.get(it["id"])
            if f and any(mir.callee_path(t).split("::")[-1] == helper for _b, t in f.body.calls()):
                ok = True
        ctx.decide(ok, rule, "%s:%s-uses-%s" % (rule, trait.split("::")[-1], helper), impls[0].get("file", ""),
                   "delegates to %s" % helper,
                   "impl %s for CaseInsensitiveString no longer goes through %s" % (trait.split("::")[-1], helper))
    # Eq/Hash agree in kind: no derive(PartialEq/Hash) on the type
    derived = [i for i in prog.impls.values() if i["self_ty"].endswith("CaseInsensitiveString")
               and i.get("trait") in ("core::hash::Hash", "core::cmp::PartialEq")]
    ctx.decide(len(derived) == 2, rule, rule + ":single-impl-each", "rusty_common", "one Hash and one PartialEq impl",
               "CaseInsensitiveString has %d Hash/PartialEq impls" % len(derived))
    ctx.require(rule, 6)


RAW = ("std::cmp::PartialEq::eq", "std::cmp::PartialEq::ne", "std::cmp::Ord::cmp",
       "std::cmp::PartialOrd::partial_cmp")
STR_TYPES = ("std::string::String", "str", "&str", "&std::string::String")
STR_METHODS = re.compile(r"^core::str::<impl str>::(starts_with|ends_with|contains|find|strip_prefix|strip_suffix|eq)$")


def _is_raw_text_compare(t):
    cp = t.get("cpath") or ""
    st = t.get("self_ty") or ""
    return bool((cp in RAW and (st in STR_TYPES or st.startswith("&str"))) or
                (STR_METHODS.match(cp) and _pattern_is_str(t)))


# the tree may legitimately contain no raw comparison at all (it did not after INSTR was changed to
# compare bytes): these synthetic call records keep the detector honest on every run
_SELFTEST = [
    ({"cpath": "std::cmp::PartialEq::eq", "self_ty": "str", "args": [], "f": {}}, True),
    ({"cpath": "std::cmp::PartialEq::eq", "self_ty": "std::string::String", "args": [], "f": {}}, True),
    ({"cpath": "core::str::<impl str>::starts_with", "self_ty": "", "args": [], "f": {"k": {"gargs": ["&str"]}}}, True),
    ({"cpath": "std::cmp::PartialEq::eq", "self_ty": "rusty_common::CaseInsensitiveString", "args": [], "f": {}}, False),
]


def r2_raw_comparisons(ctx, rule="C09.R2"):
    for rec, want in _SELFTEST:
        if _is_raw_text_compare(rec) != want:
            raise CheckError("%s: detector self-test failed on %s" % (rule, rec["cpath"]))
    ctx.ok(rule, rule + ":detector-self-test", "rbv/rules/c09.py", "%d synthetic call records classified as expected" % len(_SELFTEST))
    prog = ctx.prog
    table = json.load(open(os.path.join(VERIF, "tables", "raw_text_compare.json")))
    allowed = {e["function"]: e["reason"] for e in table["run_time_data"]}
    n = 0
    for fn in sorted(prog.fns.values(), key=lambda f: f.id):
        # rusty_common holds the case-insensitive string type itself: a helper added to it that goes through
        # Deref to the std string methods compares case-sensitively behind a case-insensitive name
        if fn.crate not in ("rusty_parser", "rusty_linter", "rusty_basic", "rusty_common") or fn.kind == "const":
            continue
        if common.is_derived(fn):
            continue
        pv = None
        for b, t in fn.body.calls():
            cp = t.get("cpath") or ""
            st = t.get("self_ty") or ""
            if not _is_raw_text_compare(t):
                continue
            if STR_METHODS.match(cp) and _pattern_case_free(t):
                continue
            n += 1
            owner = prog.enclosing_fn(fn) or fn
            name = owner.path.split("::", 1)[1]
            pv = pv or mir.Prov(fn.body)
            ops = [mir.short_origin(pv.of_operand(a)) for a in t["args"][:2]]
            key = "%s:%s:%s" % (rule, name, cp.split("::")[-1])
            loc = "%s:%s" % (fn.file, t.get("ln"))
            if name in allowed:
                ctx.ok(rule, key, loc, "run-time data: " + allowed[name])
            else:
                ctx.violation(rule, key, loc,
                              "case-sensitive comparison `%s` of %s and %s: if either side is text taken "
                              "from the program (identifier, keyword) two spellings of one name compare "
                              "unequal" % (cp.split("::")[-1], ops[0], ops[1] if len(ops) > 1 else "?"),
                              {"function": fn.path})
    ctx.ok(rule, rule + ":scan", "workspace", "%d raw comparisons enumerated" % n)
    ctx.analysed_units(rule, raw_comparisons=n)
    ctx.require(rule, 2)


def _pattern_case_free(t):
    """The pattern argument is a constant without ASCII letters (a symbol such as '.', '-', '=')."""
    if len(t["args"]) < 2:
        return False
    k = t["args"][1].get("k")
    if not k:
        return False
    if k.get("ty") == "char" and "int" in k:
        return not chr(k["int"]).isalpha()
    m = re.match(r'^"(.*)"$', k.get("s", ""), re.S)
    if m:
        return not any(c.isalpha() for c in m.group(1))
    return False


def _pattern_is_str(t):
    g = (t["f"].get("k") or {}).get("gargs") or []
    return any(x in ("&str", "&std::string::String", "char") or x.startswith("&'") for x in g) or not g


def r3_name_table_keys(ctx, rule="C09.R3"):
    """No HashMap/HashSet/BTreeMap keyed by a raw String in the checker's name tables or the
    interpreter's variable tables."""
    prog = ctx.prog
    n = 0
    pat = re.compile(r"(HashMap|HashSet|BTreeMap|BTreeSet)<(std::string::String|&str)[,>]")
    for a in sorted(prog.adts.values(), key=lambda x: x["id"]):
        if not a.get("local") or a["id"].split("::")[0] not in ("rusty_linter", "rusty_basic", "rusty_parser"):
            continue
        for v in a["variants"]:
            for f in v["fields"]:
                ty = f.get("ty", "")
                if "HashMap<" in ty or "HashSet<" in ty or "BTreeMap<" in ty or "BTreeSet<" in ty:
                    n += 1
                    key = "%s:%s.%s" % (rule, a["path"].split("::", 1)[1], f["name"])
                    ctx.decide(not pat.search(ty), rule, key, "%s:%s" % (a.get("file"), a.get("line")),
                               "keyed by %s" % ty[:80],
                               "table %s.%s is keyed by a raw String (%s): look-ups become case-sensitive"
                               % (a["path"], f["name"], ty[:80]))
    ctx.analysed_units(rule, keyed_tables=n)
    ctx.require(rule, 8)


def r4_keyword_folding(ctx, rule="C09.R4"):
    prog = ctx.prog
    # Keyword::try_from(&str): binary_search_by(|probe| cmp_str(probe, s))
    tf_impl = [f for f in prog.fns.values() if f.name == "try_from" and f.impl and f.impl["self_ty"].endswith("::Keyword")
               and f.crate == "rusty_parser"]
    if len(tf_impl) != 1:
        raise CheckError("anchor Keyword::try_from")
    f = tf_impl[0]
    uses = any(mir.callee_path(t).endswith("cmp_str") for g in [f] + prog.closures_of(f) for _b, t in g.body.calls())
    raw = any((t.get("cpath") or "") in RAW for g in [f] + prog.closures_of(f) for _b, t in g.body.calls())
    ctx.decide(uses and not raw, rule, rule + ":Keyword::try_from", f.loc, "keyword lookup compares with cmp_str",
               "Keyword::try_from no longer compares through cmp_str")
    mt = [g for g in prog.fns.values() if g.name == "matches_token" and g.impl and g.impl["self_ty"].endswith("::Keyword")]
    if len(mt) != 1:
        raise CheckError("anchor Keyword::matches_token")
    uses = any((t.get("cpath") or "").endswith("eq_ignore_ascii_case") for _b, t in mt[0].body.calls())
    ctx.decide(uses, rule, rule + ":Keyword::matches_token", mt[0].loc, "eq_ignore_ascii_case",
               "Keyword::matches_token compares the token text case-sensitively")
    # every function in rusty_parser::built_ins that compares a &str against a literal uses eq_ignore_ascii_case
    n = 0
    for g in sorted(prog.fns.values(), key=lambda x: x.id):
        if g.crate != "rusty_parser" or "::built_ins::" not in g.id:
            continue
        lits = 0
        folded = 0
        for _b, t in g.body.calls():
            cp = t.get("cpath") or ""
            if cp.endswith("eq_ignore_ascii_case"):
                folded += 1
        if folded:
            n += 1
            owner = prog.enclosing_fn(g) or g
            ctx.ok(rule, "%s:built-in-names:%s" % (rule, owner.path.split("::", 1)[1]), g.loc,
                   "%d name comparisons through eq_ignore_ascii_case" % folded)
    ctx.analysed_units(rule, built_in_name_matchers=n)
    ctx.require(rule, 3)


def r5_line_endings(ctx, rule="C09.R5"):
    prog = ctx.prog
    f = _fn(prog, "rusty_parser", "create_row_col_view")
    consts = set()
    for blk in f.body.blocks:
        for s in blk["s"]:
            if s["k"] == "assign" and s["r"]["k"] == "bin" and s["r"]["op"] in ("Eq", "Ne"):
                for kk in ("a", "b"):
                    k = s["r"][kk].get("k")
                    if k and "int" in k and k.get("ty") in ("char", "u8"):
                        consts.add(k["int"])
        t = blk["t"]
        if t["k"] == "switch" and t.get("ty") in ("char", "u8"):
            for v, _ in t["ts"]:
                consts.add(v)
        if t["k"] == "call" and (t.get("cpath") or "") in RAW:
            for a in t["args"]:
                pass
    # char comparisons are often calls to PartialEq on promoted constants: collect promoted chars
    for p in f.promoted:
        for blk in p.blocks:
            for s in blk["s"]:
                if s["k"] == "assign" and s["r"]["k"] == "use":
                    k = s["r"]["o"].get("k")
                    if k and "int" in k and k.get("ty") in ("char", "u8"):
                        consts.add(k["int"])
    ctx.decide({10, 13} <= consts, rule, rule + ":row-col-view:cr-and-lf", f.loc,
               "row counting tests both CR and LF",
               "create_row_col_view no longer tests both CR and LF (constants seen: %s)" % sorted(consts))
    ctx.require(rule, 1)


def r6_lexer_letters(ctx, rule="C09.R6"):
    """ASCII letter constants in the lexer must not be matched exactly (one_p / one_of_p / ==)."""
    prog = ctx.prog
    n = 0
    for fn in sorted(prog.fns.values(), key=lambda f: f.id):
        if fn.crate != "rusty_parser" or "::tokens::" not in fn.id:
            continue
        for b, t in fn.body.calls():
            for i, a in enumerate(t["args"]):
                k = a.get("k")
                if not (k and k.get("ty") == "char" and "int" in k and chr(k["int"]).isalpha()):
                    continue
                n += 1
                letter = chr(k["int"])
                callee = prog.fns.get(mir.callee_of(t))
                exact = _flows_to_exact_match(prog, callee, i) if callee is not None else \
                    mir.callee_path(t).split("::")[-1] in ("one_p", "one_of_p")
                owner = prog.enclosing_fn(fn) or fn
                key = "%s:%s:'%s'" % (rule, owner.path.split("::", 1)[1], letter)
                ctx.decide(not exact, rule, key, "%s:%s" % (fn.file, t.get("ln")),
                           "letter %r is not matched exactly" % letter,
                           "the lexer matches the letter %r exactly (one_p): the other case of the same "
                           "letter is a syntax error (e.g. &h vs &H)" % letter)
    ctx.ok(rule, rule + ":scan", "rusty_parser::tokens", "%d letter constants" % n)
    ctx.require(rule, 1)


def _flows_to_exact_match(prog, callee, arg_index, depth=0):
    if depth > 3:
        return False
    for f in [callee] + prog.closures_of(callee):
        pv = mir.Prov(f.body)
        for b, t in f.body.calls():
            name = mir.callee_path(t).split("::")[-1]
            for j, a in enumerate(t["args"]):
                o = mir.strip_all(pv.of_operand(a))
                if f is callee and o == ("param", arg_index):
                    if name in ("one_p", "one_of_p") or (t.get("cpath") or "") in RAW:
                        return True
                    g = prog.fns.get(mir.callee_of(t))
                    if g is not None and _flows_to_exact_match(prog, g, j, depth + 1):
                        return True
    return False


def r7_char_comparisons(ctx, rule="C09.R7"):
    """Comparisons between two characters that both come from program text must fold case."""
    prog = ctx.prog
    table = json.load(open(os.path.join(VERIF, "tables", "raw_text_compare.json")))
    allowed = {e["function"]: e["reason"] for e in table.get("char_comparisons_case_free", [])}
    n = 0
    for fn in sorted(prog.fns.values(), key=lambda f: f.id):
        if fn.crate not in ("rusty_parser", "rusty_linter") or fn.kind == "const" or common.is_derived(fn):
            continue
        pv = None
        for blk in fn.body.blocks:
            for st in blk["s"]:
                if not (st["k"] == "assign" and st["r"]["k"] == "bin" and st["r"]["op"] in ("Lt", "Le", "Gt", "Ge", "Eq", "Ne")):
                    continue
                a, b = st["r"]["a"], st["r"]["b"]
                if "k" in a or "k" in b:
                    continue

                def ty(o):
                    p = mir.op_place(o)
                    return fn.body.locals[p[0]]["ty"] if p is not None and not p[1] else None
                if ty(a) != "char" and ty(b) != "char":
                    continue
                n += 1
                pv = pv or mir.Prov(fn.body)
                oa, ob = pv.of_operand(a), pv.of_operand(b)
                folded = all(mir.origin_mentions(o, lambda x: x[0] == "call" and x[1].endswith(
                    ("to_ascii_uppercase", "to_ascii_lowercase"))) for o in (oa, ob))
                name = fn.path.split("::", 1)[1]
                key = "%s:%s:%s" % (rule, name, st["r"]["op"])
                loc = "%s:%s" % (fn.file, st.get("ln"))
                if folded:
                    ctx.ok(rule, key, loc, "both characters folded")
                elif name in allowed:
                    ctx.ok(rule, key, loc, "tabled: " + allowed[name])
                else:
                    ctx.violation(rule, key, loc,
                                  "%s compares two characters of the program text (%s %s %s) without "
                                  "folding their case: the outcome depends on how the letters are spelled"
                                  % (name, mir.short_origin(oa), st["r"]["op"], mir.short_origin(ob)))
    ctx.ok(rule, rule + ":scan", "rusty_parser, rusty_linter", "%d char-char comparisons" % n)
    ctx.require(rule, 2)


def r10_statement_end_is_eol_or_colon(ctx, rule="C09.R10"):
    """`whether consecutive statements are separated by a newline or a colon`: every parser function
    that recognises the Eol token as the end of something must recognise ':' as well, unless it is
    tabled with the reason a colon is no alternative there (comment text, string text, blank-line
    skipping after the separator, the lexer rules that produce Eol).  Token classes are read from the
    constants of each function, its closures and promoted constants (the any_token_of! tables and
    the operands of matches_token)."""
    prog = ctx.prog
    table = json.load(open(os.path.join(VERIF, "tables", "eol_without_colon.json")))["functions"]

    def consts_of(body, acc):
        def opk(o):
            k = o.get("k") if isinstance(o, dict) else None
            if isinstance(k, dict) and k.get("ty") == "char" and "int" in k:
                acc["chars"].add(chr(k["int"]))
        for blk in body.blocks:
            for st in blk["s"]:
                if st["k"] != "assign":
                    continue
                r = st["r"]
                if r.get("k") == "agg" and (r.get("adt") or "").endswith("::TokenType"):
                    acc["tt"].add(r["variant"])
                for kk in ("o", "a", "b"):
                    if kk in r and isinstance(r[kk], dict):
                        opk(r[kk])
                for o in r.get("ops", []):
                    opk(o)
            t = blk["t"]
            if t["k"] == "call":
                for a in t["args"]:
                    opk(a)
    owners = {}
    for f in prog.fns.values():
        if f.crate != "rusty_parser" or f.kind == "const":
            continue
        o = prog.enclosing_fn(f) or f
        acc = owners.setdefault(o.path.split("::", 1)[1], {"tt": set(), "chars": set(), "fn": o})
        consts_of(f.body, acc)
        for pb in f.promoted:
            consts_of(pb, acc)
    n = 0
    seen = set()
    for name, acc in sorted(owners.items()):
        if "Eol" not in acc["tt"]:
            continue
        n += 1
        seen.add(name)
        if ":" in acc["chars"]:
            ctx.ok(rule, "%s:%s" % (rule, name), acc["fn"].loc, "recognises Eol and ':'")
        elif name in table:
            ctx.ok(rule, "%s:%s" % (rule, name), acc["fn"].loc, "Eol only, tabled: " + table[name])
        else:
            ctx.violation(rule, "%s:%s" % (rule, name), acc["fn"].loc,
                          "%s recognises the end of a line (TokenType::Eol) but not ':' (it matches %s): where "
                          "this parser decides that a statement has ended, `stmt : next` is treated differently "
                          "from the same statements on two lines" % (name, sorted(acc["chars"])), {})
    stale = [k for k in table if k not in seen]
    if stale:
        ctx.notes.append("%s: tabled functions that no longer recognise Eol (entries unused): %s" % (rule, stale))
    ctx.analysed_units(rule, functions_recognising_eol=n)
    ctx.require(rule, 6)


SOFT_VARIANTS = ("Miss", "Expected")


def _fatal_errors_built(prog, fn):
    out = []
    for f in [fn] + prog.closures_of(fn):
        for blk in f.body.blocks:
            for st in blk["s"]:
                r = st.get("r", {})
                if st["k"] == "assign" and r.get("k") == "agg" and (r.get("adt") or "").endswith("error::ParserError") \
                        and r.get("variant") not in SOFT_VARIANTS:
                    out.append(r["variant"])
        for _b, t in f.body.calls():
            nm = (t.get("cpath") or "").split("::")[-1]
            if nm in ("to_fatal", "or_fail", "or_expected", "or_syntax_error"):
                out.append(nm + "()")
    return out


def r11_lexer_is_total(ctx, rule="C09.R11"):
    """`comments ... never change meaning`: the lexer turns ALL text into tokens, also the text of a
    comment and of a string literal, where any character sequence is legal.  A token rule must
    therefore never fail fatally - a fatal error (anything but Miss / Expected) raised while
    tokenising is raised for comment text as well.  Limits on what a token may be (identifier
    length ...) belong where the token is parsed as a name.  Every function of the lexer module
    tokens::any_token is scanned for ParserError values other than the two soft variants and for the
    combinators that turn a soft error into a fatal one; the same scan must find fatal errors in at
    least ten functions of the parser proper (positive control)."""
    prog = ctx.prog
    lexer = [f for f in prog.fns.values() if f.crate == "rusty_parser" and f.kind != "closure"
             and "::tokens::any_token::" in f.id + "::"]
    n = 0
    for f in sorted(lexer, key=lambda f: f.id):
        n += 1
        bad = _fatal_errors_built(prog, f)
        name = f.path.split("::", 1)[1]
        ctx.decide(not bad, rule, "%s:%s" % (rule, name), f.loc, "no fatal error is raised by this token rule",
                   "the token rule %s raises a fatal error (%s): the lexer also tokenises the text of comments "
                   "and string literals, so a comment (or a string) containing such text makes the whole program "
                   "unparsable" % (name, ", ".join(sorted(set(bad)))))
    # the scan must be able to see fatal errors: the parser proper raises them in many places
    others = sum(1 for f in prog.fns.values() if f.crate == "rusty_parser" and f.kind != "closure"
                 and f not in lexer and _fatal_errors_built(prog, f))
    if others < 10:
        raise CheckError("%s: only %d parser functions outside the lexer are seen raising a fatal error - "
                         "the scan may be blind" % (rule, others))
    ctx.analysed_units(rule, token_rules=n)
    ctx.require(rule, 10)


def r12_statement_end_lookahead_skips_blanks(ctx, rule="C09.R12"):
    """`spacing and comments never change meaning`: blanks may stand between a statement and the
    colon / comment / line end that follows it.  The lookahead parser that recognises the end of a
    statement looks at exactly one token, so every place that uses it must skip optional blanks first
    (its result is handed to lead_opt_ws); sibling rule over all call sites."""
    prog = ctx.prog
    n = 0
    for f in sorted(prog.fns.values(), key=lambda f: f.id):
        if f.crate != "rusty_parser":
            continue
        sites = [(b, t) for b, t in f.body.calls() if (t.get("cpath") or "").endswith("::peek_eof_or_statement_separator")]
        if not sites:
            continue
        pv = mir.Prov(f.body)
        wrapped = set()
        for b2, t2 in f.body.calls():
            if (t2.get("cpath") or "").split("::")[-1] in ("lead_opt_ws", "lead_ws") and t2["args"]:
                o = mir.strip_all(pv.of_operand(t2["args"][0]))
                if o[0] == "call" and o[1].endswith("::peek_eof_or_statement_separator"):
                    wrapped.add(o[3] if len(o) > 3 else None)
        for b, t in sites:
            n += 1
            owner = (prog.enclosing_fn(f) or f).path.split("::", 1)[1]
            ctx.decide(b in wrapped or (None in wrapped), rule, "%s:%s" % (rule, owner), "%s:%s" % (f.file, t.get("ln")),
                       "the end-of-statement lookahead is preceded by optional blanks",
                       "%s uses the one-token end-of-statement lookahead without skipping blanks first: "
                       "`KEYWORD ' comment` and `KEYWORD : next` (a blank before the comment / colon) are "
                       "rejected although `KEYWORD` at the end of the line is accepted" % owner)
    ctx.require(rule, 2)


def r13_lookahead_guard_is_tight(ctx, rule="C09.R13"):
    """`line endings never change meaning` / `rows counted as the user sees them under any line-ending
    convention`: create_row_col_view looks one character ahead of a CR to recognise CR LF.  The guard
    of that look-ahead must be exactly `the next character exists`: C07.R1 proves that it is strong
    enough (no index past the end); this rule proves that it is not stronger - from `the index is in
    range` (and the other facts that hold there) the guard follows - otherwise a CR LF at a place the
    guard wrongly excludes (the very end of the text) counts as two line ends."""
    from .. import bounds
    from ..sympath import Facts, show
    prog = ctx.prog
    f = _fn(prog, "rusty_parser", "create_row_col_view")
    pr = bounds.Prover(prog, f)
    n = 0
    for kind, b, t in bounds.implicit_sites(f):
        if kind != "bounds":
            continue
        goal = pr.ex.of_operand(t["o"])
        facts = pr.dominating_facts(b)
        # the look-ahead sites are those whose index is not the loop variable itself: their goal is
        # not literally among the dominating facts
        if any(c == goal and v for c, v, _d in facts):
            continue
        guards = [(c, v, d) for c, v, d in facts if bounds.vars_of(c) & bounds.vars_of(goal) and c[0] == "lt"
                  and c != goal]
        if not guards:
            continue
        # the guard nearest to the site
        g = max(guards, key=lambda x: sum(1 for y in guards if f.body.dominates(y[2], x[2])))
        n += 1
        fx = Facts()
        for v in bounds.vars_of(goal) | bounds.vars_of(g[0]):
            pr._mark_signed(fx, v)
        for c, v, d in facts:
            if (c, v, d) == g:
                continue
            f2 = fx.copy()
            if f2.assume_bool(c, v):
                fx = f2
        fx.assume_bool(goal, True)
        implied = not fx.copy().assume_bool(g[0], not g[1])
        ctx.decide(implied, rule, "%s:create_row_col_view:lookahead#%d" % (rule, n), "%s:%s" % (f.file, t.get("ln")),
                   "the guard %s is equivalent to the index being in range" % show(g[0]),
                   "the guard %s%s of the look-ahead is stronger than `%s`: there are positions where the next "
                   "character exists but is not looked at - a CR LF there is counted as two line ends, so every "
                   "position after it (and the end-of-input position) is one row too far"
                   % ("" if g[1] else "not ", show(g[0]), show(goal)))
    if n == 0:
        # no indexed look-ahead at all: `chars.get(i + 1)` answers None exactly when the next
        # character does not exist, which is the tight guard by construction
        gets = [t for _b, t in f.body.calls() if (t.get("cpath") or "").endswith("::get")
                and ("[" in (t.get("self_ty") or "") or "slice" in (t.get("cpath") or ""))]
        if not gets:
            raise CheckError("%s: create_row_col_view has neither an indexed nor a checked look-ahead" % rule)
        ctx.ok(rule, "%s:create_row_col_view:lookahead-checked-get" % rule, f.loc,
               "the look-ahead uses slice::get, which is None exactly when the next character does not exist")
    ctx.require(rule, 1)


PRIMARY_ONLY = {
    # the parser of a parenthesised primary `( expr )` and who may use it: only the list of primary
    # expressions - everywhere else an expression that STARTS with a parenthesis goes on after it
    "expr::parenthesis::parser": ("expr::binary_expression::non_bin_expr",),
}


def r14_parenthesis_is_only_a_primary(ctx, rule="C09.R14"):
    """`spacing never changes meaning`: after a keyword (NOT, AND, MOD, WHILE, TO, IF ...) an operand
    may follow without a blank when it starts with `(`.  The operand is then still a whole
    expression - `NOT(1)+1` is `NOT (1)+1`.  A position that offers the parenthesis-only parser as
    an alternative to `blank + expression` stops at the closing parenthesis: with the blank the rest
    belongs to the operand, without it the rest is left over (a different grouping or a syntax
    error).  Who-may-call rule: the parenthesis-only parser is used by the list of primaries only."""
    prog = ctx.prog
    n = 0
    for target, allowed in PRIMARY_ONLY.items():
        tf_ = [f for f in prog.fns.values() if f.crate == "rusty_parser" and f.path.split("::", 1)[1] == target]
        if len(tf_) != 1:
            raise CheckError("%s: anchor %s: %d matches" % (rule, target, len(tf_)))
        callers = set()
        for f in prog.fns.values():
            if f.crate != "rusty_parser":
                continue
            if any(mir.callee_of(t) == tf_[0].id for _b, t in f.body.calls()):
                callers.add((prog.enclosing_fn(f) or f).path.split("::", 1)[1])
        if not callers:
            raise CheckError("%s: %s has no caller" % (rule, target))
        for c in sorted(callers):
            n += 1
            ctx.decide(c in allowed, rule, "%s:%s" % (rule, c), tf_[0].loc,
                       "a list of primary expressions",
                       "%s uses the parenthesis-only parser where a whole expression is expected: an operand that "
                       "starts with `(` ends at the matching `)`, so `KEYWORD(a)+b` is not `KEYWORD (a)+b` "
                       "(NOT(1)+1 = -1 but NOT (1)+1 = -3; `1 AND(2)+1`, `WHILE(x)+1 < 3`, `IF(x)-1 = 1 THEN` are "
                       "syntax errors)" % c)
    ctx.require(rule, 1)


def r15_line_end_is_followed_by_blank_skipping(ctx, rule="C09.R15"):
    """`blank lines never change meaning`: whoever consumes the end of a line as a separator (after a
    statement, after a comment) also skips the blank lines and indentation that follow - the
    repetition over {Eol, Whitespace}.  Sibling rule: each parser function that matches an Eol token
    (Include mode, outside the lexer, not a mere look-ahead) either is such a repetition itself, or
    calls one, or all of its callers do."""
    prog = ctx.prog
    owners = {}
    for f in prog.fns.values():
        if f.crate != "rusty_parser" or f.kind == "const":
            continue
        o = prog.enclosing_fn(f) or f
        acc = owners.setdefault(o.id, {"fn": o, "tt": set(), "exclude": False, "calls": set(), "peek": False, "many": False})
        for body in [f.body] + list(f.promoted):
            for blk in body.blocks:
                for st in blk["s"]:
                    r = st.get("r", {})
                    if st["k"] == "assign" and r.get("k") == "agg":
                        if (r.get("adt") or "").endswith("::TokenType"):
                            acc["tt"].add(r["variant"])
                        if (r.get("adt") or "").endswith("::MatchMode") and r.get("variant") == "Exclude":
                            acc["exclude"] = True
        # callees and functions handed over by name (`.and_then(helper)`)
        for c in prog.call_edges(f):
            if c in prog.fns and prog.fns[c].crate == "rusty_parser":
                ci = (prog.enclosing_fn(prog.fns[c]) or prog.fns[c]).id
                if ci != o.id:
                    acc["calls"].add(ci)
        for _b, t in f.body.calls():
            nm = (t.get("cpath") or "").split("::")[-1]
            if nm in ("peek", "peek_token"):
                acc["peek"] = True
            if nm in ("many_allow_none", "zero_or_more", "many", "one_or_more"):
                acc["many"] = True
    skippers = {i for i, a in owners.items() if {"Eol", "Whitespace"} <= a["tt"] and a["many"] and not a["exclude"]}
    if not skippers:
        raise CheckError("%s: no repetition over {Eol, Whitespace} found" % rule)
    callers = {}
    for i, a in owners.items():
        for c in a["calls"]:
            callers.setdefault(c, set()).add(i)
    # a helper used only by look-ahead parsers (the decision of a peek moved into a named function)
    # looks ahead as well
    changed = True
    while changed:
        changed = False
        for i, a in owners.items():
            cs = [c for c in callers.get(i, ()) if c in owners]
            if not a["peek"] and cs and all(owners[c]["peek"] for c in cs):
                a["peek"] = changed = True
    n = 0
    for i, a in sorted(owners.items()):
        if "Eol" not in a["tt"] or a["exclude"] or a["peek"] or i in skippers or "::tokens::" in i:
            continue
        n += 1
        name = a["fn"].path.split("::", 1)[1]
        own = bool(a["calls"] & skippers)
        cs = callers.get(i, set())
        via_callers = bool(cs) and all(owners[c]["calls"] & skippers for c in cs if c in owners)
        ctx.decide(own or via_callers, rule, "%s:%s" % (rule, name), a["fn"].loc,
                   "the line end it consumes is followed by the blank-skipping repetition",
                   "%s consumes the end of a line but neither it nor its callers go on to skip the blank lines and "
                   "indentation that follow (no repetition over Eol / Whitespace): a blank line after this "
                   "separator makes a valid program unparsable" % name)
    ctx.analysed_units(rule, line_end_consumers=n, blank_skippers=sorted(owners[i]["fn"].name for i in skippers))
    ctx.require(rule, 2)


def r16_label_is_name_then_colon(ctx, rule="C09.R16"):
    """`newline vs colon between consecutive statements`: a call of a SUB without arguments followed
    by the colon separator is spelled `Name : Next` - blanks, then the colon.  The label parser is
    tried before the call parser, so it must accept the name and the colon only when they are
    adjacent: if anything that can match nothing-or-blanks sits between them, `Greet : Greet` turns
    the first call into a label although `Greet` newline `Greet` is two calls.  Decided on the
    combinator type of the parser that builds Statement::Label: run in order, none of its parts
    before the last is optional."""
    from .. import pcnull
    prog = ctx.prog
    # self-test of the type reader
    probe = "a::MapParser<a::AndParser<X<T>, a::AndParser<a::ToOptionParser<W>, Y<T>, K, O>, K2, O2>, {closure@x.rs:1:1: 1:2}>"
    parts = pcnull.sequence(probe)
    if parts != ["X<T>", "a::ToOptionParser<W>", "Y<T>"] or not pcnull.provably_optional(parts[1]):
        raise CheckError("%s: self-test of pcnull.sequence failed: %s" % (rule, parts))
    owners = []
    for f in prog.fns.values():
        if f.crate != "rusty_parser":
            continue
        for blk in f.body.blocks:
            for st in blk["s"]:
                r = st.get("r", {})
                if st["k"] == "assign" and r.get("k") == "agg" and (r.get("adt") or "").endswith("::Statement") \
                        and r.get("variant") == "Label":
                    o = prog.enclosing_fn(f) or f
                    if o not in owners:
                        owners.append(o)
    owners = [o for o in owners if "Parser" in o.body.locals[0]["ty"]]
    if not owners:
        raise CheckError("%s: no parser builds Statement::Label" % rule)
    for o in owners:
        parts = pcnull.sequence(o.body.locals[0]["ty"])
        name = o.path.split("::", 1)[1]
        if len(parts) < 2:
            raise CheckError("%s: the type of %s shows no sequence (%s)" % (rule, name, parts))
        opt = [pcnull.head_chain(p_, 3) for p_ in parts[:-1] if pcnull.provably_optional(p_)]
        ctx.decide(not opt, rule, "%s:%s" % (rule, name), o.loc,
                   "%d mandatory parts" % len(parts),
                   "the label parser %s accepts something optional before its colon (%s): `Greet : Greet` - a call "
                   "without arguments, blank, colon separator - is read as the label `Greet` although the same "
                   "two calls on two lines are two calls" % (name, ", ".join(opt)))
    ctx.require(rule, 1)


def r17_one_definition_of_line_end(ctx, rule="C09.R17"):
    """`line endings never change meaning`: CR, LF and CR LF are one kind of token (Eol) made in one
    place of the lexer, and counted in one place (the row/column table).  Any other parser function
    that mentions the characters CR or LF decides for itself where a line ends - a comment read `up to
    the next LF` swallows the rest of a CR-only file.  In rusty_parser only the functions that the
    Eol-token builder is made of, and the row/column table, contain a CR or LF character constant."""
    prog = ctx.prog
    builders = []
    for f in prog.fns.values():
        if f.crate != "rusty_parser" or "::tokens::" not in f.id or f.kind == "const":
            continue
        makes_eol = any(st["k"] == "assign" and st["r"].get("k") == "agg" and (st["r"].get("adt") or "").endswith("::TokenType")
                        and st["r"].get("variant") == "Eol" for body in [f.body] + list(f.promoted) for blk in body.blocks for st in blk["s"])
        if makes_eol and any((t.get("cpath") or "").split("::")[-1] == "to_token" for _b, t in f.body.calls()):
            builders.append(prog.enclosing_fn(f) or f)
    view = [f for f in prog.fns.values() if f.crate == "rusty_parser" and f.name == "create_row_col_view"]
    if not builders or len(view) != 1:
        raise CheckError("%s: Eol token builder (%d) / row-column table (%d) not found" % (rule, len(builders), len(view)))
    allowed = {i for i in prog.reachable_from(builders) if i in prog.fns and prog.fns[i].crate == "rusty_parser"}
    allowed |= {view[0].id} | {c.id for c in prog.closures_of(view[0])}

    def char_consts(o, out):
        if isinstance(o, dict):
            k = o.get("k")
            if isinstance(k, dict) and k.get("ty") in ("char", "&str", "&'static str") and isinstance(k.get("s"), str):
                out.append(k)
            for v in o.values():
                char_consts(v, out)
        elif isinstance(o, list):
            for v in o:
                char_consts(v, out)
    n = 0
    seen_allowed = 0
    for f in sorted(prog.fns.values(), key=lambda f: f.id):
        if f.crate != "rusty_parser" or f.kind == "const":
            continue
        out = []
        for body in [f.body] + list(f.promoted):
            char_consts(body.blocks, out)
        hits = sorted({k["s"] for k in out if re.search(r"\\[nr]|\\u\{0*[ad]\}", k["s"])})
        if not hits:
            continue
        owner = prog.enclosing_fn(f) or f
        if f.id in allowed or owner.id in allowed:
            seen_allowed += 1
            continue
        n += 1
        name = owner.path.split("::", 1)[1]
        ctx.violation(rule, "%s:%s" % (rule, name), f.loc,
                      "%s contains the line-end character(s) %s: it decides on its own where a line ends instead of using "
                      "the lexer's Eol token, so one of CR / LF / CR LF is treated differently here (a comment read up to "
                      "the next LF swallows the rest of a CR-only file)" % (name, ", ".join(hits)))
    if seen_allowed < 2:
        raise CheckError("%s: the CR / LF constants of the lexer and the row table were not seen (%d)" % (rule, seen_allowed))
    ctx.ok(rule, rule + ":only-lexer-and-row-table", builders[0].loc,
           "%d functions with CR / LF constants, all part of the Eol token or the row/column table" % seen_allowed)
    ctx.require(rule, 1)


_RAW_KEYED = re.compile(r"(HashSet|HashMap|BTreeMap|BTreeSet)<(&(?:'\w+ )?(?:mut )?str|std::string::String|&(?:'\w+ )?std::string::String)\b")


def r18_no_container_keyed_by_raw_text(ctx, rule="C09.R18"):
    """`identifiers differing only in letter case are the same name`: wherever names are collected in a set or a
    map, the key type is one of the folding types (CaseInsensitiveString, BareName, Name ...), whose Hash / Eq
    ignore case (R1).  A `HashSet<&str>` filled from `name.as_str()` compares the spelling: `Code` and `CODE` are
    two entries, a duplicate TYPE element goes unnoticed.  No local of the parser, the checker, the generator / VM
    or the common crate has a set / map type keyed by `&str` or `String`."""
    for ty, want in (("std::collections::HashSet<&str>", True), ("std::collections::HashMap<std::string::String, i32>", True),
                     ("std::collections::HashMap<rusty_common::CaseInsensitiveString, i32>", False),
                     ("std::collections::HashSet<&'a str, S>", True)):
        if bool(_RAW_KEYED.search(ty)) != want:
            raise CheckError("%s: detector self-test failed on %s" % (rule, ty))
    prog = ctx.prog
    n = 0
    bad = {}
    for f in sorted(prog.fns.values(), key=lambda f: f.id):
        if f.crate not in ("rusty_parser", "rusty_linter", "rusty_basic", "rusty_common", "rusty_variant") or f.body is None:
            continue
        n += 1
        for l in f.body.locals:
            m = _RAW_KEYED.search(l["ty"])
            if m:
                owner = prog.enclosing_fn(f) or f
                bad.setdefault(owner.path.split("::", 1)[1], (m.group(0), f.loc))
    for name, (ty, loc) in sorted(bad.items()):
        ctx.violation(rule, "%s:%s" % (rule, name), loc,
                      "%s keeps text in a container keyed by its raw spelling (%s..>): two spellings of one identifier are "
                      "two keys - names must be keyed by a folding type" % (name, ty))
    ctx.ok(rule, rule + ":scan", "workspace", "%d functions, no set / map keyed by raw text; detector self-test passed" % n)
    ctx.require(rule, 1)


def r19_a_keyword_ends_at_any_blank(ctx, rule="C09.R19"):
    """`spacing ... never changes meaning`: a TAB is a blank like a space (the lexer's own blank class says so).
    The predicate that decides where a keyword ends - which characters may follow it - accepts every character
    of the lexer's blank class and both line-end characters; were it narrower than the blank class, `CASE ELSE`
    followed by a TAB would be an identifier.  Both predicates are evaluated on all 128 ASCII characters."""
    from .. import charpred
    prog = ctx.prog
    eng = charpred.engine(prog)
    lex = [f for f in prog.fns.values() if f.crate == "rusty_parser" and "::tokens::" in "::" + f.id and f.body is not None
           and f.kind != "closure" and f.argc == 1 and "char" in f.body.locals[1]["ty"] and f.body.locals[0]["ty"] == "bool"]
    blanks = [f for f in lex if "whitespace" in f.name or "blank" in f.name]
    after_kw = [f for f in lex if "keyword" in f.name]
    if len(blanks) != 1 or len(after_kw) != 1:
        # by what they do: the blank class accepts ' ' and rejects 'A'; the after-keyword class rejects 'A' and '$'
        tables = {f.id: charpred.accepted(eng, prog, ("fn", f))[0] for f in lex}
        blanks = [f for f in lex if tables[f.id] and tables[f.id] <= {9, 11, 12, 32}]
        after_kw = [f for f in lex if 32 in tables[f.id] and 65 not in tables[f.id] and 36 not in tables[f.id] and len(tables[f.id]) > 8]
    if len(blanks) != 1 or len(after_kw) != 1:
        raise CheckError("%s: the lexer's blank class / after-keyword class was not found (%d / %d candidates)"
                         % (rule, len(blanks), len(after_kw)))
    b_acc, b_und = charpred.accepted(eng, prog, ("fn", blanks[0]))
    k_acc, k_und = charpred.accepted(eng, prog, ("fn", after_kw[0]))
    if b_und or k_und or not b_acc:
        raise CheckError("%s: a character class could not be evaluated (%d / %d undecided)" % (rule, len(b_und), len(k_und)))
    need = b_acc | {10, 13}
    missing = sorted(need - k_acc)
    ctx.decide(not missing, rule, "%s:%s" % (rule, after_kw[0].name), after_kw[0].loc,
               "every blank (%s) and both line-end characters may follow a keyword" % sorted(b_acc),
               "%s does not let %s follow a keyword although %s counts them as blanks / they end a line: a keyword followed "
               "by that character is read as an identifier (`CASE ELSE<TAB>` becomes a CASE on a variable named ELSE)"
               % (after_kw[0].name, [repr(chr(c)) for c in missing], blanks[0].name))
    ctx.analysed_units(rule, blank_class=sorted(b_acc), after_keyword_class_size=len(k_acc))
    ctx.require(rule, 1)


def _fn_consts(f):
    """(token types, characters) mentioned as constants by a function, its promoted constants"""
    tt, chars = set(), set()

    def opk(o):
        k = o.get("k") if isinstance(o, dict) else None
        if isinstance(k, dict) and k.get("ty") == "char" and "int" in k:
            chars.add(chr(k["int"]))
    for body in [f.body] + list(f.promoted):
        for blk in body.blocks:
            for st in blk["s"]:
                if st["k"] != "assign":
                    continue
                r = st["r"]
                if r.get("k") == "agg" and (r.get("adt") or "").endswith("::TokenType"):
                    tt.add(r["variant"])
                for kk in ("o", "a", "b"):
                    if kk in r and isinstance(r[kk], dict):
                        opk(r[kk])
                for o in r.get("ops", []):
                    opk(o)
            t = blk["t"]
            if t["k"] == "call":
                for a in t["args"]:
                    opk(a)
    return tt, chars


_WRAPPERS = ("lead_opt_ws", "lead_ws", "padded_by_ws")
_SEQ = ("and", "and_keep_left", "and_keep_right", "and_tuple", "and_opt", "then_demand")
# combinators that keep their one parser at the head of what they make
_HEAD_OK = ("map", "and_then", "to_option", "or_expected", "many", "many_allow_none", "zero_or_more", "one_or_more",
            "to_fatal", "with_pos", "peek", "or_default", "filter", "filter_map", "map_to_unit", "boxed", "flat_map",
            "with_expected_message", "no_context", "map_err", "or_fail", "or_syntax_error")


def r20_colon_separator_follows_optional_blanks(ctx, rule="C09.R20"):
    """`the amount of blanks or tabs where one is allowed` / `separated by a newline or a colon`: blanks may stand
    in front of the colon that separates two statements (`a = 1 : b = 2`) exactly as they may stand at the end of
    a line.  Every parser made from a token class that contains ':' (and no blank class of its own) is followed
    from the function that makes it, through the combinators it is handed to and the functions that return it,
    until it is put behind something that skips optional blanks (lead_opt_ws / lead_ws / padded_by_ws, or the
    second place of a sequence whose first part is a blank-skipping repetition).  A separator that reaches a
    delimited list, a choice or the return of a public parser without that is reported.  The label parser is
    the one place where the colon must be adjacent (C09.R16) and ends the walk."""
    prog = ctx.prog
    pf = [f for f in prog.fns.values() if f.crate == "rusty_parser" and f.kind != "const"]
    consts = {}
    for f in pf:
        o = prog.enclosing_fn(f) or f
        tt, ch = _fn_consts(f)
        acc = consts.setdefault(o.id, [set(), set(), o])
        acc[0] |= tt
        acc[1] |= ch
    blank_fns = {i for i, (tt, ch, o) in consts.items() if "Whitespace" in tt}
    label_builders = set()
    for f in pf:
        for blk in f.body.blocks:
            for st in blk["s"]:
                r = st.get("r", {})
                if st["k"] == "assign" and r.get("k") == "agg" and (r.get("adt") or "").endswith("::Statement") \
                        and r.get("variant") == "Label":
                    label_builders.add((prog.enclosing_fn(f) or f).id)
    bare = {}
    for i, (tt, ch, o) in consts.items():
        ty = o.body.locals[0]["ty"]
        if ":" in ch and "Whitespace" not in tt and "Parser" in ty + " Parser" and \
                ("AnyTokenOf" in ty or "Parser<" in ty) and not ty.startswith("rusty_pc::SurroundParser<"):
            bare[i] = "a token class with ':'"
    if not bare:
        raise CheckError("%s: no parser of the colon found" % rule)
    callers = prog.callers()
    work = sorted(bare)
    done = set()
    n = 0
    while work:
        fid = work.pop(0)
        if fid in done:
            continue
        done.add(fid)
        F = prog.fns[fid]
        for cid in sorted(callers.get(fid, ())):
            g = prog.fns.get(cid)
            if g is None or g.crate != "rusty_parser" or g.body is None:
                continue
            body = g.body
            owner = prog.enclosing_fn(g) or g
            for b0, t0 in body.calls():
                if mir.callee_of(t0) != fid:
                    continue
                n += 1
                key = "%s:%s<-%s" % (rule, owner.path.split("::", 1)[1], F.name)
                if owner.id in label_builders:
                    ctx.ok(rule, key, owner.loc, "the label parser: the colon must be adjacent to the name (C09.R16)")
                    continue
                tainted = {t0["d"][0]}
                wrapped, sinks, returned = [], [], False
                changed = True
                pv = mir.Prov(body)
                while changed:
                    changed = False
                    for b, blk in enumerate(body.blocks):
                        if body.is_cleanup(b):
                            continue
                        for st in blk["s"]:
                            if st["k"] != "assign":
                                continue
                            r = st["r"]
                            ops = [r[k] for k in ("o", "a", "b") if isinstance(r.get(k), dict)] + list(r.get("ops", []))
                            pls = [mir.op_place(o) for o in ops] + ([r["p"]] if "p" in r else [])
                            if any(p is not None and p[0] in tainted for p in pls) and st["p"][0] not in tainted:
                                tainted.add(st["p"][0])
                                changed = True
                                if st["p"][1] and st["p"][1][0] == "*":
                                    # a store through a pointer (vec![..] fills its box this way): what the
                                    # pointer was made from holds the value too
                                    stack = [st["p"][0]]
                                    while stack:
                                        l0 = stack.pop()
                                        ds = [x for x in body.defs().get(l0, []) if not body.is_cleanup(x[0])
                                              and not (x[2]["p"] if x[1] != "T" else x[2]["d"])[1]]
                                        d = ds[0] if len(ds) == 1 else None
                                        if d is None or d[1] == "T" or d[2]["r"].get("k") not in ("cast", "use", "ref", "rawptr", "copyderef"):
                                            continue
                                        r2 = d[2]["r"]
                                        p2 = mir.op_place(r2["o"]) if "o" in r2 else r2.get("p")
                                        if p2 is not None and p2[0] not in tainted:
                                            tainted.add(p2[0])
                                            stack.append(p2[0])
                        t = blk["t"]
                        if t["k"] != "call" or (b, "seen") in tainted:
                            continue
                        idx = [i for i, a in enumerate(t["args"]) if mir.op_place(a) is not None and mir.op_place(a)[0] in tainted]
                        if not idx:
                            continue
                        tainted.add((b, "seen"))
                        changed = True
                        name = mir.callee_path(t).split("::")[-1]
                        if name in _WRAPPERS:
                            wrapped.append(name)
                            continue
                        cpath = mir.callee_path(t)
                        if (name in _SEQ or name.startswith("delimited_by")) and max(idx) == 0:
                            pass
                        elif (name in _SEQ or name.startswith("delimited_by")) and max(idx) >= 1:
                            # not at the head of the sequence: whatever stands in front of it has to skip the blanks
                            o0 = mir.strip_all(pv.of_operand(t["args"][0]))
                            c0 = None
                            if o0[0] == "call" and name in _SEQ:
                                c0 = next((x for x in prog.fns.values() if x.path == o0[1] or x.id == o0[1]), None)
                            if c0 is not None and (prog.enclosing_fn(c0) or c0).id in blank_fns:
                                wrapped.append("%s after %s" % (name, c0.name))
                            else:
                                sinks.append("%s, place %d (line %s)" % (name, max(idx), t.get("ln", "?")))
                            if 0 not in idx:
                                continue
                        elif ("rusty_pc::" in cpath or "::pc_specific::" in cpath) and name not in _HEAD_OK and \
                                not name.startswith("or") and name != "new":
                            sinks.append("%s (a combinator this rule has no reading of)" % name)
                            continue
                        tainted.add(t["d"][0])
                if 0 in tainted:
                    returned = True
                if returned and g.kind != "closure" and not sinks:
                    if g.id not in done:
                        bare[g.id] = "returns what %s makes" % F.name
                        work.append(g.id)
                        work.sort()
                    if not callers.get(g.id):
                        ctx.violation(rule, key, owner.loc,
                                      "%s returns the colon parser of %s with no blank skipping in front and nothing "
                                      "was found that uses it" % (g.name, F.name), {})
                    else:
                        ctx.ok(rule, key, owner.loc, "handed on: %s is followed at its own users" % g.name)
                    continue
                if sinks:
                    ctx.violation(rule, key, owner.loc,
                                  "%s puts the parser of ':' made by %s (%s) behind another parser with no optional blanks "
                                  "in between (%s): `IF x THEN a = 1 : b = 2` - a blank before the colon - is read "
                                  "differently from `a = 1: b = 2` and from the same statements on two lines"
                                  % (owner.name, F.name, bare.get(fid, ""), "; ".join(sinks)), {})
                    continue
                ctx.decide(bool(wrapped) and not returned, rule, key, owner.loc,
                           "the parser of ':' made by %s is put behind optional blanks (%s)" % (F.name, ", ".join(wrapped)),
                           "%s uses the parser of ':' made by %s (%s) without skipping optional blanks in front of it: "
                           "`a = 1 : b = 2` (a blank before the colon) is read differently from `a = 1: b = 2` and from "
                           "the same statements on two lines" % (owner.name, F.name, bare.get(fid, "")))
    ctx.require(rule, 8)


def r21_string_literal_ends_on_its_line(ctx, rule="C09.R21"):
    """A string literal ends at its closing quote *on the same line*: the parser of the literal's text - the middle of
    the `surround` whose two delimiters are the quote parser - accepts neither the quote nor the end of a line.  Then an
    unclosed literal is reported in the line that has it; a text parser that runs over the line end swallows the
    following lines up to the next quote anywhere in the file, and the error surfaces in a later, correct line (or the
    program means something else).  Two spellings are decided: a token class in Exclude mode (Eol and the quote have to
    be in it), and a character predicate (tabulated over ASCII: quote, CR and LF are rejected)."""
    prog = ctx.prog
    from .. import charpred
    sites = []
    for f in prog.fns.values():
        if f.crate != "rusty_parser" or f.kind == "const":
            continue
        pv = None
        for _b, t in f.body.calls():
            if mir.callee_path(t).split("::")[-1] != "surround" or len(t["args"]) < 3:
                continue
            pv = pv or mir.Prov(f.body)
            makers = []
            for a in t["args"][:3]:
                o = mir.strip_refs(pv.of_operand(a))
                g = None
                if o[0] == "call":
                    g = prog.fns.get(o[1]) if isinstance(o[1], str) else None
                makers.append((o, g))
            if makers[0][1] is None or makers[2][1] is None or makers[1][1] is None:
                continue
            if makers[0][1].id != makers[2][1].id:
                continue
            _tt, chars = _fn_consts(makers[0][1])
            if chars == {'"'}:
                sites.append((f, makers[1][1]))
    if not sites:
        raise CheckError("%s: no `surround(quote, text, quote)` found in the parser" % rule)
    eng = charpred.engine(prog)
    for f, g in sites:
        key = "%s:%s" % (rule, g.path.split("::", 1)[1])
        bodies = [g] + prog.closures_of(g)
        exclude = any(st["k"] == "assign" and st["r"].get("k") == "agg" and (st["r"].get("adt") or "").endswith("::MatchMode")
                      and st["r"].get("variant") == "Exclude" for h in bodies for blk in h.body.blocks for st in blk["s"])
        if exclude:
            tt, chars = set(), set()
            for h in bodies:
                a, b = _fn_consts(h)
                tt |= a
                chars |= b
            ctx.decide("Eol" in tt and '"' in chars, rule, key, g.loc, "text = any token but Eol and the quote",
                       "the text of a string literal is any token except %s / %s: %s" % (
                           sorted(tt), sorted(chars),
                           "the end of a line is part of the text, so an unclosed literal runs on into the following lines"
                           if "Eol" not in tt else "the quote is part of the text"))
            continue
        preds = []
        for h in bodies:
            for _b, t in h.body.calls():
                if mir.callee_path(t).split("::")[-1] in ("filter", "filter_map", "read_if", "take_while") and len(t["args"]) >= 2:
                    pr = charpred.pred_of_operand(prog, h, t["args"][-1])
                    if pr is not None:
                        preds.append(pr)
        if len(preds) != 1:
            ctx.unknown(rule, key, g.loc, "the text parser of a string literal is neither an Exclude token class nor one "
                        "character predicate (%d predicates)" % len(preds))
            continue
        acc, und = charpred.accepted(eng, prog, preds[0])
        if und & {10, 13, 34}:
            ctx.unknown(rule, key, g.loc, "the character predicate is not evaluated at the quote / CR / LF")
            continue
        bad = sorted(acc & {10, 13, 34})
        ctx.decide(not bad, rule, key, g.loc, "the predicate rejects the quote, CR and LF",
                   "the character predicate of a string literal's text accepts %s: %s" % (
                       [{10: "LF", 13: "CR", 34: "the quote"}[c] for c in bad],
                       "an unclosed literal runs over the end of its line into the following lines, and the syntax error is "
                       "reported in a later, correct line" if set(bad) & {10, 13} else "the literal never ends"))
    ctx.analysed_units(rule, literals=[g.path.split("::", 1)[1] for _f, g in sites])
    ctx.require(rule, 1, max_unknown=1)


def run(ctx):
    common.install(ctx)
    r1_folding_pair(ctx)
    r2_raw_comparisons(ctx)
    r3_name_table_keys(ctx)
    r4_keyword_folding(ctx)
    r5_line_endings(ctx)
    r6_lexer_letters(ctx)
    r7_char_comparisons(ctx)
    from . import c02
    c02.r5_label_names_injective(ctx, "C09.R8")
    from . import c13
    c13.r3_default_types(ctx, "C09.R9")
    r10_statement_end_is_eol_or_colon(ctx)
    r11_lexer_is_total(ctx)
    r12_statement_end_lookahead_skips_blanks(ctx)
    r13_lookahead_guard_is_tight(ctx)
    r14_parenthesis_is_only_a_primary(ctx)
    r15_line_end_is_followed_by_blank_skipping(ctx)
    r16_label_is_name_then_colon(ctx)
    r17_one_definition_of_line_end(ctx)
    r18_no_container_keyed_by_raw_text(ctx)
    r19_a_keyword_ends_at_any_blank(ctx)
    r20_colon_separator_follows_optional_blanks(ctx)
    r21_string_literal_ends_on_its_line(ctx)
